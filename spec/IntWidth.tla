------------------------------ MODULE IntWidth ------------------------------
(***************************************************************************)
(* Integer width selection (property C06).                                 *)
(*                                                                         *)
(* TLC's integers are 32 bit, the property talks about 2^64.  Bounds are   *)
(* therefore symbolic boundary points <<s, k, d>> denoting s * 2^k + d     *)
(* (s in {-1, 1}; <<0, 0, d>> denotes d), plus MIN and MAX.  The 53 points *)
(* are laid out in increasing order in the sequence Points; everything is  *)
(* decided on indices into that sequence.  Because every limit of every    *)
(* fixed-width Rust type is itself a boundary point, "fits" is exact on    *)
(* indices.  OrderSound checks the layout numerically for the exponents    *)
(* TLC can evaluate (k <= 16); the construction is uniform in k.           *)
(***************************************************************************)
EXTENDS Integers, Sequences, FiniteSets

Ks == <<7, 8, 15, 16, 31, 32, 63, 64>>

\* the three points around s * 2^k, in increasing order
Around(s, k) == << <<s, k, -1>>, <<s, k, 0>>, <<s, k, 1>> >>

RECURSIVE NegPart(_), PosPart(_)
NegPart(i) == IF i = 0 THEN <<>> ELSE Around(-1, Ks[i]) \o NegPart(i - 1)
PosPart(i) == IF i > Len(Ks) THEN <<>> ELSE Around(1, Ks[i]) \o PosPart(i + 1)

MINP == <<-2, 0, 0>>
MAXP == <<2, 0, 0>>

Points == <<MINP>> \o NegPart(Len(Ks)) \o << <<0, 0, -1>>, <<0, 0, 0>>, <<0, 0, 1>> >> \o PosPart(1) \o <<MAXP>>

NPoints == Len(Points)
MinIdx == 1
MaxIdx == NPoints
Finite(i) == i # MinIdx /\ i # MaxIdx

IdxOf(p) == CHOOSE i \in 1..NPoints : Points[i] = p

RECURSIVE Pow2(_)
Pow2(k) == IF k = 0 THEN 1 ELSE 2 * Pow2(k - 1)
\* numeric value, only for points TLC can evaluate
Evaluable(p) == p[2] <= 16 /\ p[1] \in {-1, 0, 1}
Val(p) == IF p[1] = 0 THEN p[3] ELSE p[1] * Pow2(p[2]) + p[3]

OrderSound == \A i, j \in 1..NPoints :
                 (Evaluable(Points[i]) /\ Evaluable(Points[j])) =>
                    ((i < j) <=> (Val(Points[i]) < Val(Points[j])))

Types == {"u8", "u16", "u32", "u64", "i8", "i16", "i32", "i64", "Integer"}
Fixed == Types \ {"Integer"}

Bits(ty) == CASE ty \in {"u8", "i8"} -> 8 [] ty \in {"u16", "i16"} -> 16
              [] ty \in {"u32", "i32"} -> 32 [] ty \in {"u64", "i64"} -> 64
Signed(ty) == ty \in {"i8", "i16", "i32", "i64"}

\* least and greatest value of a fixed-width type, as indices
LoOf(ty) == IF Signed(ty) THEN IdxOf(<<-1, Bits(ty) - 1, 0>>) ELSE IdxOf(<<0, 0, 0>>)
HiOf(ty) == IF Signed(ty) THEN IdxOf(<<1, Bits(ty) - 1, -1>>) ELSE IdxOf(<<1, Bits(ty), -1>>)

\* every value in [lo, hi] is representable in ty
Fits(ty, lo, hi) ==
    CASE ty = "Integer" -> TRUE
      [] ty = "i128"    -> Finite(lo) /\ Finite(hi)      \* every finite boundary point fits i128
      [] ty \in Fixed   -> LoOf(ty) <= lo /\ hi <= HiOf(ty)
      [] OTHER          -> FALSE

\* the property, on the hull plo..phi of all permitted values (see PermLo/PermHi below): the type
\* can hold every permitted value, and a fixed-width type is used only when that hull is finite
\* (non-extensible constraint with both bounds finite)
Allowed(ty, plo, phi) ==
    /\ ty \in Types
    /\ Fits(ty, plo, phi)
    /\ ty \in Fixed => (Finite(plo) /\ Finite(phi))

\* the narrowest allowed type, unsigned preferred -- the selection an ideal generator makes;
\* the property does NOT demand this choice (any Allowed type is accepted)
Order == <<"u8", "i8", "u16", "i16", "u32", "i32", "u64", "i64", "Integer">>
Narrowest(plo, phi) ==
    LET ok == {i \in 1..Len(Order) : Allowed(Order[i], plo, phi)}
    IN Order[CHOOSE i \in ok : \A j \in ok : i <= j]

----------------------------------------------------------------------------
(* The bounded space as a state machine: pick the lower bound, the upper    *)
(* bound, the extension marker and the syntactic position, then Select.     *)

Positions == {"assignment", "component", "element", "reference", "value", "default"}

ValuePositions == {"value", "default"}
Zero == IdxOf(<<0, 0, 0>>)

\* set operations combining the range lo..hi with a second range lo2..hi2:
\*   "none"    (lo..hi)
\*   "|"       (lo..hi | lo2..hi2)       permitted: either range
\*   "^"       (lo..hi ^ lo2..hi2)       permitted: the overlap
\*   "serial"  (lo..hi)(lo2..hi2)        permitted: the overlap
CONSTANT Ops

VARIABLES lo, hi, ext, pos, phase, ty,
          op, lo2, hi2,
          form,   \* "range" (lo..hi); when lo = hi, "single" (v); "open_lo" (lo-1<..hi), "open_hi" (lo..<hi+1), "open_both"
          val     \* value/default positions: index of the value that is assigned; else 0
vars == <<lo, hi, ext, pos, phase, ty, op, lo2, hi2, form, val>>

Min(a, b) == IF a <= b THEN a ELSE b
Max(a, b) == IF a >= b THEN a ELSE b

\* the least and greatest permitted value (indices); for an intersection the overlap
EffLo(o, a, b, c, d) == CASE o = "none" -> a [] o = "|" -> Min(a, c) [] OTHER -> Max(a, c)
EffHi(o, a, b, c, d) == CASE o = "none" -> b [] o = "|" -> Max(b, d) [] OTHER -> Min(b, d)
ELo == EffLo(op, lo, hi, lo2, hi2)
EHi == EffHi(op, lo, hi, lo2, hi2)

\* Hull of ALL values the constraint permits, extension additions included.
\*  - not extensible: the effective range;
\*  - extensible: any value may be added later, the hull is unbounded -- except for a serial
\*    constraint (lo..hi)(lo2..hi2, ...): X.680 clause 50 / G.4.2 restricts the extension
\*    additions of the later constraint to the values of the parent type, so the hull is the
\*    parent range lo..hi.
\* "A fixed-width type is used only when the constraint is non-extensible with both bounds
\* finite" is read on this hull: a fixed-width type is allowed iff the hull is finite and fits.
PermLo(o, a, b, c, d, x) == IF ~x THEN EffLo(o, a, b, c, d) ELSE IF o = "serial" THEN a ELSE MinIdx
PermHi(o, a, b, c, d, x) == IF ~x THEN EffHi(o, a, b, c, d) ELSE IF o = "serial" THEN b ELSE MaxIdx
PLo == PermLo(op, lo, hi, lo2, hi2, ext)
PHi == PermHi(op, lo, hi, lo2, hi2, ext)

Init == /\ lo = 0 /\ hi = 0 /\ ext = FALSE /\ pos = "none" /\ phase = "lo" /\ ty = "none"
        /\ form = "range" /\ val = 0 /\ op = "none" /\ lo2 = 0 /\ hi2 = 0
PickLo(i) == phase = "lo" /\ i # MaxIdx /\ lo' = i /\ phase' = "hi" /\ UNCHANGED <<hi, ext, pos, ty, form, val, op, lo2, hi2>>
PickHi(i) == phase = "hi" /\ i >= lo /\ i # MinIdx /\ hi' = i /\ phase' = "op" /\ UNCHANGED <<lo, ext, pos, ty, form, val, op, lo2, hi2>>
PickOp(o, c, d) ==
    /\ phase = "op" /\ o \in Ops
    /\ IF o = "none" THEN c = 0 /\ d = 0
       ELSE /\ c \in 1..(NPoints - 1) /\ d \in 2..NPoints /\ c <= d
            \* an intersection must leave at least one value
            /\ o \in {"^", "serial"} => EffLo(o, lo, hi, c, d) <= EffHi(o, lo, hi, c, d)
    /\ op' = o /\ lo2' = c /\ hi2' = d /\ phase' = "ext"
    /\ UNCHANGED <<lo, hi, ext, pos, ty, form, val>>
PickExt(b) == phase = "ext" /\ ext' = b /\ phase' = "pos" /\ UNCHANGED <<lo, hi, pos, ty, form, val, op, lo2, hi2>>
\* the values a value assignment / DEFAULT may take in this model: the finite ends of the permitted range
Ends == IF Finite(ELo) \/ Finite(EHi) THEN {i \in {ELo, EHi} : Finite(i)} ELSE {Zero}
OpenLoOK(i) == Finite(i) /\ Points[i][3] \in {0, 1}      \* Points[i - 1] denotes the value below
OpenHiOK(i) == Finite(i) /\ Points[i][3] \in {-1, 0}     \* Points[i + 1] denotes the value above
Forms == {"range", "single", "open_lo", "open_hi", "open_both"}
PickPos(p, f, v) ==
    /\ phase = "pos"
    /\ f = "single" => (lo = hi /\ op = "none")
    \* open range ends (X.680 51.4.2): the same permitted range lo..hi *spelled* with the neighbouring value and "<" --
    \* possible where the neighbour is a boundary point too (the points come in triples s*2^k-1, s*2^k, s*2^k+1)
    /\ f \in {"open_lo", "open_both"} => (op = "none" /\ OpenLoOK(lo))
    /\ f \in {"open_hi", "open_both"} => (op = "none" /\ OpenHiOK(hi))
    /\ IF p \in ValuePositions THEN v \in Ends ELSE v = 0
    /\ pos' = p /\ form' = f /\ val' = v /\ phase' = "select"
    /\ UNCHANGED <<lo, hi, ext, ty, op, lo2, hi2>>
Select == phase = "select" /\ ty' = Narrowest(PLo, PHi) /\ phase' = "done"
          /\ UNCHANGED <<lo, hi, ext, pos, form, val, op, lo2, hi2>>

Next == \/ \E i \in 1..NPoints : PickLo(i) \/ PickHi(i)
        \/ \E o \in Ops, c, d \in 0..NPoints : PickOp(o, c, d)
        \/ \E b \in BOOLEAN : PickExt(b)
        \/ \E p \in Positions, f \in Forms, v \in 0..NPoints : PickPos(p, f, v)
        \/ Select
Spec == Init /\ [][Next]_vars

Done == phase = "done"
SelectionAllowed == Done => Allowed(ty, PLo, PHi)
\* the selection is fixed-width whenever that is allowed: shows the antecedent is not vacuous
\* an assigned value lies in the range, hence fits the selected type
ValueFits == (Done /\ val # 0) => Fits(ty, val, val)
SelectionTight == Done => ((ty = "Integer") <=> (~Finite(PLo) \/ ~Finite(PHi)
                                                   \/ \A t \in Fixed : ~Fits(t, PLo, PHi)))
\* the hull of everything permitted contains the effective (root) range
HullContainsRoot == Done => (PLo <= ELo /\ EHi <= PHi)
=============================================================================
