------------------------------ MODULE IntWidth ------------------------------
(***************************************************************************)
(* Integer width selection (property C06).                                 *)
(*                                                                         *)
(* TLC's integers are 32 bit, the property talks about 2^64.  Bounds are   *)
(* therefore symbolic boundary points <<s, k, d>> denoting s * 2^k + d     *)
(* (s in {-1, 1}; <<0, 0, d>> denotes d), plus MIN and MAX.  The 53 points *)
(* are laid out in increasing order in the sequence Points; everything is  *)
(* decided on indices into that sequence.  Because every limit of every    *)
(* fixed-width Rust type is itself a boundary point, "fits" is exact on    *)
(* indices.  OrderSound checks the layout numerically for the exponents    *)
(* TLC can evaluate (k <= 16); the construction is uniform in k.           *)
(***************************************************************************)
EXTENDS Integers, Sequences, FiniteSets

Ks == <<7, 8, 15, 16, 31, 32, 63, 64>>

\* the three points around s * 2^k, in increasing order
Around(s, k) == << <<s, k, -1>>, <<s, k, 0>>, <<s, k, 1>> >>

RECURSIVE NegPart(_), PosPart(_)
NegPart(i) == IF i = 0 THEN <<>> ELSE Around(-1, Ks[i]) \o NegPart(i - 1)
PosPart(i) == IF i > Len(Ks) THEN <<>> ELSE Around(1, Ks[i]) \o PosPart(i + 1)

MINP == <<-2, 0, 0>>
MAXP == <<2, 0, 0>>

Points == <<MINP>> \o NegPart(Len(Ks)) \o << <<0, 0, -1>>, <<0, 0, 0>>, <<0, 0, 1>> >> \o PosPart(1) \o <<MAXP>>

NPoints == Len(Points)
MinIdx == 1
MaxIdx == NPoints
Finite(i) == i # MinIdx /\ i # MaxIdx

IdxOf(p) == CHOOSE i \in 1..NPoints : Points[i] = p

RECURSIVE Pow2(_)
Pow2(k) == IF k = 0 THEN 1 ELSE 2 * Pow2(k - 1)
\* numeric value, only for points TLC can evaluate
Evaluable(p) == p[2] <= 16 /\ p[1] \in {-1, 0, 1}
Val(p) == IF p[1] = 0 THEN p[3] ELSE p[1] * Pow2(p[2]) + p[3]

OrderSound == \A i, j \in 1..NPoints :
                 (Evaluable(Points[i]) /\ Evaluable(Points[j])) =>
                    ((i < j) <=> (Val(Points[i]) < Val(Points[j])))

Types == {"u8", "u16", "u32", "u64", "i8", "i16", "i32", "i64", "Integer"}
Fixed == Types \ {"Integer"}

Bits(ty) == CASE ty \in {"u8", "i8"} -> 8 [] ty \in {"u16", "i16"} -> 16
              [] ty \in {"u32", "i32"} -> 32 [] ty \in {"u64", "i64"} -> 64
Signed(ty) == ty \in {"i8", "i16", "i32", "i64"}

\* least and greatest value of a fixed-width type, as indices
LoOf(ty) == IF Signed(ty) THEN IdxOf(<<-1, Bits(ty) - 1, 0>>) ELSE IdxOf(<<0, 0, 0>>)
HiOf(ty) == IF Signed(ty) THEN IdxOf(<<1, Bits(ty) - 1, -1>>) ELSE IdxOf(<<1, Bits(ty), -1>>)

\* every value in [lo, hi] is representable in ty
Fits(ty, lo, hi) ==
    CASE ty = "Integer" -> TRUE
      [] ty = "i128"    -> Finite(lo) /\ Finite(hi)      \* every finite boundary point fits i128
      [] ty \in Fixed   -> LoOf(ty) <= lo /\ hi <= HiOf(ty)
      [] OTHER          -> FALSE

\* the property: the type can hold every permitted value, and a fixed-width type is used
\* only when the constraint is non-extensible with both bounds finite
Allowed(ty, lo, hi, ext) ==
    /\ ty \in Types
    /\ Fits(ty, lo, hi)
    /\ ty \in Fixed => (~ext /\ Finite(lo) /\ Finite(hi))

\* the narrowest allowed type, unsigned preferred -- the selection an ideal generator makes;
\* the property does NOT demand this choice (any Allowed type is accepted)
Order == <<"u8", "i8", "u16", "i16", "u32", "i32", "u64", "i64", "Integer">>
Narrowest(lo, hi, ext) ==
    LET ok == {i \in 1..Len(Order) : Allowed(Order[i], lo, hi, ext)}
    IN Order[CHOOSE i \in ok : \A j \in ok : i <= j]

----------------------------------------------------------------------------
(* The bounded space as a state machine: pick the lower bound, the upper    *)
(* bound, the extension marker and the syntactic position, then Select.     *)

Positions == {"assignment", "component", "element", "reference", "value", "default"}

ValuePositions == {"value", "default"}
Zero == IdxOf(<<0, 0, 0>>)

VARIABLES lo, hi, ext, pos, phase, ty,
          form,   \* "range" (lo..hi) or, when lo = hi, "single" (v)
          val     \* value/default positions: index of the value that is assigned (lo or hi); else 0
vars == <<lo, hi, ext, pos, phase, ty, form, val>>

Init == lo = 0 /\ hi = 0 /\ ext = FALSE /\ pos = "none" /\ phase = "lo" /\ ty = "none" /\ form = "range" /\ val = 0
PickLo(i) == phase = "lo" /\ i # MaxIdx /\ lo' = i /\ phase' = "hi" /\ UNCHANGED <<hi, ext, pos, ty, form, val>>
PickHi(i) == phase = "hi" /\ i >= lo /\ i # MinIdx /\ hi' = i /\ phase' = "ext" /\ UNCHANGED <<lo, ext, pos, ty, form, val>>
PickExt(b) == phase = "ext" /\ ext' = b /\ phase' = "pos" /\ UNCHANGED <<lo, hi, pos, ty, form, val>>
\* the values a value assignment / DEFAULT may take in this model: the finite ends of the range
Ends == IF Finite(lo) \/ Finite(hi) THEN {i \in {lo, hi} : Finite(i)} ELSE {Zero}
PickPos(p, f, v) ==
    /\ phase = "pos"
    /\ f = "single" => lo = hi
    /\ IF p \in ValuePositions THEN v \in Ends ELSE v = 0
    /\ pos' = p /\ form' = f /\ val' = v /\ phase' = "select"
    /\ UNCHANGED <<lo, hi, ext, ty>>
Select == phase = "select" /\ ty' = Narrowest(lo, hi, ext) /\ phase' = "done" /\ UNCHANGED <<lo, hi, ext, pos, form, val>>

Next == (\E i \in 1..NPoints : PickLo(i) \/ PickHi(i)) \/ (\E b \in BOOLEAN : PickExt(b))
        \/ (\E p \in Positions, f \in {"range", "single"}, v \in 0..NPoints : PickPos(p, f, v)) \/ Select
Spec == Init /\ [][Next]_vars

Done == phase = "done"
SelectionAllowed == Done => Allowed(ty, lo, hi, ext)
\* the selection is fixed-width whenever that is allowed: shows the antecedent is not vacuous
\* an assigned value lies in the range, hence fits the selected type
ValueFits == (Done /\ val # 0) => Fits(ty, val, val)
SelectionTight == Done => ((ty = "Integer") <=> (ext \/ ~Finite(lo) \/ ~Finite(hi)
                                                   \/ \A t \in Fixed : ~Fits(t, lo, hi)))
=============================================================================
