------------------------------- MODULE Options -------------------------------
(***************************************************************************)
(* The rasn backend's configuration options as rendering rules (C19).      *)
(*                                                                         *)
(* The generated module is abstracted to the aspects an option may touch:  *)
(*   lazy    the import of the lazy-initialisation helper                  *)
(*   super   the  use super::<module>::{...}  lines (one per IMPORTS FROM) *)
(*   other   every further use line                                        *)
(*   derives / attrs   per generated type: its derive set, other attributes *)
(*   form    per value item: const, LazyLock static or lazy_static! macro  *)
(*   from    per CHOICE: the  impl From<payload> for <choice>  items       *)
(*   extras  any other additional item                                     *)
(* and `body' stands for everything else (definitions, tags, constraints,  *)
(* values, order).  Render(c, base) is the output under configuration c    *)
(* given the output `base' of the default configuration.                   *)
(***************************************************************************)
EXTENDS Integers, Sequences, FiniteSets

\* 0, 1, 3: that many fixed custom imports; 9: custom imports chosen against the module set -- one per symbol that the set's
\* own IMPORTS bring in, a path whose last segment *ends in* that symbol's Rust name (a user type PinnedCertificate next to an
\* imported Certificate)
ImportChoices == {0, 1, 3, 9}
AnnChoices == {"default", "extra_derives", "extra_attr", "twice", "with_copy", "path_derive"}
Cfg == [opaque : BOOLEAN, wild : BOOLEAN, from : BOOLEAN, nostd : BOOLEAN, imports : ImportChoices, ann : AnnChoices]
Default == [opaque |-> TRUE, wild |-> FALSE, from |-> FALSE, nostd |-> FALSE, imports |-> 0, ann |-> "default"]

\* what the harness passes as Config::custom_imports / Config::type_annotations
\* (two of them glob imports, two of them ending in the same name: none may displace another)
AllCustomImports == <<"verif_a::Alpha", "verif_b::*", "verif_c::inner::*">>
CustomImports(n) == IF n = 9 THEN <<>> ELSE SubSeq(AllCustomImports, 1, n)
Colliding(syms) == [i \in DOMAIN syms |-> "verif_s::Pinned" \o syms[i]]
CustomImportsFor(n, syms) == IF n = 9 THEN Colliding(syms) ELSE CustomImports(n)
DefaultLine == "#[derive(AsnType, Debug, Clone, Decode, Encode, PartialEq, Eq, Hash)]"
Annotations(a) ==
    CASE a = "default" -> <<DefaultLine>>
      [] a = "extra_derives" -> <<DefaultLine, "#[derive(PartialOrd, Ord)]">>
      [] a = "extra_attr" -> <<DefaultLine, "#[allow(dead_code)]", "#[cfg_attr(feature = \"verif\", repr(C))]">>
      [] a = "twice" -> <<DefaultLine, "#[derive(Eq, Hash, Eq)]", DefaultLine>>
      \* Copy is a derive the generator adds on its own to some types: listed by the user too, and not last
      [] a = "with_copy" -> <<"#[derive(Clone, Copy)]", DefaultLine>>
      \* a derive given by path and one with an underscore, next to a required one in the same attribute
      [] a = "path_derive" -> <<DefaultLine, "#[derive(Debug, verif_s::Pinned, Verif_repr)]">>

Required == {"AsnType", "Debug", "Clone", "Decode", "Encode", "PartialEq"}
ExtraDerives(a) == IF a = "extra_derives" THEN {"PartialOrd", "Ord"} ELSE IF a = "with_copy" THEN {"Copy"}
                   ELSE IF a = "path_derive" THEN {"verif_s::Pinned", "Verif_repr"} ELSE {}
ExtraAttrs(a) == IF a = "extra_attr" THEN <<"#[allow(dead_code)]", "#[cfg_attr(feature=\"verif\",repr(C))]">> ELSE <<>>

--------------------------------------------------------------------------------
(* the rendering rules, one per aspect; each reads exactly one option *)
Lazy(c) == IF c.nostd THEN "lazy_static::lazy_static" ELSE "std::sync::LazyLock"
SuperUse(c, u) == [module |-> u.module, list |-> IF c.wild THEN <<"*">> ELSE u.list]
Super(c, base) == [i \in DOMAIN base |-> SuperUse(c, base[i])]
Other(c, base, syms) == base \o CustomImportsFor(c.imports, syms)
Derives(c, base) == base \cup ExtraDerives(c.ann)          \* as a set; no derive may be listed twice
Attrs(c, base) == ExtraAttrs(c.ann) \o base
Form(c, base) == IF base = "const" THEN "const" ELSE IF c.nostd THEN "lazy_static" ELSE "LazyLock"

Count(s, x) == Cardinality({i \in DOMAIN s : s[i] = x})
UniqueIdx(p) == {i \in DOMAIN p : Count(p, p[i]) = 1}
\* the From impls of a CHOICE with payload types p and variant names v
From(c, p, v) == IF c.from THEN {[payload |-> p[i], variant |-> v[i]] : i \in UniqueIdx(p)} ELSE {}

\* which options may add items that are neither types, values nor From impls
ExtrasAllowed(c) == ~c.opaque

--------------------------------------------------------------------------------
(* design-level facts TLC checks over every configuration and payload pattern *)
\* the From impls are coherent (no two for one payload type) and complete (an alternative
\* without impl shares its payload type with another one)
FromCoherent(c, p, v) ==
    LET f == From(c, p, v) IN
    /\ \A a, b \in f : a.payload = b.payload => a = b
    /\ c.from => \A i \in DOMAIN p : (\E a \in f : a.variant = v[i]) \/ (\E j \in DOMAIN p : j # i /\ p[j] = p[i])
    /\ ~c.from => f = {}
\* the required derives survive every annotation choice
RequiredStay(c, base) == Required \subseteq base => Required \subseteq Derives(c, base)
\* the default configuration renders the base itself
DefaultIsIdentity(sup, oth, der, att, frm) ==
    /\ Super(Default, sup) = sup /\ Other(Default, oth, <<"A">>) = oth /\ Derives(Default, der) = der
    /\ Attrs(Default, att) = att /\ Form(Default, frm) = frm
=============================================================================
