----------------------------- MODULE PerVisible -----------------------------
(***************************************************************************)
(* PER-visible effective constraints (property C04; X.680 clause 50 for    *)
(* the meaning of subtype expressions, X.691 clause 10.3 for what is       *)
(* PER-visible).                                                           *)
(*                                                                         *)
(* A constraint series is                                                  *)
(*     ( e1 op e2 op e3 [, ...] ) ( s2 [, ...] ) ( s3 [, ...] )            *)
(* where each operand is a single value or a range lo..hi, lo/hi drawn     *)
(* from the endpoint alphabet Ends (NEGINF/POSINF stand for MIN/MAX) and a *)
(* finite end may be open (lo<.. / ..<hi).  Operators: "u" union, "i"      *)
(* intersection, "x" EXCEPT with the ASN.1 precedence x > i > u, all       *)
(* left-associative (X.680 50.1: Unions / Intersections / Exclusions).     *)
(*                                                                         *)
(*   Denote  the set of integers the series permits (the root, extension   *)
(*           additions aside), inside a finite window standing for Z       *)
(*   Eff     the PER-visible effective constraint as an interval:          *)
(*           EXCEPT parts ignored, intersections intersect, unions take    *)
(*           the hull, serial constraints intersect                        *)
(*                                                                         *)
(* TLC checks on the whole bounded algebra that Eff is SOUND (contains     *)
(* every permitted value) and, for EXCEPT-free expressions, TIGHT (it is   *)
(* exactly the hull of the permitted values).                              *)
(***************************************************************************)
EXTENDS Integers, Sequences, FiniteSets

NEGINF == -1000
POSINF == 1000

CONSTANTS Ends,          \* endpoint alphabet, contains NEGINF and POSINF
          MaxOperands,   \* operands in the first constraint
          MaxSerial,     \* further serial constraints (single operands)
          AllowOpen,     \* BOOLEAN: open range ends may be drawn
          Targets        \* set of <<type, position>> pairs the expression is placed in

Window == -6..13          \* finite universe standing for Z; must contain every finite end +-1

Max(a, b) == IF a > b THEN a ELSE b
Min(a, b) == IF a < b THEN a ELSE b

\* an operand: lo..hi with open flags; a single value v is [v, v]
IsOperand(o) == /\ o.lo \in Ends /\ o.hi \in Ends
                /\ o.lo # POSINF /\ o.hi # NEGINF
                /\ o.lo <= o.hi
                /\ o.lox => (o.lo # NEGINF /\ o.lo < o.hi)
                /\ o.hix => (o.hi # POSINF /\ o.lo < o.hi)
Operands == {o \in [lo : Ends, hi : Ends, lox : BOOLEAN, hix : BOOLEAN] :
               IsOperand(o) /\ (AllowOpen \/ (~o.lox /\ ~o.hix))}

\* effective closed bounds of an operand over the integers
OLo(o) == IF o.lox THEN o.lo + 1 ELSE o.lo
OHi(o) == IF o.hix THEN o.hi - 1 ELSE o.hi

\* nonneg: the constrained quantity is a size (MIN means 0, nothing below 0)
Univ(nonneg) == IF nonneg THEN {v \in Window : v >= 0} ELSE Window
DenOp(o, nonneg) == {v \in Univ(nonneg) : (o.lo = NEGINF \/ v >= OLo(o)) /\ (o.hi = POSINF \/ v <= OHi(o))}

(* ---- denotation of a flat expression os[1] ps[1] os[2] ps[2] ... -------- *)
\* EXCEPT binds tightest: collapse "a x b" into one element
RECURSIVE ExElems(_, _, _, _)
ExElems(os, ps, i, nn) ==
  IF i > Len(os) THEN <<>>
  ELSE IF i <= Len(ps) /\ ps[i] = "x"
       THEN <<DenOp(os[i], nn) \ DenOp(os[i+1], nn)>> \o ExElems(os, ps, i + 2, nn)
       ELSE <<DenOp(os[i], nn)>> \o ExElems(os, ps, i + 1, nn)
RECURSIVE ExOps(_, _)
ExOps(ps, i) == IF i > Len(ps) THEN <<>>
                ELSE IF ps[i] = "x" THEN ExOps(ps, i + 1) ELSE <<ps[i]>> \o ExOps(ps, i + 1)
\* "a x b x c" is not derivable from the grammar (Exclusions ::= EXCEPT Elements, once)
WFops(ps) == \A i \in 1..(Len(ps) - 1) : ~(ps[i] = "x" /\ ps[i+1] = "x")

\* then intersections group, then unions
RECURSIVE InterGroups(_, _, _, _)
InterGroups(sets, qs, i, acc) ==
  IF i > Len(sets) THEN <<acc>>
  ELSE IF i = 1 THEN InterGroups(sets, qs, 2, sets[1])
  ELSE IF qs[i-1] = "i" THEN InterGroups(sets, qs, i + 1, acc \cap sets[i])
  ELSE <<acc>> \o InterGroups(sets, qs, i + 1, sets[i])
UnionAll(ss) == UNION {ss[i] : i \in 1..Len(ss)}
DenoteExpr(os, ps, nn) == UnionAll(InterGroups(ExElems(os, ps, 1, nn), ExOps(ps, 1), 1, {}))

RECURSIVE DenoteSerial(_, _, _)
DenoteSerial(ser, i, nn) == IF i > Len(ser) THEN Univ(nn) ELSE DenOp(ser[i].o, nn) \cap DenoteSerial(ser, i + 1, nn)
Denote(os, ps, ser, nn) == DenoteExpr(os, ps, nn) \cap DenoteSerial(ser, 1, nn)

(* ---- effective constraint: intervals [lo, hi] over Z + {NEGINF, POSINF} -- *)
EMPTY == [lo |-> POSINF, hi |-> NEGINF]
IsEmpty(r) == r.lo > r.hi
Inter(a, b) == IF IsEmpty(a) \/ IsEmpty(b) THEN EMPTY
               ELSE LET r == [lo |-> Max(a.lo, b.lo), hi |-> Min(a.hi, b.hi)] IN IF r.lo > r.hi THEN EMPTY ELSE r
Hull(a, b) == IF IsEmpty(a) THEN b ELSE IF IsEmpty(b) THEN a
              ELSE [lo |-> Min(a.lo, b.lo), hi |-> Max(a.hi, b.hi)]
\* interval of one operand; for sizes MIN is 0
OpInt(o, nn) == LET lo == IF o.lo = NEGINF THEN (IF nn THEN 0 ELSE NEGINF) ELSE (IF nn THEN Max(OLo(o), 0) ELSE OLo(o))
                    hi == IF o.hi = POSINF THEN POSINF ELSE OHi(o)
                IN IF lo > hi THEN EMPTY ELSE [lo |-> lo, hi |-> hi]
RECURSIVE EffElems(_, _, _, _)
EffElems(os, ps, i, nn) ==
  IF i > Len(os) THEN <<>>
  ELSE IF i <= Len(ps) /\ ps[i] = "x" THEN <<OpInt(os[i], nn)>> \o EffElems(os, ps, i + 2, nn)   \* EXCEPT ignored
  ELSE <<OpInt(os[i], nn)>> \o EffElems(os, ps, i + 1, nn)
RECURSIVE EffGroups(_, _, _, _)
EffGroups(rs, qs, i, acc) ==
  IF i > Len(rs) THEN <<acc>>
  ELSE IF i = 1 THEN EffGroups(rs, qs, 2, rs[1])
  ELSE IF qs[i-1] = "i" THEN EffGroups(rs, qs, i + 1, Inter(acc, rs[i]))
  ELSE <<acc>> \o EffGroups(rs, qs, i + 1, rs[i])
RECURSIVE HullAll(_, _)
HullAll(rs, i) == IF i > Len(rs) THEN EMPTY ELSE Hull(rs[i], HullAll(rs, i + 1))
EffExpr(os, ps, nn) == HullAll(EffGroups(EffElems(os, ps, 1, nn), ExOps(ps, 1), 1, EMPTY), 1)
RECURSIVE EffSerial(_, _, _, _)
EffSerial(acc, ser, i, nn) == IF i > Len(ser) THEN acc ELSE EffSerial(Inter(acc, OpInt(ser[i].o, nn)), ser, i + 1, nn)
Eff(os, ps, ser, nn) == EffSerial(EffExpr(os, ps, nn), ser, 1, nn)

InWin(r, nn) == {v \in Univ(nn) : ~IsEmpty(r) /\ (r.lo = NEGINF \/ v >= r.lo) /\ (r.hi = POSINF \/ v <= r.hi)}
HasExcept(ps) == \E i \in 1..Len(ps) : ps[i] = "x"

(* ---- the bounded space as a state machine ------------------------------- *)
VARIABLES os, ps, ext, ser, target, phase,
          extout   \* for SIZE constraints: the marker is written outside, (SIZE(a..b), ...), not inside
vars == <<os, ps, ext, ser, target, phase, extout>>

Ops == {"u", "i", "x"}

Init == /\ os = <<>> /\ ps = <<>> /\ ext = FALSE /\ ser = <<>> /\ target = <<"?", "?">> /\ phase = "expr"
        /\ extout = FALSE

FirstOperand(o) == /\ phase = "expr" /\ os = <<>>
                   /\ os' = <<o>> /\ UNCHANGED <<ps, ext, ser, target, phase, extout>>
AddOperand(p, o) == /\ phase = "expr" /\ os # <<>> /\ Len(os) < MaxOperands
                    /\ (p = "x" /\ Len(ps) > 0) => ps[Len(ps)] # "x"
                    /\ os' = Append(os, o) /\ ps' = Append(ps, p)
                    /\ UNCHANGED <<ext, ser, target, phase, extout>>
CloseExpr(x, xo) == /\ phase = "expr" /\ os # <<>>
                    /\ xo => x
                    /\ ext' = x /\ extout' = xo /\ phase' = "serial"
                    /\ UNCHANGED <<os, ps, ser, target>>
\* serial constraints are only drawn for single-operand first constraints (bounds the space)
AddSerial(o, x) == /\ phase = "serial" /\ Len(ser) < MaxSerial /\ Len(os) = 1
                   /\ ser' = Append(ser, [o |-> o, ext |-> x])
                   /\ UNCHANGED <<os, ps, ext, target, phase, extout>>
\* sizes cannot be negative: size targets only take expressions without negative ends;
\* value references / named numbers stand for finite ends, so at least one end must be finite
AllOperands == [i \in 1..(Len(os) + Len(ser)) |-> IF i <= Len(os) THEN os[i] ELSE ser[i - Len(os)].o]
NoNegativeEnd == \A i \in 1..Len(AllOperands) : (AllOperands[i].lo = NEGINF \/ AllOperands[i].lo >= 0) /\ AllOperands[i].hi >= 0
Place(t) == /\ phase = "serial"
            /\ t[1] # "INTEGER" => NoNegativeEnd
            /\ extout => t[1] # "INTEGER"
            /\ target' = t /\ phase' = "done"
            /\ UNCHANGED <<os, ps, ext, ser, extout>>

Next == \/ \E o \in Operands : FirstOperand(o)
        \/ \E p \in Ops, o \in Operands : AddOperand(p, o)
        \/ \E x, xo \in BOOLEAN : CloseExpr(x, xo)
        \/ \E o \in Operands, x \in BOOLEAN : AddSerial(o, x)
        \/ \E t \in Targets : Place(t)
Spec == Init /\ [][Next]_vars

Done == phase = "done"
NonNeg(t) == t[1] # "INTEGER"

\* soundness: the effective constraint never excludes a permitted value
Sound == Done => \A nn \in BOOLEAN : Denote(os, ps, ser, nn) \subseteq InWin(Eff(os, ps, ser, nn), nn)
\* tightness for EXCEPT-free expressions: Eff is exactly the hull of what is permitted
Lo(S) == CHOOSE v \in S : \A w \in S : v <= w
Hi(S) == CHOOSE v \in S : \A w \in S : v >= w
Tight == (Done /\ ~HasExcept(ps)) => \A nn \in BOOLEAN :
            LET D == Denote(os, ps, ser, nn)
                E == InWin(Eff(os, ps, ser, nn), nn)
            IN IF D = {} THEN TRUE     \* an unsatisfiable constraint is not legal ASN.1
               ELSE E # {} /\ Lo(D) = Lo(E) /\ Hi(D) = Hi(E)
TypeOK == Len(os) <= MaxOperands /\ Len(ser) <= MaxSerial /\ WFops(ps)

(* ---- extensibility -------------------------------------------------------- *)
\* single constraint: flagged extensible exactly when it carries a marker.  Serial
\* constraints: the property text does not say whether an earlier marker survives a later
\* marker-free constraint, so only a two-sided bound is demanded.
ExtAllowed(flag, x1, sr) ==
    IF sr = <<>> THEN flag = x1
    ELSE /\ flag => (x1 \/ \E i \in 1..Len(sr) : sr[i].ext)
         /\ sr[Len(sr)].ext => flag
=============================================================================
