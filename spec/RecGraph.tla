------------------------------ MODULE RecGraph ------------------------------
(***************************************************************************)
(* Reference topologies (C02: "recursive components are boxed"; C01).      *)
(*                                                                         *)
(* NDefs constructed definitions (SEQUENCE, SET or CHOICE) refer to each   *)
(* other; edge[i][j] says how definition i mentions definition j:          *)
(*     "none" | "req" component | "opt" OPTIONAL component | "list"        *)
(*     component SEQUENCE OF j                                             *)
(* The machine fixes the kinds, then one edge per step in row-major order. *)
(* A topology is legal ASN.1 iff no cycle consists of mandatory edges only *)
(* (a "req" component of a SEQUENCE/SET; an alternative of a CHOICE can    *)
(* always be avoided because every definition also has a NULL component).  *)
(* Legal topologies are emitted as Notation node tables.                   *)
(*                                                                         *)
(* Expected bindings: every by-value containment cycle of the generated    *)
(* items passes through a Box (or a SequenceOf); the model computes which  *)
(* edges lie on a cycle at all (OnCycle), which is where a Box may appear. *)
(***************************************************************************)
EXTENDS Integers, Sequences, FiniteSets

CONSTANTS NDefs, Kinds, EdgeTypes

Ds == 1..NDefs
Pairs == [i \in 1..(NDefs * NDefs) |-> <<((i - 1) \div NDefs) + 1, ((i - 1) % NDefs) + 1>>]

VARIABLES kinds, edge, step, phase
vars == <<kinds, edge, step, phase>>

Init == /\ kinds = <<>> /\ edge = [i \in Ds |-> [j \in Ds |-> "none"]] /\ step = 1 /\ phase = "kinds"

PickKind(k) == /\ phase = "kinds" /\ Len(kinds) < NDefs
               /\ kinds' = Append(kinds, k)
               /\ phase' = IF Len(kinds) + 1 = NDefs THEN "edges" ELSE "kinds"
               /\ UNCHANGED <<edge, step>>
PickEdge(t) == /\ phase = "edges" /\ step <= NDefs * NDefs
               /\ LET p == Pairs[step] IN edge' = [edge EXCEPT ![p[1]][p[2]] = t]
               /\ step' = step + 1
               /\ UNCHANGED <<kinds, phase>>

\* transitive closure of a relation on Ds
RECURSIVE TC(_, _)
TC(R, n) == IF n = 0 THEN R
            ELSE LET R2 == R \cup {<<a, c>> \in Ds \X Ds : \E b \in Ds : <<a, b>> \in R /\ <<b, c>> \in R}
                 IN IF R2 = R THEN R ELSE TC(R2, n - 1)
Mandatory == {<<i, j>> \in Ds \X Ds : edge[i][j] = "req" /\ kinds[i] # "CHOICE"}
AnyEdge == {<<i, j>> \in Ds \X Ds : edge[i][j] # "none"}
Legal == \A i \in Ds : <<i, i>> \notin TC(Mandatory, NDefs)

Finish == /\ phase = "edges" /\ step > NDefs * NDefs
          /\ phase' = IF Legal THEN "done" ELSE "illegal"
          /\ UNCHANGED <<kinds, edge, step>>

Next == (\E k \in Kinds : PickKind(k)) \/ (\E t \in EdgeTypes : PickEdge(t)) \/ Finish
Spec == Init /\ [][Next]_vars

Done == phase = "done"

\* an edge i -> j lies on a reference cycle iff j reaches i
Reach == TC(AnyEdge, NDefs)
OnCycle(i, j) == edge[i][j] # "none" /\ (j = i \/ <<j, i>> \in Reach)
\* by-value edges: a list is an indirection of its own
ByValue == {<<i, j>> \in Ds \X Ds : edge[i][j] \in {"req", "opt"}}
\* an ideal generator boxes exactly the by-value edges that lie on a cycle: then nothing is infinite
IdealBoxed == {<<i, j>> \in ByValue : OnCycle(i, j)}
IdealFinite == Done => \A i \in Ds : <<i, i>> \notin TC(ByValue \ IdealBoxed, NDefs)
\* a legal topology has at least one finite value per definition: no mandatory self-containment
LegalHasValue == Done => \A i \in Ds : <<i, i>> \notin TC(Mandatory, NDefs)
=============================================================================
