------------------------------ MODULE Notation ------------------------------
(***************************************************************************)
(* The supported-notation grammar (DESIGN.md section 3) as a generator.    *)
(*                                                                         *)
(* A module set is a flat NODE TABLE: a sequence of records, one per       *)
(* module-level definition, component, alternative or element type; `p`    *)
(* is the index of the parent node (0 for a definition).  The table grows  *)
(* by one Append per action, so TLC's simulator produces random module     *)
(* sets and its breadth-first search all small ones; the harness rebuilds  *)
(* the tree and prints ASN.1 text.  Names are derived from node indices    *)
(* by the printer (Ty<i>, c<i>, v<i>), so distinct nodes have distinct     *)
(* names.                                                                  *)
(*                                                                         *)
(* Node fields                                                             *)
(*   k     kind: a builtin type, "SEQUENCE" "SET" "CHOICE" "SEQOF" "SETOF" *)
(*         "REF", or "VALUE" for a value assignment                        *)
(*   p     parent node (0: top-level definition)                           *)
(*   m     module (index into mods)                                        *)
(*   role  "def" | "comp" (SEQUENCE/SET component) | "alt" | "elem"        *)
(*   opt   "req" | "opt" | "def"   (components only)                       *)
(*   kw    tag keyword "none" | "I" | "E"  (only if the parent tags all)   *)
(*   add   the component / alternative is an extension addition            *)
(*   ref   "REF" and "VALUE": index of the definition referred to          *)
(*         (VALUE: the governing type definition, 0 for a builtin)         *)
(*   qual  REF across modules written M.T instead of through IMPORTS       *)
(*   c     constraint / shape code, meaning depends on k (see CodesOf)     *)
(*   tagall  containers: every component carries a context tag [position]  *)
(*   marker  containers: has an extension marker (after the last non-add   *)
(*           component)                                                    *)
(*   vk    "VALUE": the kind of the value ("" otherwise)                   *)
(*   fault definitions only (C10): the definition is replaced by one that  *)
(*         is parseable but unsupported -- "REAL" (T ::= REAL), "VIDEOTEX" *)
(*         (T ::= VideotexString), "INVERTED" (T ::= INTEGER (5..1)),      *)
(*         "MACRO" (a MACRO definition) -- or, "DUPNAME", is printed under *)
(*         the name of definition ft of another module                     *)
(***************************************************************************)
EXTENDS Integers, Sequences, FiniteSets

CONSTANTS MaxModules, MaxNodes, MaxDepth, MaxComps

Simple == {"NULL", "BOOLEAN", "INTEGER", "ENUMERATED", "BITSTRING", "OCTETSTRING", "OID", "RELOID",
           "NumericString", "PrintableString", "VisibleString", "IA5String", "BMPString", "UniversalString",
           "UTF8String", "TeletexString", "GeneralString", "GraphicString", "UTCTime", "GeneralizedTime", "ANY"}
Containers == {"SEQUENCE", "SET", "CHOICE"}
Lists == {"SEQOF", "SETOF"}
TypeKinds == Simple \cup Containers \cup Lists \cup {"REF"}

\* number of constraint / shape codes per kind (0 = unconstrained); the printer gives them text
CodesOf(k) == CASE k = "INTEGER" -> 0..5 [] k = "ENUMERATED" -> 0..2 [] k = "BITSTRING" -> 0..2
                [] k = "OCTETSTRING" -> 0..2 [] k \in Lists -> 0..1
                [] k \in {"NumericString", "PrintableString", "VisibleString", "IA5String", "BMPString", "UniversalString", "UTF8String"} -> 0..3
                [] OTHER -> {0}
\* kinds for which the printer can write a DEFAULT / value
Valued == {"NULL", "BOOLEAN", "INTEGER", "ENUMERATED", "BITSTRING", "OCTETSTRING", "OID", "IA5String", "UTF8String", "PrintableString", "NumericString", "VisibleString"}

TagDefaults == {"EXPLICIT", "IMPLICIT", "AUTOMATIC", "NONE"}

VARIABLES mods,    \* sequence of [tagdef, implied]
          nodes,   \* the node table
          phase    \* "mods" | "grow" | "done"
vars == <<mods, nodes, phase>>

N == Len(nodes)
Node(i) == nodes[i]
Children(i) == {j \in 1..N : nodes[j].p = i}
NumChildren(i) == Cardinality(Children(i))
RECURSIVE Depth(_)
Depth(i) == IF nodes[i].p = 0 THEN 0 ELSE 1 + Depth(nodes[i].p)
RECURSIVE DefOf(_)
DefOf(i) == IF nodes[i].p = 0 THEN i ELSE DefOf(nodes[i].p)
Defs == {i \in 1..N : nodes[i].p = 0}
TypeDefs == {i \in Defs : nodes[i].k # "VALUE"}

New(k, p, m, role, opt, kw, add, ref, qual, c, tagall, marker, vk) ==
    [k |-> k, p |-> p, m |-> m, role |-> role, opt |-> opt, kw |-> kw, add |-> add, ref |-> ref,
     qual |-> qual, c |-> c, tagall |-> tagall, marker |-> marker, vk |-> vk, fault |-> "none", ft |-> 0]

Init == mods = <<>> /\ nodes = <<>> /\ phase = "mods"

AddModule(td, imp) ==
    /\ phase = "mods" /\ Len(mods) < MaxModules
    /\ mods' = Append(mods, [tagdef |-> td, implied |-> imp])
    /\ UNCHANGED <<nodes, phase>>
StartGrowing == phase = "mods" /\ Len(mods) >= 1 /\ phase' = "grow" /\ UNCHANGED <<mods, nodes>>

\* a container in a module that is not AUTOMATIC TAGS must tag all its components (so that the
\* generated ASN.1 has distinct tags); in an AUTOMATIC TAGS module it may do either
TagAllOK(m, ta) == mods[m].tagdef # "AUTOMATIC" => ta

\* a reference that may close a cycle must sit on an edge a finite value can avoid
OptionalLike(p, role, opt) == role = "elem" \/ role = "alt" \/ opt = "opt"
RefOK(owner, target, p, role, opt) ==
    /\ target \in TypeDefs
    /\ (target >= owner) => OptionalLike(p, role, opt)

AddDef(m, k, c, ta, r) ==
    /\ phase = "grow" /\ N < MaxNodes /\ m \in 1..Len(mods)
    /\ k \in TypeKinds /\ c \in CodesOf(k)
    /\ k \in Containers => TagAllOK(m, ta)
    /\ k \notin Containers => ~ta
    /\ IF k = "REF" THEN r \in TypeDefs /\ r <= N ELSE r = 0      \* a definition that is a plain reference points backwards
    /\ nodes' = Append(nodes, New(k, 0, m, "def", "req", "none", FALSE, r, FALSE, c, ta, FALSE, ""))
    /\ UNCHANGED <<mods, phase>>

AddValue(m, k, r, c) ==
    /\ phase = "grow" /\ N < MaxNodes /\ m \in 1..Len(mods)
    /\ \/ r = 0 /\ k \in Valued /\ c \in CodesOf(k)                  \* v INTEGER ::= ...
       \/ r \in TypeDefs /\ nodes[r].k = k /\ k \in Valued /\ c = nodes[r].c   \* v T ::= ...  (T a simple valued type)
    /\ nodes' = Append(nodes, New("VALUE", 0, m, "def", "req", "none", FALSE, r, FALSE, c, FALSE, FALSE, k))
    /\ UNCHANGED <<mods, phase>>

\* a component of SEQUENCE/SET or an alternative of CHOICE
AddChild(p, k, c, opt, kw, ta, r, q) ==
    /\ phase = "grow" /\ N < MaxNodes /\ p \in 1..N
    /\ nodes[p].k \in Containers /\ NumChildren(p) < MaxComps
    /\ k \in TypeKinds /\ c \in CodesOf(k)
    /\ k \in Containers \cup Lists => Depth(p) + 1 < MaxDepth
    /\ k \in Containers => TagAllOK(nodes[p].m, ta)
    /\ k \notin Containers => ~ta
    /\ LET role == IF nodes[p].k = "CHOICE" THEN "alt" ELSE "comp" IN
       /\ role = "alt" => opt = "req"
       /\ opt = "def" => k \in Valued
       /\ kw # "none" => nodes[p].tagall
       \* X.680 31.2.9: no IMPLICIT on a CHOICE or open type (a reference may be to a CHOICE)
       /\ kw = "I" => k \notin {"CHOICE", "ANY", "REF"}
       /\ IF k = "REF" THEN RefOK(DefOf(p), r, p, role, opt) ELSE r = 0
       /\ q => (k = "REF" /\ nodes[r].m # nodes[p].m)
       /\ nodes' = Append(nodes, New(k, p, nodes[p].m, role, opt, kw, nodes[p].marker, r, q, c, ta, FALSE, ""))
    /\ UNCHANGED <<mods, phase>>

\* from now on the children of p are extension additions
AddMarker(p) ==
    /\ phase = "grow" /\ p \in 1..N /\ nodes[p].k \in Containers /\ ~nodes[p].marker
    /\ nodes' = [nodes EXCEPT ![p].marker = TRUE]
    /\ UNCHANGED <<mods, phase>>

AddElem(p, k, c, ta, r, q) ==
    /\ phase = "grow" /\ N < MaxNodes /\ p \in 1..N
    /\ nodes[p].k \in Lists /\ NumChildren(p) = 0
    /\ k \in TypeKinds /\ c \in CodesOf(k)
    /\ k \in Containers \cup Lists => Depth(p) + 1 < MaxDepth
    /\ k \in Containers => TagAllOK(nodes[p].m, ta)
    /\ k \notin Containers => ~ta
    /\ IF k = "REF" THEN RefOK(DefOf(p), r, p, "elem", "req") ELSE r = 0
    /\ q => (k = "REF" /\ nodes[r].m # nodes[p].m)
    /\ nodes' = Append(nodes, New(k, p, nodes[p].m, "elem", "req", "none", FALSE, r, q, c, ta, FALSE, ""))
    /\ UNCHANGED <<mods, phase>>

\* C10: replace a definition by a parseable but unsupported one / give it a name that already
\* exists in another module
FaultKinds == {"REAL", "VIDEOTEX", "INVERTED", "MACRO", "DUPNAME"}
AddFault(i, f, t) ==
    /\ phase = "grow" /\ i \in Defs /\ nodes[i].fault = "none" /\ f \in FaultKinds
    /\ f = "MACRO" \/ f = "DUPNAME" \/ nodes[i].k # "VALUE"                      \* the type faults replace type definitions
    /\ IF f = "DUPNAME"
       THEN /\ t \in Defs /\ nodes[t].m # nodes[i].m /\ nodes[t].fault = "none"
            /\ (nodes[t].k = "VALUE") = (nodes[i].k = "VALUE")                   \* a name of the same lexical class
            /\ \A j \in Defs : nodes[j].ft # t
       ELSE t = 0
    /\ nodes' = [nodes EXCEPT ![i].fault = f, ![i].ft = t]
    /\ UNCHANGED <<mods, phase>>

\* complete: every list has its element type, every CHOICE an alternative that is not an addition,
\* every module a definition
Complete ==
    /\ \A i \in 1..N : nodes[i].k \in Lists => NumChildren(i) = 1
    /\ \A i \in 1..N : nodes[i].k = "CHOICE" => \E j \in Children(i) : ~nodes[j].add
    /\ \A m \in 1..Len(mods) : \E i \in Defs : nodes[i].m = m
Finish == phase = "grow" /\ Complete /\ phase' = "done" /\ UNCHANGED <<mods, nodes>>

Opts == {"req", "opt", "def"}
Kws == {"none", "I", "E"}
Next == \/ \E td \in TagDefaults, imp \in BOOLEAN : AddModule(td, imp)
        \/ StartGrowing
        \/ \E m \in 1..MaxModules, k \in TypeKinds, c \in 0..5, ta \in BOOLEAN, r \in 0..MaxNodes : AddDef(m, k, c, ta, r)
        \/ \E m \in 1..MaxModules, k \in Valued, r \in 0..MaxNodes, c \in 0..5 : AddValue(m, k, r, c)
        \/ \E p \in 1..MaxNodes, k \in TypeKinds, c \in 0..5, o \in Opts, kw \in Kws, ta \in BOOLEAN, r \in 0..MaxNodes, q \in BOOLEAN :
              AddChild(p, k, c, o, kw, ta, r, q)
        \/ \E p \in 1..MaxNodes : AddMarker(p)
        \/ \E p \in 1..MaxNodes, k \in TypeKinds, c \in 0..5, ta \in BOOLEAN, r \in 0..MaxNodes, q \in BOOLEAN : AddElem(p, k, c, ta, r, q)
        \/ Finish
Spec == Init /\ [][Next]_vars

Done == phase = "done"

(* ---- well-formedness of what the generator produces ------------------- *)
WF ==
    /\ \A i \in 1..N : nodes[i].p < i                                   \* parents precede children
    /\ \A i \in 1..N : nodes[i].p # 0 => nodes[nodes[i].p].k \in Containers \cup Lists
    /\ \A i \in 1..N : Depth(i) <= MaxDepth
    /\ \A i \in 1..N : nodes[i].k = "REF" => nodes[i].ref \in TypeDefs
    /\ \A i \in 1..N : (nodes[i].kw = "I") => nodes[i].k \notin {"CHOICE", "ANY", "REF"}
    \* additions come after all root components of their container
    /\ \A i, j \in 1..N : (nodes[i].p = nodes[j].p /\ nodes[i].p # 0 /\ i < j /\ nodes[i].add) => nodes[j].add
\* every reference cycle passes through an edge a finite value can avoid
RefEdges == {<<DefOf(i), nodes[i].ref>> : i \in {j \in 1..N : nodes[j].k = "REF" /\ nodes[j].p # 0
                                                     /\ ~OptionalLike(nodes[j].p, nodes[j].role, nodes[j].opt)}}
MandatoryEdgesGoBack == \A e \in RefEdges : e[2] < e[1]
TypeOK == N <= MaxNodes /\ Len(mods) <= MaxModules /\ phase \in {"mods", "grow", "done"}
=============================================================================
