------------------------------ MODULE Trace_C04 ------------------------------
(* Trace specification for C04: each event is one constraint series         *)
(* compiled by the real compiler.  `chain` holds the value/size annotations *)
(* found along the delegate chain of the constrained item (a constrained    *)
(* parent type contributes through the chain); their intersection is the    *)
(* bound the bindings attach.  It is judged in three grades:                *)
(*   (i)   it never excludes a value the ASN.1 constraint permits           *)
(*   (ii)  it is flagged extensible exactly when there is a marker          *)
(*   (iii) it equals the PER-visible effective constraint Eff               *)
EXTENDS TraceLib, FiniteSets

CONSTANTS Ends, MaxOperands, MaxSerial, AllowOpen, Targets, KnownDevs
VARIABLES l, os, ps, ext, ser, target, phase, extout

P == INSTANCE PerVisible

NEGINF == P!NEGINF
POSINF == P!POSINF

Full(nn) == [lo |-> IF nn THEN 0 ELSE NEGINF, hi |-> POSINF]
RECURSIVE ChainInt(_, _, _)
ChainInt(ch, i, nn) == IF i > Len(ch) THEN Full(nn)
                       ELSE P!Inter([lo |-> ch[i].lo, hi |-> ch[i].hi], ChainInt(ch, i + 1, nn))
ChainExt(ch) == \E i \in 1..Len(ch) : ch[i].ext

(* ---- what the code is known to do instead -------------------------------- *)
\* D_C04_fold: how the code folds a flat expression, modelled structurally:
\*   - the lexer nests it to the right whatever the operators:  a op1 (b op2 c)
\*   - EXCEPT returns its left operand and drops everything to its right
\*   - single value ^ range returns the single value without checking that the range contains it
\*   - range ^ range takes max of the lower and min of the upper bounds (possibly inverted)
\* A folded value is [lo, hi, single]; `single` is structural (a SingleValue element).
CodeElem(o, nn) == LET r == P!OpInt(o, nn) IN [lo |-> r.lo, hi |-> r.hi, single |-> (o.lo = o.hi)]
RECURSIVE CodeFoldS(_, _, _, _)
CodeFoldS(xs, qs, i, nn) ==
    IF i = Len(xs) THEN CodeElem(xs[i], nn)
    ELSE LET a == CodeElem(xs[i], nn)
             b == CodeFoldS(xs, qs, i + 1, nn)
         IN CASE qs[i] = "x" -> a
              [] qs[i] = "u" -> [lo |-> P!Min(a.lo, b.lo), hi |-> P!Max(a.hi, b.hi), single |-> FALSE]
              [] a.single /\ ~b.single -> a
              [] b.single /\ ~a.single -> b
              [] a.single /\ b.single -> a        \* unequal singles make the generator give up (a warning)
              [] OTHER -> [lo |-> P!Max(a.lo, b.lo), hi |-> P!Min(a.hi, b.hi), single |-> FALSE]
CodeFold(xs, qs, i, nn) == LET r == CodeFoldS(xs, qs, i, nn) IN
                           IF r.lo > r.hi THEN P!EMPTY ELSE [lo |-> r.lo, hi |-> r.hi]
Prec(p) == CASE p = "x" -> 3 [] p = "i" -> 2 [] OTHER -> 1
\* the input class: expressions on which that fold differs from the effective constraint
FoldClass(xs, qs, nn) == Len(xs) >= 2 /\ CodeFold(xs, qs, 1, nn) # P!EffExpr(xs, qs, nn)

\* D_C04_open_end: the lexer drops the "<" of an open range end (0<..5 is read as 0..5)
Closed(o) == [o EXCEPT !.lox = FALSE, !.hix = FALSE]
ClosedSeq(xs) == [i \in 1..Len(xs) |-> Closed(xs[i])]
ClosedSer(sr) == [i \in 1..Len(sr) |-> [sr[i] EXCEPT !.o = Closed(sr[i].o)]]
OpenEndClass(xs, sr) == (\E i \in 1..Len(xs) : xs[i].lox \/ xs[i].hix) \/ (\E i \in 1..Len(sr) : sr[i].o.lox \/ sr[i].o.hix)

\* D_C04_size_level_setop: a union or EXCEPT written *between* SIZE constraints, (SIZE(a) | SIZE(b)), (SIZE(a) EXCEPT SIZE(b)),
\*   is folded as a value constraint: no size annotation comes out of it (an intersection is folded as sizes)
SizeLevelClass(e) == e.outer_size /\ \E j \in 1..Len(e.ps) : e.ps[j] \in {"u", "x"}

CodeEff(D, e, nn) ==
    LET xs == IF "D_C04_open_end" \in D THEN ClosedSeq(e.os) ELSE e.os
        sr == IF "D_C04_open_end" \in D THEN ClosedSer(e.ser) ELSE e.ser
    IN IF "D_C04_size_level_setop" \in D THEN P!EffSerial(Full(nn), sr, 1, nn)
       ELSE IF "D_C04_fold" \in D
       THEN P!EffSerial(CodeFold(xs, e.ps, 1, nn), sr, 1, nn)
       ELSE P!Eff(xs, e.ps, sr, nn)

\* D_C04_ext_unbounded: a marker on a constraint whose bound is MIN..MAX as written (no lower and no upper bound in the
\*   code's fold; SIZE (0..MAX, ...) has a lower bound and keeps its marker) is dropped together with the (empty) annotation
\* D_C04_ext_except: the lexer attaches the outer ", ..." to the last operand; when that
\*   operand lies to the right of an EXCEPT it is discarded and the marker with it
AnyMarker(e) == e.ext \/ \E i \in 1..Len(e.ser) : e.ser[i].ext
\* (the expression is nested to the right, so any EXCEPT drops the last operand and its marker)
LastIsExcept(e) == \E j \in 1..Len(e.ps) : e.ps[j] = "x"
\* the markers that survive in the code, constraint by constraint
FirstFull(D, e, nn) == CodeEff(D, [e EXCEPT !.ser = <<>>], FALSE) = Full(FALSE)
CodeExt1(D, e, nn) == /\ e.ext
                      /\ ~("D_C04_ext_except" \in D /\ LastIsExcept(e))
                      /\ ~("D_C04_ext_unbounded" \in D /\ FirstFull(D, e, nn))
CodeSer(D, e, nn) == [j \in 1..Len(e.ser) |->
                        [e.ser[j] EXCEPT !.ext = @ /\ ~("D_C04_ext_unbounded" \in D /\ P!OpInt(e.ser[j].o, FALSE) = Full(FALSE))]]
CodeFlagOK(D, e, nn, flag) == P!ExtAllowed(flag, CodeExt1(D, e, nn), CodeSer(D, e, nn))

Applicable(D, e, nn) ==
    /\ "D_C04_fold" \in D => FoldClass(IF "D_C04_open_end" \in D THEN ClosedSeq(e.os) ELSE e.os, e.ps, nn)
    /\ "D_C04_open_end" \in D => OpenEndClass(e.os, e.ser)
    /\ "D_C04_ext_unbounded" \in D => \/ (e.ext /\ FirstFull(D, e, nn))
                                       \/ \E j \in 1..Len(e.ser) : e.ser[j].ext /\ P!OpInt(e.ser[j].o, FALSE) = Full(FALSE)
    /\ "D_C04_ext_except" \in D => (e.ext /\ LastIsExcept(e))
    /\ "D_C04_size_level_setop" \in D => SizeLevelClass(e)
AllDevs == {"D_C04_fold", "D_C04_open_end", "D_C04_ext_unbounded", "D_C04_ext_except", "D_C04_size_level_setop"}

Explains(D, e, nn, obs, flag) == Applicable(D, e, nn) /\ obs = CodeEff(D, e, nn) /\ CodeFlagOK(D, e, nn, flag)

Judge(e, i) ==
    LET nn  == e.ty # "INTEGER"
        D   == P!Denote(e.os, e.ps, e.ser, nn)
    IN
    IF D = {} THEN Report(i, "SKIP", "unsatisfiable constraint (not legal ASN.1)")
    ELSE IF e.status \in {"err", "warn"} THEN Report(i, "SKIP", e.status)
    ELSE IF e.status # "ok" THEN Report(i, "MISMATCH", "no item generated for the type")
    ELSE
      LET obs  == ChainInt(e.chain, 1, nn)
          flag == ChainExt(e.chain)
          eff  == P!Eff(e.os, e.ps, e.ser, nn)
          expl == {S \in SUBSET AllDevs : Explains(S, e, nn, obs, flag)}
      IN
      IF {} \in expl THEN TRUE
      \* an operand spelled as contained subtype (INCLUDES T): the property lists what the emitted bound must resolve -- value
      \* references, named numbers, constrained parent types -- and contained subtypes are not among it; what remains is that
      \* the bound never excludes a permitted value and is extensible only with a marker
      ELSE IF e.contained /\ D \subseteq P!InWin(obs, nn) /\ (flag => AnyMarker(e)) THEN TRUE
      ELSE IF expl # {} THEN
           LET S == CHOOSE S \in expl : \A S2 \in expl : Cardinality(S) <= Cardinality(S2)
           IN \A d \in S : IF d \in KnownDevs THEN Report(i, "DEVIATION", d)
                           ELSE Report(i, "MISMATCH", "bound is what deviation " \o d \o " predicts, which is not a listed known finding")
      ELSE IF ~(D \subseteq P!InWin(obs, nn)) THEN Report(i, "MISMATCH", "emitted bound excludes a value the constraint permits")
      ELSE IF obs # eff THEN Report(i, "MISMATCH", "emitted bound is not the PER-visible effective constraint")
      ELSE Report(i, "MISMATCH", "extensible flag does not follow the extension marker")

Init == l = 1 /\ P!Init

Step == /\ l <= Len(Rec)
        /\ Rec[l].ev = "pv"
        /\ Judge(Rec[l], l)
        /\ l' = l + 1
        /\ UNCHANGED <<os, ps, ext, ser, target, phase, extout>>

Spec == Init /\ [][Step]_<<l, os, ps, ext, ser, target, phase, extout>>

Accepted == AllConsumed
=============================================================================
