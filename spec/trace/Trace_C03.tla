------------------------------ MODULE Trace_C03 ------------------------------
(* Trace specification for C03: each event is one tag point (or one         *)
(* automatic-tagging point) compiled by the real compiler.  Observed at     *)
(* attribute level: is the tag applied to the right item / field / variant, *)
(* with the source class and number, and marked explicit as 31.2.7 says.    *)
(*                                                                          *)
(* Attribute level and CHOICE: rasn itself encodes a tagged CHOICE-typed    *)
(* field or variant explicitly whatever the attribute says (a CHOICE has no *)
(* tag of its own to replace), so for the kinds refchoice / inlinechoice    *)
(* the implicit marking produces the explicit encoding the property asks    *)
(* for and is accepted -- on a field, a variant or a delegate newtype around *)
(* a referenced CHOICE (all measured with a rasn 0.27 probe: the encoding is *)
(* explicit either way).  A tag attribute on the CHOICE enum item itself     *)
(* (type assignment of an inline CHOICE) must say explicit: rasn drops an    *)
(* implicit one altogether.  Likewise for open types (ANY): rasn encodes no  *)
(* tag at all for an implicit marking, so the attribute must say explicit.   *)
EXTENDS TraceLib, FiniteSets

\* deviations of the code that are listed as known findings for C03
CONSTANT KnownDevs

VARIABLES l, md, kw, cls, pos, kind, phase, explicit

T == INSTANCE Tagging

AllDevs == {"D_C03_no_tags_clause", "D_C03_nested_env", "D_C03_element_tag", "D_C03_open_implicit"}

(* What the code does under a set D of deviations.                          *)
(*  D_C03_no_tags_clause  a module without TAGS clause is treated like      *)
(*                        IMPLICIT TAGS                                     *)
(*  D_C03_nested_env      below the first nesting level the module default  *)
(*                        is not applied: explicit iff the tag says EXPLICIT*)
(*  D_C03_element_tag     the tag of a SEQUENCE OF / SET OF element is      *)
(*                        dropped                                           *)
(*  D_C03_open_implicit   clause c) is not applied to open types            *)
EffDefault(D, e) == IF "D_C03_no_tags_clause" \in D /\ e.md = "NONE" THEN "IMPLICIT" ELSE e.md
CodePresent(D, e) == ~("D_C03_element_tag" \in D /\ e.pos = "element")
CodeExplicit(D, e) ==
    IF "D_C03_nested_env" \in D /\ e.pos = "nested" THEN e.kw = "EXPLICIT"
    ELSE IF "D_C03_open_implicit" \in D /\ e.kind = "open"
         THEN T!ClauseA(e.kw) \/ T!ClauseB(EffDefault(D, e), e.kw)
         ELSE T!IsExplicit(EffDefault(D, e), e.kw, e.kind)

\* does the rule, under deviations D, explain the observed annotation?
ModeAccepted(exp, e) ==
    \/ e.obs.explicit = exp
    \/ /\ exp /\ ~e.obs.explicit                                           \* see header comment
       /\ \/ e.kind = "refchoice"
          \/ e.kind = "inlinechoice" /\ e.pos \in {"component", "alternative", "nested"}
Explains(D, e) ==
    IF ~CodePresent(D, e) THEN ~e.obs.present
    ELSE /\ e.obs.present
         /\ e.obs.cls = e.cls /\ e.obs.num = e.num
         /\ ModeAccepted(CodeExplicit(D, e), e)

MinExplaining(e) ==
    LET ok == {D \in SUBSET AllDevs : Explains(D, e)}
    IN IF ok = {} THEN {"<none>"}
       ELSE CHOOSE D \in ok : \A D2 \in ok : Cardinality(D) <= Cardinality(D2)

Why(e) == IF ~e.obs.present THEN "a tag written in the source is not applied"
          ELSE IF e.obs.cls # e.cls \/ e.obs.num # e.num THEN "tag applied with another class or number"
          ELSE "tagging mode (explicit/implicit) differs from X.680 31.2.7"

JudgeTag(e, i) ==
    IF e.status \in {"err", "warn"} THEN Report(i, "SKIP", e.status)
    ELSE IF e.status # "ok" THEN Report(i, "MISMATCH", "no item generated for the type")
    ELSE IF Explains({}, e) THEN TRUE
    ELSE LET D == MinExplaining(e) IN
         IF D = {"<none>"} THEN Report(i, "MISMATCH", Why(e))
         ELSE \A d \in D : IF d \in KnownDevs THEN Report(i, "DEVIATION", d)
                           ELSE Report(i, "MISMATCH", Why(e) \o " (as deviation " \o d \o ", which is not a listed known finding)")

(* Encoding level ("der" events): the DER bytes rasn produces for a value of the point's type;   *)
(* outer = the TLV of the tagged element, inner = its first child.                              *)
\* the element's own (untagged) outermost TLV; CHOICE kinds show the chosen alternative x INTEGER
OwnTag(e) ==
    CASE e.kind = "primitive" -> [cls |-> "universal", num |-> 2, cons |-> FALSE]
      [] e.kind = "refseq" -> [cls |-> "universal", num |-> 16, cons |-> TRUE]
      [] e.kind \in {"refchoice", "inlinechoice"} ->
            IF e.md = "AUTOMATIC" THEN [cls |-> "context", num |-> 0, cons |-> FALSE]      \* its alternatives are tagged automatically
            ELSE [cls |-> "universal", num |-> 2, cons |-> FALSE]
      [] OTHER -> [cls |-> "universal", num |-> 5, cons |-> FALSE]                       \* the open type holds a NULL
\* whether rasn applies automatic tags to the alternatives of a CHOICE that itself carries a tag is rasn's business, not this
\* property's: for CHOICE kinds the untagged alternative is accepted as well
Untagged == [cls |-> "universal", num |-> 2, cons |-> FALSE]
OwnOK(e, n) == n = OwnTag(e) \/ (e.kind \in {"refchoice", "inlinechoice"} /\ n = Untagged)
ExplainsDer(D, e) ==
    IF ~CodePresent(D, e) THEN OwnOK(e, e.outer)
    ELSE /\ e.outer.cls = e.cls /\ e.outer.num = e.num
         /\ IF CodeExplicit(D, e) THEN e.outer.cons /\ OwnOK(e, e.inner)
            ELSE e.outer.cons = OwnTag(e).cons /\ (e.outer.cons => e.inner # OwnTag(e) \/ e.kind = "refseq")
MinExplainingDer(e) ==
    LET ok == {D \in SUBSET AllDevs : ExplainsDer(D, e)}
    IN IF ok = {} THEN {"<none>"}
       ELSE CHOOSE D \in ok : \A D2 \in ok : Cardinality(D) <= Cardinality(D2)
JudgeDer(e, i) ==
    IF e.status \in {"err", "warn", "novalue"} THEN Report(i, "SKIP", e.status)
    ELSE IF e.der_status = "rustc" THEN Report(i, "SKIP", "bindings rejected by rustc (C01): " \o e.detail)
    ELSE IF e.der_status # "ok" THEN Report(i, "MISMATCH", "rasn cannot encode a value of the generated type: " \o e.der_status)
    ELSE IF ExplainsDer({}, e) THEN TRUE
    ELSE LET D == MinExplainingDer(e) IN
         IF D = {"<none>"} THEN Report(i, "MISMATCH", "DER encoding of the tagged element is not what X.680 31.2.7 prescribes: " \o e.hex)
         ELSE \A d \in D : IF d \in KnownDevs THEN Report(i, "DEVIATION", d)
                           ELSE Report(i, "MISMATCH", "DER encoding differs from X.680 31.2.7 (as deviation " \o d \o ", which is not a listed known finding): " \o e.hex)

JudgeAuto(e, i) ==
    IF e.status \in {"err", "warn"} THEN Report(i, "SKIP", e.status)
    ELSE IF e.status # "ok" THEN Report(i, "MISMATCH", "no item generated for the type")
    ELSE IF e.obs_automatic # T!Automatic(e.md, e.pat)
         THEN Report(i, "MISMATCH", "automatic tagging selected although not (AUTOMATIC TAGS and no component tagged), or vice versa")
         ELSE TRUE

Init == l = 1 /\ T!Init

Step == /\ l <= Len(Rec)
        /\ IF Rec[l].ev = "tag" THEN JudgeTag(Rec[l], l) ELSE IF Rec[l].ev = "der" THEN JudgeDer(Rec[l], l) ELSE JudgeAuto(Rec[l], l)
        /\ l' = l + 1
        /\ UNCHANGED <<md, kw, cls, pos, kind, phase, explicit>>

Spec == Init /\ [][Step]_<<l, md, kw, cls, pos, kind, phase, explicit>>

Accepted == AllConsumed
=============================================================================
