------------------------------ MODULE Trace_C18 ------------------------------
(* Trace specification for C18.  Per generated module set: a tsbegin event,   *)
(* per namespace a tsns event, per type assignment a tsdecl event and per     *)
(* constructed type (also anonymous nested ones) a tsnode event.              *)
EXTENDS TraceLib, FiniteSets

CONSTANT KnownDevs
VARIABLES l, skipping

S == INSTANCE TsShape

Dev(i, d, what) == IF d \in KnownDevs THEN Report(i, "DEVIATION", d)
                   ELSE Report(i, "MISMATCH", what \o " (deviation " \o d \o ", not a listed known finding)")

Begin(e, i) ==
    /\ IF e.status = "err" THEN Report(i, "SKIP", e.status)
       ELSE IF e.status \notin {"ok", "warn"} THEN Report(i, "MISMATCH", "the TypeScript backend crashed")
       ELSE IF ~e.balanced THEN Report(i, "MISMATCH", "braces, brackets or parentheses are not balanced")
       ELSE TRUE
    \* a warning (e.g. about a value assignment) drops one item; the type assignments are still checked
    /\ skipping' = (e.status \notin {"ok", "warn"})

Ns(e, i) ==
    IF skipping THEN TRUE
    ELSE IF ~e.found THEN Report(i, "MISMATCH", "no namespace for a module")
    \* D_C18_allcaps_import: the import alias of a type whose name consists of capital letters (and hyphens) only is left out
    \* -- the backend takes such a name for an information object class, which has no declaration to import
    ELSE IF e.unresolved # <<>> /\ \A k \in DOMAIN e.unresolved : (\E j \in DOMAIN e.allcaps_imports : e.allcaps_imports[j] = e.unresolved[k]) THEN
         (IF "D_C18_allcaps_import" \in KnownDevs THEN Report(i, "DEVIATION", "D_C18_allcaps_import")
          ELSE Report(i, "MISMATCH", "the import alias of an all-capital type name is missing (deviation D_C18_allcaps_import, not a listed known finding)"))
    ELSE IF e.unresolved # <<>> THEN Report(i, "MISMATCH", "a mentioned type name is neither declared in the namespace nor imported")
    ELSE IF e.dangling # <<>> THEN Report(i, "MISMATCH", "an import alias points at a name its namespace does not declare")
    ELSE TRUE

Decl(e, i) ==
    IF skipping THEN TRUE
    ELSE IF e.count # 1 THEN Report(i, "MISMATCH", "not exactly one exported declaration for a type assignment")
    ELSE IF e.kind = "ENUMERATED"
         \* members named by the hyphen-mangled enumerals, valued by the original enumeral names
         THEN IF e.decl_kind = "enum" /\ e.enum_values = e.src_names /\ e.enum_names = e.src_mangled THEN TRUE
              ELSE Report(i, "MISMATCH", "ENUMERATED: not an enum with string-valued members carrying the enumeral names")
    ELSE IF ~S!ClsOK(IF e.kind = "REF" THEN e.obs_cls ELSE e.kind, e.obs_cls)
         THEN Report(i, "MISMATCH", "declaration does not have the JER shape of the type")
    ELSE TRUE

Node(e, i) ==
    IF skipping THEN TRUE
    ELSE IF e.kind \in {"SEQOF", "SETOF"} THEN
         IF e.obs_cls = "arr" /\ S!ClsOK(e.src_elem, e.obs_elem) THEN TRUE
         ELSE Report(i, "MISMATCH", "SEQUENCE OF / SET OF is not an array of the element shape")
    ELSE IF e.kind = "ENUMERATED" THEN
         IF e.obs_names = e.src_names THEN TRUE ELSE Report(i, "MISMATCH", "inline ENUMERATED: string literals do not carry the enumeral names")
    ELSE IF ~S!ClsOK(e.kind, e.obs_cls) THEN Report(i, "MISMATCH", "constructed type does not have its JER shape (object / union of single-key objects)")
    ELSE IF ~S!MembersOK(e.kind, e.src, e.obs) THEN Report(i, "MISMATCH", "members are not the components in order with ? exactly for OPTIONAL and DEFAULT")
    ELSE IF ~S!IndexOK(e.kind, e.marker, e.implied, e.index) THEN Report(i, "MISMATCH", "index signature does not follow the extension marker")
    ELSE TRUE

Init == l = 1 /\ skipping = FALSE
Step == /\ l <= Len(Rec)
        /\ LET e == Rec[l] IN
           CASE e.ev = "tsbegin" -> Begin(e, l)
             [] e.ev = "tsns" -> Ns(e, l) /\ UNCHANGED skipping
             [] e.ev = "tsdecl" -> Decl(e, l) /\ UNCHANGED skipping
             [] OTHER -> Node(e, l) /\ UNCHANGED skipping
        /\ l' = l + 1
Spec == Init /\ [][Step]_<<l, skipping>>
Accepted == AllConsumed
=============================================================================
