------------------------------ MODULE Trace_C20 ------------------------------
(* Trace specification for C20.  One deliver event per executed scenario: the   *)
(* scenario (from MC_C20), what compile_to_string() says about the sources      *)
(* (compiled), and what was found after compile() / the command-line tool ran   *)
(* in a child process.  Delivery.tla says what must be found.  One builder event *)
(* per call sequence of MC_Builder replayed through the typestate API: the       *)
(* sequence is folded through Builder.tla, which says which sources the final    *)
(* call must work on and where the text must be.                                 *)
EXTENDS TraceLib, FiniteSets

VARIABLES l

\* the constant-level part of Delivery.tla (its variables are not used here)
D == INSTANCE Delivery WITH mode <- "", dest <- "", input <- "", pc <- "", compiled <- "", target <- "", others <- "", stdout <- "", result <- "", shape <- "", buffered <- FALSE, fmt <- "", FlushBeforeReturn <- TRUE, FormatErrorSurfaces <- FALSE, SkipWhenSame <- FALSE

Deliver(e, i) ==
    LET c == IF e.compiled = "ok" THEN "ok" ELSE "err"
        \* the empty text (Delivery!NoText) is the one shape the demands depend on
        sh == IF e.compiled = "ok" /\ Has(e, "text_bytes") /\ e.text_bytes = 0 THEN "no_text" ELSE "ends_in_newline" IN
    IF e.compiled = "unstaged" THEN Report(i, "SKIP", "the scene could not be set: " \o e.detail)
    ELSE IF e.compiled = "panic" THEN Report(i, "SKIP", "compile_to_string panics on this input (C08)")
    ELSE IF (e.input = "good") # (e.compiled = "ok") THEN Report(i, "SKIP", "input class and compile_to_string disagree: " \o e.input \o " / " \o e.compiled)
    ELSE IF e.result \notin {"ok", "err"}
        THEN Report(i, "MISMATCH", "neither Ok nor Err / exit status 0 or 1, but " \o e.result \o ": " \o e.detail)
    ELSE IF e.result # D!Result(e.mode, e.dest, c, sh)
        THEN Report(i, "MISMATCH", "returns " \o e.result \o " where " \o D!Result(e.mode, e.dest, c, sh) \o " is due: " \o e.detail)
    ELSE IF e.target_after # D!TargetAfter(e.mode, e.dest, c, sh)
        THEN Report(i, "MISMATCH", "destination holds " \o e.target_after \o " afterwards, expected " \o D!TargetAfter(e.mode, e.dest, c, sh))
    ELSE IF e.others # <<>> THEN Report(i, "MISMATCH", "something besides the destination was written: " \o e.others[1])
    ELSE IF e.stdout # D!Stdout(e.mode, e.dest, c, sh) THEN Report(i, "MISMATCH", "standard output is " \o e.stdout \o ", expected " \o D!Stdout(e.mode, e.dest, c, sh))
    ELSE IF ~e.warnings_same THEN Report(i, "MISMATCH", "compile() returns other warnings than compile_to_string()")
    \* the hook trace of the call (library only; -1 where no hooks were recorded): output_generated is reached exactly once, as the
    \* last step, iff internal_compile succeeded -- Delivery!InternalCompile goes to "done" on failure without a deliver step
    ELSE IF e.delivers >= 0 /\ e.delivers # (IF c = "ok" THEN 1 ELSE 0)
        THEN Report(i, "MISMATCH", "output delivery was reached " \o ToString(e.delivers) \o " times for a compilation that is " \o c)
    ELSE IF e.delivers = 1 /\ ~e.deliver_last THEN Report(i, "MISMATCH", "pipeline steps ran after the output was delivered")
    ELSE TRUE

Macro(e, i) ==
    IF e.lib_status = "panic" THEN Report(i, "SKIP", "library panics")
    ELSE IF e.expands # (e.lib_status = "ok") THEN Report(i, "MISMATCH", "asn1! expands although the library returns Err, or fails although it returns Ok: " \o e.detail)
    ELSE IF e.expands /\ ~e.comparable THEN Report(i, "SKIP", "asn1! expanded; a derive macro of rasn rejects the bindings (C01), no expansion to compare")
    ELSE IF e.expands /\ ~e.same_items THEN Report(i, "MISMATCH", "asn1! expansion differs from the library's bindings: " \o e.detail)
    ELSE TRUE

\* the constant-level part of Builder.tla: the call sequence of the event is folded through the specification's builder
B == INSTANCE Builder WITH NSrc <- 3, MaxCalls <- 9, b <- "", calls <- <<>>, final <- ""
ModNames == <<"BldA", "BldB", "BldC">>
Builder(e, i) ==
    LET r == B!Run(B!Fresh, e.calls)
        exp == [k \in 1..Len(r.sources) |-> ModNames[r.sources[k].id]]
        toFile == e.final = "compile" /\ r.out \in {"path_file", "mode_file", "mode_dir"}
    IN
    IF r.state = "illegal" \/ ~B!Legal(r, [op |-> e.final]) THEN Report(i, "MISMATCH", "harness: the call sequence is not a behaviour of Builder.tla")
    ELSE IF e.illegal # "" THEN Report(i, "MISMATCH", "a call that the specification allows does not exist in the builder's typestate: " \o e.illegal)
    ELSE IF e.state # r.state THEN Report(i, "MISMATCH", "the builder is in typestate " \o e.state \o " after the calls, the specification says " \o r.state)
    ELSE IF ~e.ref_ok THEN Report(i, "SKIP", "the reference compilation of the three modules fails")
    ELSE IF e.lexed # exp THEN Report(i, "MISMATCH", "compilation works on other sources than the ones added (lost, duplicated or reordered by an add_* call)")
    ELSE IF e.result # "ok" THEN Report(i, "MISMATCH", "the final call fails although the same sources compile: " \o e.detail)
    ELSE IF (toFile \/ e.final = "compile_to_string") /\ ~e.has_text THEN Report(i, "MISMATCH", "no text was delivered")
    ELSE IF (toFile \/ e.final = "compile_to_string") /\ ~e.same_text THEN Report(i, "MISMATCH", "the delivered text is not what compile_to_string() returns for the same sources")
    ELSE IF e.files_written # (IF toFile THEN 1 ELSE 0) THEN Report(i, "MISMATCH", "files written: " \o ToString(e.files_written))
    ELSE IF ~e.same_warnings THEN Report(i, "MISMATCH", "other warnings than compile_to_string() returns for the same sources")
    ELSE TRUE

Init == l = 1
Step == /\ l <= Len(Rec)
        /\ LET e == Rec[l] IN IF e.ev = "deliver" THEN Deliver(e, l) ELSE IF e.ev = "builder" THEN Builder(e, l) ELSE Macro(e, l)
        /\ l' = l + 1
Spec == Init /\ [][Step]_l
Accepted == AllConsumed
=============================================================================
