------------------------------ MODULE Trace_C20 ------------------------------
(* Trace specification for C20.  One deliver event per executed scenario: the   *)
(* scenario (from MC_C20), what compile_to_string() says about the sources      *)
(* (compiled), and what was found after compile() / the command-line tool ran   *)
(* in a child process.  Delivery.tla says what must be found.                   *)
EXTENDS TraceLib, FiniteSets

VARIABLES l

\* the constant-level part of Delivery.tla (its variables are not used here)
D == INSTANCE Delivery WITH mode <- "", dest <- "", input <- "", pc <- "", compiled <- "", target <- "", others <- "", stdout <- "", result <- ""

Deliver(e, i) ==
    LET c == IF e.compiled = "ok" THEN "ok" ELSE "err" IN
    IF e.compiled = "panic" THEN Report(i, "SKIP", "compile_to_string panics on this input (C08)")
    ELSE IF (e.input = "good") # (e.compiled = "ok") THEN Report(i, "SKIP", "input class and compile_to_string disagree: " \o e.input \o " / " \o e.compiled)
    ELSE IF e.result \notin {"ok", "err"}
        THEN Report(i, "MISMATCH", "neither Ok nor Err / exit status 0 or 1, but " \o e.result \o ": " \o e.detail)
    ELSE IF e.result # D!Result(e.mode, e.dest, c)
        THEN Report(i, "MISMATCH", "returns " \o e.result \o " where " \o D!Result(e.mode, e.dest, c) \o " is due: " \o e.detail)
    ELSE IF e.target_after # D!TargetAfter(e.mode, e.dest, c)
        THEN Report(i, "MISMATCH", "destination holds " \o e.target_after \o " afterwards, expected " \o D!TargetAfter(e.mode, e.dest, c))
    ELSE IF e.others # <<>> THEN Report(i, "MISMATCH", "something besides the destination was written: " \o e.others[1])
    ELSE IF e.stdout # D!Stdout(e.mode, e.dest, c) THEN Report(i, "MISMATCH", "standard output is " \o e.stdout \o ", expected " \o D!Stdout(e.mode, e.dest, c))
    ELSE IF ~e.warnings_same THEN Report(i, "MISMATCH", "compile() returns other warnings than compile_to_string()")
    \* the hook trace of the call (library only; -1 where no hooks were recorded): output_generated is reached exactly once, as the
    \* last step, iff internal_compile succeeded -- Delivery!InternalCompile goes to "done" on failure without a deliver step
    ELSE IF e.delivers >= 0 /\ e.delivers # (IF c = "ok" THEN 1 ELSE 0)
        THEN Report(i, "MISMATCH", "output delivery was reached " \o ToString(e.delivers) \o " times for a compilation that is " \o c)
    ELSE IF e.delivers = 1 /\ ~e.deliver_last THEN Report(i, "MISMATCH", "pipeline steps ran after the output was delivered")
    ELSE TRUE

Macro(e, i) ==
    IF e.lib_status = "panic" THEN Report(i, "SKIP", "library panics")
    ELSE IF e.expands # (e.lib_status = "ok") THEN Report(i, "MISMATCH", "asn1! expands although the library returns Err, or fails although it returns Ok: " \o e.detail)
    ELSE IF e.expands /\ ~e.comparable THEN Report(i, "SKIP", "asn1! expanded; a derive macro of rasn rejects the bindings (C01), no expansion to compare")
    ELSE IF e.expands /\ ~e.same_items THEN Report(i, "MISMATCH", "asn1! expansion differs from the library's bindings: " \o e.detail)
    ELSE TRUE

Init == l = 1
Step == /\ l <= Len(Rec)
        /\ LET e == Rec[l] IN IF e.ev = "deliver" THEN Deliver(e, l) ELSE Macro(e, l)
        /\ l' = l + 1
Spec == Init /\ [][Step]_l
Accepted == AllConsumed
=============================================================================
