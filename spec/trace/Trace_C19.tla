------------------------------ MODULE Trace_C19 ------------------------------
(* Trace specification for C19.  Every input is compiled under the default      *)
(* configuration and under another one; per compilation a cfgrun event, per     *)
(* generated module a cfgmod event carrying the aspect-wise difference of the   *)
(* two outputs.  Each aspect must be what Options.tla renders from the base.    *)
EXTENDS TraceLib, FiniteSets

VARIABLES l

O == INSTANCE Options
ToSet(s) == {s[i] : i \in DOMAIN s}
NoDup(s) == Cardinality(ToSet(s)) = Len(s)

Run(e, i) ==
    IF e.obs_status # e.base_status \/ ~e.same_warnings \/ ~e.same_error
        THEN Report(i, "MISMATCH", "a configuration changes whether / with which warnings the input compiles: " \o e.detail)
    ELSE IF e.base_status \notin {"ok", "warn"} THEN Report(i, "SKIP", e.base_status)
    ELSE IF ~e.parsed THEN Report(i, "MISMATCH", "generated bindings do not parse as Rust")
    ELSE IF e.modules_obs # e.modules_base \/ ~e.loose_same THEN Report(i, "MISMATCH", "the set or order of generated modules differs between configurations")
    ELSE TRUE

DerivesOK(c, p) == NoDup(p.obs) /\ ToSet(p.obs) = O!Derives(c, ToSet(p.base)) /\ (O!Required \subseteq ToSet(p.base) => O!Required \subseteq ToSet(p.obs))
FromOK(c, ch) == NoDup(ch.from) /\ ToSet(ch.from) = O!From(c, ch.payloads, ch.variants) /\ ch.base_from = 0

Mod(e, i) ==
    LET c == e.cfg IN
    IF ~e.mod_attrs_same \/ e.core_obs # e.core_base THEN Report(i, "MISMATCH", "module attributes or the fixed use lines differ between configurations")
    ELSE IF e.lazy_base # <<O!Lazy(O!Default)>> \/ e.lazy_obs # <<O!Lazy(c)>>
        THEN Report(i, "MISMATCH", "lazy-initialisation import is not LazyLock / lazy_static as no_std_compliant_bindings says")
    ELSE IF e.super_obs # O!Super(c, e.super_base)
        THEN Report(i, "MISMATCH", "import lists: not the listed names (wildcard exactly with default_wildcard_imports)")
    \* (the symbol-suffixed custom imports are made from e.syms, which must hold every name this module's import lists name)
    ELSE IF c.imports = 9 /\ \E k \in DOMAIN e.super_base : \E n \in DOMAIN e.super_base[k].list : e.super_base[k].list[n] \notin ToSet(e.syms)
        THEN Report(i, "MISMATCH", "harness: the custom imports do not cover the imported symbols")
    ELSE IF e.other_obs # O!Other(c, e.other_base, e.syms) THEN Report(i, "MISMATCH", "additional use lines are not exactly the custom imports")
    ELSE IF ~e.order_same \/ e.missing # <<>> THEN Report(i, "MISMATCH", "an item is missing or items are reordered under the configuration")
    ELSE IF e.extra # <<>> /\ ~O!ExtrasAllowed(c) THEN Report(i, "MISMATCH", "additional items that no enabled option documents")
    ELSE IF e.n_body_diffs # 0 THEN Report(i, "MISMATCH", "a type definition (fields, tags, constraints, identifiers) differs between configurations")
    ELSE IF e.n_value_diffs # 0 THEN Report(i, "MISMATCH", "a value differs between configurations")
    ELSE IF \E k \in DOMAIN e.derive_pairs : ~DerivesOK(c, e.derive_pairs[k])
        THEN Report(i, "MISMATCH", "derives: not the default ones plus the annotated ones, each once, required ones present")
    ELSE IF \E k \in DOMAIN e.attr_pairs : e.attr_pairs[k].obs # O!Attrs(c, e.attr_pairs[k].base)
        THEN Report(i, "MISMATCH", "non-derive attributes: not the default ones plus the annotated ones")
    ELSE IF \E k \in DOMAIN e.form_pairs : e.form_pairs[k].obs # O!Form(c, e.form_pairs[k].base)
        THEN Report(i, "MISMATCH", "value items: not LazyLock / lazy_static as no_std_compliant_bindings says")
    ELSE IF \E k \in DOMAIN e.choices : ~FromOK(c, e.choices[k])
        THEN Report(i, "MISMATCH", "From impls: not exactly one per alternative whose payload type is unique within the CHOICE (none without generate_from_impls)")
    ELSE TRUE

Init == l = 1
Step == /\ l <= Len(Rec)
        /\ LET e == Rec[l] IN IF e.ev = "cfgrun" THEN Run(e, l) ELSE Mod(e, l)
        /\ l' = l + 1
Spec == Init /\ [][Step]_l
Accepted == AllConsumed
=============================================================================
