------------------------------ MODULE Trace_C13 ------------------------------
(* Trace specification for C13: each event is one re-layout of an input that *)
(* compiles: the gap after one token (or after all / a random subset of the  *)
(* tokens) was replaced by a gap form of Layout.  Where the form is          *)
(* applicable, the Ok/Err status and the bindings without doc attributes     *)
(* must equal those of the original text.                                    *)
EXTENDS TraceLib, FiniteSets

CONSTANTS MaxGap, KnownDevs
VARIABLES l, gap, open, inline

L == INSTANCE Layout

Judge(e, i) ==
    IF e.mode = "no such boundary" THEN Report(i, "SKIP", "no boundary of this token-class pair in the inputs")
    ELSE IF e.form \notin L!Forms THEN Report(i, "MISMATCH", "harness: unknown gap form")
    ELSE IF e.cl # "*" /\ ~L!Applicable(e.form, e.cl, e.cr) THEN Report(i, "SKIP", "form not applicable at this boundary")
    ELSE IF e.same THEN TRUE
    \* D_C13_encoding_control_comment: an ENCODING-CONTROL section is skipped textually up to END, so a comment that contains
    \* keywords ends it early; only the forms whose comment text contains keywords, only inputs with such a section
    ELSE IF e.encctl /\ e.form \in {"LINE_KEYWORDS", "MIXED"} THEN
         (IF "D_C13_encoding_control_comment" \in KnownDevs THEN Report(i, "DEVIATION", "D_C13_encoding_control_comment")
          ELSE Report(i, "MISMATCH", "a comment inside an ENCODING-CONTROL section changes the outcome (deviation D_C13_encoding_control_comment, not a listed known finding)"))
    ELSE IF e.status # e.base_status
         THEN Report(i, "MISMATCH", "white space / comment between two tokens changes the Ok/Err outcome (" \o e.form \o ", " \o e.mode \o ")")
         ELSE Report(i, "MISMATCH", "white space / comment between two tokens changes the bindings (" \o e.form \o ", " \o e.mode \o ")")

Init == l = 1 /\ L!Init
Step == /\ l <= Len(Rec) /\ Judge(Rec[l], l) /\ l' = l + 1 /\ UNCHANGED <<gap, open, inline>>
Spec == Init /\ [][Step]_<<l, gap, open, inline>>
Accepted == AllConsumed
=============================================================================
