------------------------------ MODULE Trace_C02 ------------------------------
(* Trace specification for C02.  A trace is a sequence of groups, one per   *)
(* generated module set: a "begin" event (reference graph of the source,    *)
(* by-value containment graph of the generated items) followed by one       *)
(* "ctype" event per constructed type of the module set.  The begin step    *)
(* stores the two transitive closures; the ctype steps use them.            *)
EXTENDS TraceLib, FiniteSets

CONSTANT KnownDevs
VARIABLES l,
          srcClosure,   \* transitive closure of "definition refers to definition"
          skipping      \* the current module set produced no bindings (Err / warning)

R == INSTANCE RustShape

Init == l = 1 /\ srcClosure = {} /\ skipping = FALSE

Begin(e, i) ==
    /\ IF e.status \in {"err", "warn"} THEN Report(i, "SKIP", e.status)
       ELSE IF e.status # "ok" \/ ~e.parsed_ok THEN Report(i, "MISMATCH", "compilation crashed or generated text does not parse")
       ELSE IF ~R!FiniteSize(R!TransClosure(R!EdgeSet(e.obs_edges)))
            THEN Report(i, "MISMATCH", "a recursive component is not boxed: by-value containment cycle in the generated items")
            ELSE TRUE
    /\ srcClosure' = R!TransClosure(R!EdgeSet(e.src_edges))
    /\ skipping' = (e.status # "ok")

CType(e, i) ==
    /\ IF skipping THEN TRUE
       ELSE IF ~e.found THEN Report(i, "MISMATCH", "no generated item for a constructed type")
       ELSE IF e.kind \in {"SEQOF", "SETOF"}
            THEN IF R!ListOK(e) THEN TRUE
                 ELSE Report(i, "MISMATCH", "SEQUENCE OF / SET OF: wrong collection (SequenceOf/SetOf) or element type")
            ELSE IF R!Corresponds(e, srcClosure) THEN TRUE
                 ELSE Report(i, "MISMATCH", R!WhyNot(e, srcClosure))
    /\ UNCHANGED <<srcClosure, skipping>>

Step == /\ l <= Len(Rec)
        /\ IF Rec[l].ev = "begin" THEN Begin(Rec[l], l) ELSE CType(Rec[l], l)
        /\ l' = l + 1

Spec == Init /\ [][Step]_<<l, srcClosure, skipping>>

Accepted == AllConsumed
=============================================================================
