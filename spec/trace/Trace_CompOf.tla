------------------------------ MODULE Trace_CompOf ------------------------------
(* Trace specification for the cases of CompOf.tla (several COMPONENTS OF clauses, a clause inside an inner SEQUENCE, a    *)
(* marker behind the clauses), shared by C09 and C05.  One event per definition of a case: compiled as written and          *)
(* hand-expanded from the model's Expand.  The clauses stand last, so no recorded deviation applies and every case is legal: *)
(* Err or a warning is a mismatch.  Aspect = "expansion" (C09): the component list is the model's Expand and every item,    *)
(* inner types included, equals the hand-expanded one.  Aspect = "extension" (C05): with the marker behind the clauses no   *)
(* component is an extension addition, and the item is extensible iff the definition has the marker.                        *)
EXTENDS TraceLib, FiniteSets

CONSTANT Aspect
VARIABLE l

Expansion(e, i) ==
    IF e.sugared # e.expected THEN Report(i, "MISMATCH", "COMPONENTS OF does not compile like its hand-expanded form: " \o ToJson(e.sugared) \o " instead of " \o ToJson(e.expected))
    ELSE IF ~e.same_items THEN Report(i, "MISMATCH", "an item of a definition using COMPONENTS OF differs from the hand-expanded one")
    ELSE TRUE

Extension(e, i) ==
    IF e.additions # <<>> THEN Report(i, "MISMATCH", "root components taken over by COMPONENTS OF are marked as extension additions: " \o ToJson(e.additions))
    ELSE IF e.ext # e.extensible_item THEN Report(i, "MISMATCH", "extensibility of a SEQUENCE with COMPONENTS OF clauses does not follow its marker")
    ELSE TRUE

Judge(e, i) ==
    IF e.expanded_status # "ok" THEN Report(i, "MISMATCH", "harness: the hand-expanded module of a CompOf.tla case is rejected: " \o e.expanded_status)
    ELSE IF e.expanded # e.expected THEN Report(i, "MISMATCH", "harness: the hand-expanded module does not have the expected components")
    ELSE IF e.sugared_status # "ok" THEN Report(i, "MISMATCH", "a legal use of COMPONENTS OF is not compiled: " \o e.sugared_status)
    ELSE IF Aspect = "expansion" THEN Expansion(e, i) ELSE Extension(e, i)

Init == l = 1
Step == /\ l <= Len(Rec)
        /\ Rec[l].ev = "compof2"
        /\ Judge(Rec[l], l)
        /\ l' = l + 1
Spec == Init /\ [][Step]_l
Accepted == AllConsumed
=============================================================================
