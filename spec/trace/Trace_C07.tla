------------------------------ MODULE Trace_C07 ------------------------------
(* Trace specification for C07.  One event per case of MC_C07: the term, its    *)
(* governing type, and the abstract value the harness evaluated from the        *)
(* generated initialiser (value assignment) or default function (DEFAULT).      *)
EXTENDS TraceLib, FiniteSets

CONSTANT KnownDevs
VARIABLES l

V == INSTANCE Values

Dev(i, d, what) == IF d \in KnownDevs THEN Report(i, "DEVIATION", d)
                   ELSE Report(i, "MISMATCH", what \o " (deviation " \o d \o ", not a listed known finding)")

IsRef(e) == e.term.f = "ref"

\* named deviations, each guarded by the input class it is known for
\*   D_C07_inline_enumerated_value  v ENUMERATED { .. } ::= ea : no Rust enum exists for the inline type; `ENUMERATED(EA)` is emitted
\*   D_C07_constructed_value        SEQUENCE / SEQUENCE OF values: { x 5 } and { 1 } are lexed as OBJECT IDENTIFIER values, values reached
\*                                  through type references are wrapped once too often, a DEFAULT given by reference names a constant
\*                                  that was not generated
\*   D_C07_reloid_ref               v RELATIVE-OID ::= ref : emitted as `OBJECT IDENTIFIER(REF)`, which is not Rust
\*   D_C07_optional_component       a SEQUENCE / SET value that gives a value for an OPTIONAL component: the constructor argument is
\*                                  not wrapped in Some(..)  (and a value that leaves the OPTIONAL component out is refused with a warning)
GivesOptional(ty, t) == /\ ty.k \in {"SEQUENCE", "SET"} /\ t.f = "seq"
                        /\ \E i \in DOMAIN ty.comps : ty.comps[i].opt = "optional" /\ \E j \in DOMAIN t.fields : t.fields[j].n = ty.comps[i].n
RECURSIVE Unref(_)
Unref(t) == IF t.f = "ref" THEN Unref(t.to) ELSE t
Class(e) ==
    CASE e.pos = "assign" /\ e.ty.k = "ENUMERATED" /\ e.ty.inline -> "D_C07_inline_enumerated_value"
      [] GivesOptional(e.ty, Unref(e.term)) /\ e.obs.k = "unknown" -> "D_C07_optional_component"
      \* ... recognisable by what was emitted: an OID constructor or wrappers the evaluator cannot see through; a value that
      \* does evaluate to a SEQUENCE / SET / SEQUENCE OF value and is a different one is not this finding
      [] e.ty.k \in {"SEQUENCE", "SET", "SEQOF"} /\ e.obs.k \in {"unknown", "oid"} -> "D_C07_constructed_value"
      [] e.fam = "reloid" /\ e.pos = "assign" /\ IsRef(e) -> "D_C07_reloid_ref"
      [] OTHER -> "none"

Judge(e, i) ==
    IF e.status \in {"err", "panic"} THEN Report(i, "SKIP", e.status)
    ELSE IF ~e.generated THEN Report(i, "SKIP", "no binding generated for the value (C10 decides whether silently)")
    ELSE LET exp == V!Denote(e.term, e.ty) IN
         IF V!Same(exp, e.obs) THEN TRUE
         ELSE IF Class(e) # "none" THEN Dev(i, Class(e), "the binding does not denote the source value")
         ELSE Report(i, "MISMATCH", "the binding does not denote the value of the notation: " \o e.rust)

Init == l = 1
Step == /\ l <= Len(Rec)
        /\ Judge(Rec[l], l)
        /\ l' = l + 1
Spec == Init /\ [][Step]_l
Accepted == AllConsumed
=============================================================================
