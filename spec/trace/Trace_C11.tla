------------------------------ MODULE Trace_C11 ------------------------------
(* Trace specification for C11.  Each event is one compilation of a set of   *)
(* definitions (`defset` names the set, `variant` says how it was presented: *)
(* repeated, permuted assignments / modules / sources, another thread,       *)
(* concurrently, after other compilations).  The specification is            *)
(* Pipeline!OutIsFunctionOfInput lifted to observations: the first event of  *)
(* a defset fixes its result; every later event of the same defset must      *)
(* return the same status, byte-identical bindings (hash) and the same        *)
(* multiset of warnings (hash of the sorted list).                            *)
EXTENDS TraceLib, FiniteSets

CONSTANT KnownDevs
VARIABLES l,
          result     \* defset -> [status, hash, whash] of its first compilation

Init == l = 1 /\ result = <<>>

Obs(e) == [status |-> e.status, hash |-> e.hash, whash |-> e.whash]

Step == /\ l <= Len(Rec)
        /\ LET e == Rec[l] IN
           IF e.defset \notin DOMAIN result
           THEN result' = [d \in DOMAIN result \cup {e.defset} |-> IF d = e.defset THEN Obs(e) ELSE result[d]]
           ELSE /\ result' = result
                /\ IF Obs(e) = result[e.defset] THEN TRUE
                   \* D_C11_bare_name_map: two source files that define a name in common -- the compiler keeps one definition per
                   \* bare name (D_C10_bare_name_map), and which one survives depends on the order of the sources
                   ELSE IF e.shared_names > 0 THEN
                        (IF "D_C11_bare_name_map" \in KnownDevs THEN Report(l, "DEVIATION", "D_C11_bare_name_map")
                         ELSE Report(l, "MISMATCH", "result depends on the order of sources that define a common name (deviation D_C11_bare_name_map, not a listed known finding)"))
                   ELSE IF e.status # result[e.defset].status
                        THEN Report(l, "MISMATCH", "Ok/Err outcome depends on how the same definitions are presented: " \o e.variant)
                   ELSE IF e.hash # result[e.defset].hash
                        THEN Report(l, "MISMATCH", "generated bindings are not byte-identical: " \o e.variant)
                   ELSE Report(l, "MISMATCH", "the multiset of warnings differs: " \o e.variant)
        /\ l' = l + 1

Spec == Init /\ [][Step]_<<l, result>>

Accepted == AllConsumed
=============================================================================
