------------------------------ MODULE Trace_C06 ------------------------------
(* Trace specification for C06: each event is one constrained INTEGER      *)
(* compiled by the real compiler, in the position the case names; the      *)
(* observed Rust type and emitted literal must be allowed by IntWidth.     *)
EXTENDS TraceLib, FiniteSets

CONSTANT Ops
VARIABLES l, lo, hi, ext, pos, phase, ty, form, val, op, lo2, hi2

W == INSTANCE IntWidth

Judge(e, i) ==
    IF e.status # "ok" THEN Report(i, "SKIP", e.status)
    ELSE
      LET plo == W!PermLo(e.op, e.lo, e.hi, e.lo2, e.hi2, e.ext)
          phi == W!PermHi(e.op, e.lo, e.hi, e.lo2, e.hi2, e.ext)
      IN
      CASE e.ty \notin W!Types ->
             Report(i, "MISMATCH", "integer position is not typed by one of u8..i64/Integer")
        [] ~ W!Fits(e.ty, plo, phi) ->
             Report(i, "MISMATCH", "the chosen Rust integer type cannot hold every permitted value")
        [] e.ty \in W!Fixed /\ (~ W!Finite(plo) \/ ~ W!Finite(phi)) ->
             Report(i, "MISMATCH", "fixed-width type although the constraint is extensible or has an infinite bound")
        [] e.pos \in W!ValuePositions /\ ~ e.haslit ->
             Report(i, "MISMATCH", "no constant / default function generated for the value")
        [] e.pos \in W!ValuePositions /\ e.lit_pt # e.val ->
             Report(i, "MISMATCH", "emitted integer literal differs from the source value")
        [] e.pos \in W!ValuePositions /\ ~ W!Fits(e.lit_ty, e.lit_pt, e.lit_pt) ->
             Report(i, "MISMATCH", "emitted integer literal does not fit the type it is declared with")
        [] OTHER -> TRUE

Init == l = 1 /\ W!Init

Step == /\ l <= Len(Rec)
        /\ Rec[l].ev = "int"
        /\ Judge(Rec[l], l)
        /\ l' = l + 1
        /\ UNCHANGED <<lo, hi, ext, pos, phase, ty, form, val, op, lo2, hi2>>

Spec == Init /\ [][Step]_<<l, lo, hi, ext, pos, phase, ty, form, val, op, lo2, hi2>>

Accepted == AllConsumed
=============================================================================
