------------------------------ MODULE Trace_C08 ------------------------------
(* Trace specification for C08.  One event per job: the summary of the worker's *)
(* behaviour (Totality.tla, Part 1).  A behaviour that is not Total is accepted  *)
(* only as a recorded finding: a panic by its site (innermost compiler function  *)
(* and normalised message), an abort or hang by its input class.                 *)
EXTENDS TraceLib, FiniteSets

CONSTANT KnownDevs
VARIABLES l

\* the constant-level part of Totality.tla
T == INSTANCE Totality WITH pc <- 1, verdict <- "", end <- ""

Dev(i, d, what) == IF d \in KnownDevs THEN Report(i, "DEVIATION", d)
                   ELSE Report(i, "MISMATCH", what \o " (deviation " \o d \o ", not a listed known finding)")

\* the formatting step (FmtPipe.tla): the sizes the model asks for must have been reached, or the run says nothing about them
Judge(e, i) ==
    IF e.kind = "fmtsize" /\ e.outcome = "ok" /\ e.out_bytes < e.want_bytes
        THEN Report(i, "MISMATCH", "harness: the output is smaller than the size the plan of FmtPipe asks for")
    ELSE IF e.kind = "fmtsize" /\ e.outcome = "err" THEN Report(i, "MISMATCH", "a module of plain type assignments fails with rustfmt in reach: " \o e.site)
    ELSE IF T!Total([outcome |-> e.outcome, at |-> e.at]) THEN TRUE
    ELSE IF e.dev # "" THEN Dev(i, e.dev, "compilation or error rendering does not return")
    ELSE Report(i, "MISMATCH", e.outcome \o " during " \o e.at \o ": " \o e.site)

Init == l = 1
Step == /\ l <= Len(Rec)
        /\ Judge(Rec[l], l)
        /\ l' = l + 1
Spec == Init /\ [][Step]_l
Accepted == AllConsumed
=============================================================================
