---------------------------- MODULE Trace_Pipeline ----------------------------
(***************************************************************************)
(* Trace specification for the pipeline (C10, C12; reused by C11).         *)
(*                                                                         *)
(* A trace is a sequence of compilations.  Each starts with an "input"     *)
(* event written by the harness (modules in hand-over order, their         *)
(* definitions with kind and -- taken from the hook events -- the fault    *)
(* the code reported), continues with the hook events of the real code in  *)
(* program order                                                           *)
(*     lexed  insert  validate  group  enter_module  gen                   *)
(* and ends with a "return" event (result, warnings, which definitions     *)
(* have an item under their mangled name in their module).  Every hook     *)
(* event must be the corresponding action of Pipeline, enabled in the      *)
(* current state and with the logged fields; the state the actions build   *)
(* is then judged by Pipeline's invariants at "return".                    *)
(*                                                                         *)
(* An event that is no step of the specification is reported (MISMATCH)    *)
(* and the rest of that compilation is skipped (`broken`), validation      *)
(* resumes with the next "input" event.  "compare" events (C10: bindings   *)
(* of a definition with and without the injected faults) are judged on     *)
(* their own.                                                              *)
(***************************************************************************)
EXTENDS TraceLib, FiniteSets

CONSTANTS Mods, Names, Envs, DefaultEnv, MaxDefs, Deviations, KnownDevs

VARIABLES l, broken,
          pc, headers, order, input, parsed, lexed, ins, table, lost, checked, warned, cur, env, entered, out, silent,
          dropped      \* definitions generated as nothing although they are not of a silent category
pvars == <<pc, headers, order, input, parsed, lexed, ins, table, lost, checked, warned, cur, env, entered, out, silent>>

P == INSTANCE Pipeline

SeqSet(s) == {s[i] : i \in 1..Len(s)}
NamesOf(s) == [i \in 1..Len(s) |-> s[i].n]

Init == /\ l = 1 /\ broken = FALSE /\ dropped = {}
        /\ pc = "done" /\ headers = <<>> /\ order = <<>> /\ input = <<>> /\ parsed = <<>> /\ lexed = 0 /\ ins = 0
        /\ table = {} /\ lost = {} /\ checked = {} /\ warned = {} /\ cur = "" /\ env = <<"?", "?">> /\ entered = {}
        /\ out = {} /\ silent = {}

Bad(i, what) == /\ Report(i, "MISMATCH", what) /\ broken' = TRUE /\ dropped' = dropped /\ UNCHANGED pvars

(* ---- input: a new compilation starts ------------------------------------ *)
Input(e, i) ==
    /\ broken' = FALSE /\ dropped' = {}
    /\ pc' = "run"
    /\ order' = e.order
    /\ headers' = [m \in SeqSet(e.order) |-> <<"?", "?">>]          \* learnt from the lexed events
    /\ input' = [m \in SeqSet(e.order) |->
                   [j \in 1..Len(e.defs[m]) |-> [m |-> m, n |-> e.defs[m][j].n, kind |-> e.defs[m][j].kind, fault |-> e.defs[m][j].fault]]]
    /\ parsed' = <<>> /\ lexed' = 0 /\ ins' = 0 /\ table' = {} /\ lost' = {} /\ checked' = {} /\ warned' = {}
    /\ cur' = "" /\ env' = <<"?", "?">> /\ entered' = {} /\ out' = {} /\ silent' = {}

(* ---- hook events ---------------------------------------------------------- *)
Lexed(e, i) ==
    IF pc = "run" /\ lexed < Len(order) /\ e.module = order[lexed + 1] /\ e.defs = NamesOf(input[e.module])
    THEN /\ headers' = [headers EXCEPT ![e.module] = <<e.tagging, e.extensibility>>]
         /\ parsed' = parsed \o input[e.module] /\ lexed' = lexed + 1
         /\ UNCHANGED <<broken, dropped, pc, order, input, ins, table, lost, checked, warned, cur, env, entered, out, silent>>
    ELSE Bad(i, "C10: a lexed module or its definitions are not the input (lost or reordered at parsing)")

Insert(e, i) ==
    IF P!AllLexed /\ pc = "run" /\ ins < Len(parsed) /\ parsed[ins + 1].n = e.name /\ parsed[ins + 1].m = e.module
       /\ e.replaces = (\E x \in table : P!Key(x) = P!Key(parsed[ins + 1]))
    THEN P!Insert /\ UNCHANGED <<broken, dropped>>
    ELSE Bad(i, "C10: definition table insert is not a step of the specification (unexpected overwrite of a definition)")

Validate(e, i) ==
    LET cands == {d \in table \ checked : d.n = e.name} IN
    IF pc = "run" /\ P!AllInserted /\ cands # {} /\ (\E d \in cands : e.ok = (d.fault # "validate"))
    THEN (LET d == CHOOSE d \in cands : e.ok = (d.fault # "validate") IN P!Validate(d)) /\ UNCHANGED <<broken, dropped>>
    ELSE Bad(i, "C10: validate event for a definition that is not in the table or was validated before")

Group(e, i) ==
    IF pc = "run" /\ P!AllChecked /\ SeqSet(e.defs) = {d.n : d \in {x \in table : x.m = e.module}}
    THEN UNCHANGED <<broken, dropped>> /\ UNCHANGED pvars
    ELSE Bad(i, "C10: the definitions grouped under a module are not the valid definitions of that module")

EnterModule(e, i) ==
    IF pc = "run" /\ P!AllChecked /\ e.module \in P!ModulesLeft /\ (cur # "" => P!Pending(cur) = {})
    THEN IF <<e.tagging, e.extensibility>> = headers[e.module]
         THEN P!EnterModule(e.module) /\ UNCHANGED <<broken, dropped>>
         ELSE Bad(i, "C12: the backend generates a module under a tagging/extensibility environment that is not its own header's")
    ELSE Bad(i, "C10: a module is generated out of turn (before the previous one was finished, twice, or without definitions)")

Gen(e, i) ==
    LET cands == IF cur = "" THEN {} ELSE {d \in P!Pending(cur) : d.n = e.name} IN
    IF pc = "run" /\ cands # {}
    THEN LET d == CHOOSE d \in cands : TRUE IN
         IF e.outcome = "warning" /\ d.fault = "generate" THEN P!Gen(d) /\ UNCHANGED <<broken, dropped>>
         ELSE IF e.outcome = "item" /\ d.fault # "generate" /\ d.kind # "silent" THEN P!Gen(d) /\ UNCHANGED <<broken, dropped>>
         ELSE IF e.outcome = "empty" /\ d.kind = "silent" THEN P!Gen(d) /\ UNCHANGED <<broken, dropped>>
         ELSE IF e.outcome = "empty"
              THEN \* generated as nothing, without a warning: recorded, judged at return
                   /\ silent' = silent \cup {d} /\ dropped' = dropped \cup {d} /\ broken' = broken
                   /\ UNCHANGED <<pc, headers, order, input, parsed, lexed, ins, table, lost, checked, warned, cur, env, entered, out>>
              ELSE Bad(i, "C10: generation outcome contradicts the definition")
    ELSE Bad(i, "C10: a definition is generated that is not a pending valid definition of the current module")

(* ---- return: the invariants of Pipeline on the state the trace built ------- *)
Present(e, d) == \E j \in 1..Len(e.present) : e.present[j][1] = d.m /\ e.present[j][2] = d.n
Unaccounted(e) == {d \in SeqSet(parsed) : ~(  (d \in P!Generated /\ Present(e, d))
                                             \/ d \in warned
                                             \/ (d.kind = "silent" /\ d \in silent /\ d \notin dropped))}
\* D_C10_bare_name_map: the definition was overwritten in the name table by an equally named
\*   definition of another module;  D_C10_silent_drop: a VALUE definition was generated as nothing
\*   without a warning (value forms the generator has no arm for)
DevOf(d) == IF d \in lost THEN "D_C10_bare_name_map"
            ELSE IF d \in dropped /\ d.kind = "value" THEN "D_C10_silent_drop" ELSE "<none>"

Return(e, i) ==
    /\ IF broken THEN TRUE
       ELSE IF ~e.ok THEN Report(i, "SKIP", e.status)
       ELSE IF ~(pc = "run" /\ P!AllChecked /\ P!ModulesLeft = {} /\ (cur # "" => P!Pending(cur) = {}))
            THEN Report(i, "MISMATCH", "C10: compilation returned Ok before every valid definition was generated")
       ELSE IF e.nwarnings < Cardinality(warned)
            THEN Report(i, "MISMATCH", "C10: fewer warnings returned than definitions were rejected")
       ELSE \A d \in Unaccounted(e) :
              IF DevOf(d) \in KnownDevs THEN Report(i, "DEVIATION", DevOf(d))
              ELSE IF DevOf(d) # "<none>" THEN Report(i, "MISMATCH", "C10: definition " \o d.n \o " of " \o d.m \o " lost silently (" \o DevOf(d) \o ", not a listed known finding)")
              ELSE Report(i, "MISMATCH", "C10: definition " \o d.n \o " of " \o d.m \o " is neither generated under its name, nor warned about, nor of a silent category")
    /\ IF ~broken /\ e.ok /\ ~(\A o \in out : o[2] = headers[o[1].m])
       THEN Report(i, "MISMATCH", "C12: a definition was generated under another module's environment") ELSE TRUE
    /\ pc' = "done" /\ broken' = FALSE /\ dropped' = dropped
    /\ UNCHANGED <<headers, order, input, parsed, lexed, ins, table, lost, checked, warned, cur, env, entered, out, silent>>

Compare(e, i) ==
    /\ IF ~e.depends_on_fault /\ ~e.same
       THEN Report(i, "MISMATCH", "C10: a warning about one definition changed the bindings of a definition that does not depend on it")
       ELSE TRUE
    /\ UNCHANGED <<broken, dropped>> /\ UNCHANGED pvars

(* ---- C12: per-module comparisons made by the harness ------------------------ *)
\* D_C12_enumeral_lookup: a bare enumeral (value assignment or DEFAULT of an ENUMERATED type) is
\*   linked by searching the enumerated types of ALL modules, imported or not; the bindings of such
\*   a definition therefore depend on which other modules are compiled with it
ModCmp(e, i) ==
    /\ IF e.same THEN TRUE
       ELSE IF e.enum_sensitive
            THEN IF "D_C12_enumeral_lookup" \in KnownDevs THEN Report(i, "DEVIATION", "D_C12_enumeral_lookup")
                 ELSE Report(i, "MISMATCH", "C12: the bindings of an enumeral value change with the neighbouring modules (D_C12_enumeral_lookup, not a listed known finding)")
            \* D_C12_same_name_env (spec/Headers.tla, EnvFrom = "head"): definitions are grouped by the *name* of their module and the
            \* backend takes the environment of the group's first definition: of two modules that carry one module reference, one
            \* is generated under the other's defaults
            ELSE IF e.same_name
            THEN IF "D_C12_same_name_env" \in KnownDevs THEN Report(i, "DEVIATION", "D_C12_same_name_env")
                 ELSE Report(i, "MISMATCH", "C12: a module is generated under the defaults of another module of the same module reference (D_C12_same_name_env, not a listed known finding)")
            ELSE Report(i, "MISMATCH", "C12: the bindings of a module change with its neighbours: " \o e.ctx)
    /\ UNCHANGED <<broken, dropped>> /\ UNCHANGED pvars
\* each IMPORTS clause becomes a use declaration of exactly the imported symbols from the sibling module
Uses(e, i) ==
    /\ IF e.observed = e.expected THEN TRUE
       ELSE Report(i, "MISMATCH", "C12: use declarations are not exactly the imported symbols")
    /\ UNCHANGED <<broken, dropped>> /\ UNCHANGED pvars
QualRef(e, i) ==
    /\ IF e.found THEN TRUE
       ELSE Report(i, "MISMATCH", "C12: a module-qualified reference does not resolve to super::<module>::<Type>")
    /\ UNCHANGED <<broken, dropped>> /\ UNCHANGED pvars

Step ==
    /\ l <= Len(Rec)
    /\ l' = l + 1
    /\ LET e == Rec[l] IN
       CASE e.ev = "input"   -> Input(e, l)
         [] e.ev = "compare" -> Compare(e, l)
         [] e.ev = "modcmp"  -> ModCmp(e, l)
         [] e.ev = "uses"    -> Uses(e, l)
         [] e.ev = "qualref" -> QualRef(e, l)
         [] e.ev = "return"  -> Return(e, l)
         [] broken           -> UNCHANGED <<broken, dropped>> /\ UNCHANGED pvars
         [] e.ev = "lexed"   -> Lexed(e, l)
         [] e.ev = "insert"  -> Insert(e, l)
         [] e.ev = "validate" -> Validate(e, l)
         [] e.ev = "group"   -> Group(e, l)
         [] e.ev = "enter_module" -> EnterModule(e, l)
         [] e.ev = "gen"     -> Gen(e, l)
         [] OTHER            -> UNCHANGED <<broken, dropped>> /\ UNCHANGED pvars    \* deliver etc.: not part of this model

Spec == Init /\ [][Step]_<<l, broken, dropped, pvars>>

Accepted == AllConsumed
=============================================================================
