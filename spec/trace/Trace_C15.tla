------------------------------ MODULE Trace_C15 ------------------------------
(* Trace specification for C15: each event is one FROM expression compiled  *)
(* by the real compiler.  `obs` is the from(...) annotation expanded to the *)
(* set of atoms it covers completely; `partial` says some atom is covered   *)
(* only in part, `outside` that it names characters outside the base type.  *)
EXTENDS TraceLib, FiniteSets

CONSTANTS MaxOperands, MaxStrLen, KMTypes, OtherTypes, KnownDevs
VARIABLES l, os, ps, ty, sizepos, pos, phase

A == INSTANCE Alphabet

SeqSet(s) == {s[i] : i \in 1..Len(s)}
\* atoms that hold no character in the event's string type: they count neither as allowed nor as covered
Emp(e) == SeqSet(e.empty)

HasIncl(e) == \E i \in 1..Len(e.os) : e.os[i].k = "incl"
SameConstraint(e) == e.sizepos \in {"before", "after", "before_ext", "after_ext"}

(* ---- what the code is known to do instead ---------------------------------------------- *)
(* D_C15_flatten: inside FROM(...) the code adds up the alphabets of ALL operands,          *)
(*   whatever the operators: an intersection or EXCEPT behaves like a union.                *)
(* D_C15_incl_ignored: an operand that includes another constrained string type by          *)
(*   reference contributes nothing (as if its alphabet were empty); if nothing is left no   *)
(*   annotation is emitted.                                                                 *)
(* D_C15_fold_with_size: a FROM expression with several operands (or an inclusion) that is  *)
(*   intersected with SIZE inside ONE constraint goes through another fold                  *)
(*   (fold_constraint_set with a character set) which loses operands, the SIZE, or the      *)
(*   whole alphabet; no prediction is made for this input class.                            *)
DenDev(o, D) == IF o.k = "incl" /\ "D_C15_incl_ignored" \in D THEN {} ELSE A!Den(o)
FlatDev(e, D) == UNION {DenDev(e.os[i], D) : i \in 1..Len(e.os)}
FlattenClass(e) == \E i \in 1..Len(e.ps) : e.ps[i] \in {"i", "x"}
AllDevs == {"D_C15_flatten", "D_C15_incl_ignored", "D_C15_fold_with_size"}
Applicable(D, e) == /\ "D_C15_flatten" \in D => FlattenClass(e)
                    /\ "D_C15_incl_ignored" \in D => HasIncl(e)
                    /\ "D_C15_fold_with_size" \in D => (SameConstraint(e) /\ (Len(e.os) >= 2 \/ HasIncl(e)))
\* the set the code is predicted to emit under D (for D without fold_with_size)
Predicted(D, e) ==
    LET s == IF "D_C15_flatten" \in D \/ Len(e.os) = 1 \/ ~FlattenClass(e) THEN FlatDev(e, D) ELSE A!Allowed(e.os, e.ps)
    IN IF s = {} THEN A!Atoms ELSE s
Explains(D, e, obsset) ==
    /\ Applicable(D, e)
    /\ \/ "D_C15_fold_with_size" \in D
       \/ ~e.partial /\ ~e.outside /\ (e.sizepos # "none" => e.has_size) /\ obsset = Predicted(D, e) \ Emp(e)

Accept(e, obsset) ==
    IF A!HasExcept(e.ps)
    THEN (A!Allowed(e.os, e.ps) \ Emp(e)) \subseteq obsset /\ obsset \subseteq A!AllowedNoExcept(e.os, e.ps)
    ELSE obsset = A!Allowed(e.os, e.ps) \ Emp(e)

Why(e, obsset) ==
    IF e.outside THEN "annotation names characters outside the base type's alphabet"
    ELSE IF e.sizepos # "none" /\ ~e.has_size THEN "SIZE constraint combined with FROM was lost"
    ELSE IF ~((A!Allowed(e.os, e.ps) \ Emp(e)) \subseteq obsset) THEN "annotation omits characters the FROM constraint allows"
    ELSE "annotation does not denote exactly the FROM constraint"

JudgeBody(e, i) ==
    IF e.status \in {"err", "warn"} THEN Report(i, "SKIP", e.status)
    ELSE IF e.status # "ok" THEN Report(i, "MISMATCH", "no item generated for the type")
    ELSE IF e.ty \notin KMTypes THEN
         IF e.has_from THEN Report(i, "MISMATCH", "alphabet annotation on a string type that is not known-multiplier") ELSE TRUE
    ELSE IF A!Allowed(e.os, e.ps) \ Emp(e) = {} THEN Report(i, "SKIP", "empty alphabet (not legal ASN.1)")
    ELSE
      \* no annotation = the whole base alphabet
      LET obsset == (IF e.has_from THEN SeqSet(e.obs) ELSE A!Atoms) \ Emp(e)
          ok == ~e.outside /\ ~e.partial /\ (e.sizepos # "none" => e.has_size) /\ Accept(e, obsset)
          expl == {D \in SUBSET AllDevs : D # {} /\ Explains(D, e, obsset)}
      IN
      IF ok THEN TRUE
      ELSE IF expl # {} THEN
           LET D == CHOOSE D \in expl : \A D2 \in expl : Cardinality(D) <= Cardinality(D2)
           IN \A d \in D : IF d \in KnownDevs THEN Report(i, "DEVIATION", d)
                           ELSE Report(i, "MISMATCH", Why(e, obsset) \o " (as deviation " \o d \o ", not a listed known finding)")
      ELSE Report(i, "MISMATCH", Why(e, obsset))

\* D_C15_range_spans_gap: a range whose bounds lie in the base alphabet but which, in code-point order, passes over characters
\* that are not in it (PrintableString "A".."z" passes over [ \ ] ^ _ `) is emitted as that code-point range; the range of the
\* constraint is the characters of the type between the bounds (X.680 51.4.3).  The rest of the event is judged as if the
\* annotation stayed inside the base alphabet.
Judge(e, i) ==
    LET gap == e.status = "ok" /\ e.outside /\ \E j \in DOMAIN e.os : A!IsRange(e.os[j]) IN
    /\ gap => (IF "D_C15_range_spans_gap" \in KnownDevs THEN Report(i, "DEVIATION", "D_C15_range_spans_gap")
               ELSE Report(i, "MISMATCH", "annotation names characters outside the base type's alphabet (as deviation D_C15_range_spans_gap, not a listed known finding)"))
    /\ JudgeBody([e EXCEPT !.outside = e.outside /\ ~gap], i)

Init == l = 1 /\ A!Init

Step == /\ l <= Len(Rec)
        /\ Rec[l].ev = "alpha"
        /\ Judge(Rec[l], l)
        /\ l' = l + 1
        /\ UNCHANGED <<os, ps, ty, sizepos, pos, phase>>

Spec == Init /\ [][Step]_<<l, os, ps, ty, sizepos, pos, phase>>

Accepted == AllConsumed
=============================================================================
