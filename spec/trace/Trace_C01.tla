------------------------------ MODULE Trace_C01 ------------------------------
(* Trace specification for C01.  One typecheck event per compilation: the     *)
(* compiler's status and, for warning-free ones, whether the output parses as *)
(* Rust and what `cargo check` against the real rasn crate says about it.     *)
EXTENDS TraceLib, FiniteSets

CONSTANT KnownDevs
VARIABLES l

Dev(i, d, what) == IF d \in KnownDevs THEN Report(i, "DEVIATION", d)
                   ELSE Report(i, "MISMATCH", what \o " (deviation " \o d \o ", not a listed known finding)")

Judge(e, i) ==
    IF e.status # "ok" THEN Report(i, "SKIP", e.status)            \* Err, panic or warnings: the property does not apply
    ELSE IF e.parsed /\ ~e.submitted THEN Report(i, "SKIP", "contains an item with the shape of " \o e.quarantined_for \o ", whose derive output stops rustc; not among the files checked alone")
    ELSE IF ~e.parsed THEN Report(i, "MISMATCH", "warning-free output does not parse as Rust items: " \o e.detail)
    ELSE IF ~e.rustc_ok /\ e.unexplained # <<>> THEN Report(i, "MISMATCH", "warning-free output does not type-check: " \o e.unexplained[1])
    \* every rustc error of the case carries the signature (error text and item shape) of a recorded finding
    ELSE IF ~e.rustc_ok /\ e.explained_by # <<>> THEN Dev(i, e.explained_by[1], "warning-free output does not type-check")
    ELSE IF ~e.rustc_ok THEN Report(i, "MISMATCH", "warning-free output does not type-check: " \o e.rustc_errors[1])
    ELSE TRUE

Init == l = 1
Step == /\ l <= Len(Rec)
        /\ Judge(Rec[l], l)
        /\ l' = l + 1
Spec == Init /\ [][Step]_l
Accepted == AllConsumed
=============================================================================
