------------------------------ MODULE Trace_C17 ------------------------------
(* Trace specification for C17: each event is one corrupted document handed  *)
(* to the real compiler (as a literal or as a file) and, if parsing failed,   *)
(* the position it reported in the three renderings.                          *)
EXTENDS TraceLib, FiniteSets

CONSTANTS MaxDoc, KnownDevs, OffsetUnit
VARIABLES l, doc, pos, offset, line, phase

E == INSTANCE ErrorPos

Judge(e, i) ==
    IF e.status = "ok" THEN Report(i, "SKIP", "the corrupted document is still valid")
    ELSE IF e.status = "panic" THEN Report(i, "SKIP", "panic (property C08)")
    ELSE IF e.status # "lexer" THEN Report(i, "SKIP", "not a syntax error: " \o e.status)
    ELSE
      CASE ~(0 <= e.offset /\ e.offset <= e.len) -> Report(i, "MISMATCH", "reported offset lies outside the input")
        [] e.line # 1 + e.lf_before -> Report(i, "MISMATCH", "reported line is not one plus the number of line breaks before the offset")
        [] e.offset < e.lower -> Report(i, "MISMATCH", "reported position lies before the first token of the malformed assignment")
        [] e.offset > e.upper -> Report(i, "MISMATCH", "reported position lies after the first character that cannot continue any notation")
        [] e.display_line # e.line -> Report(i, "MISMATCH", "Display names another line than the structured report")
        [] ~e.ctx_panicked /\ e.ctx_line # e.line -> Report(i, "MISMATCH", "contextualize marks another line than the structured report")
        [] ~e.ctx_panicked /\ ~e.ctx_text_same -> Report(i, "MISMATCH", "contextualize marks a row that does not show the text of the reported line")
        [] e.is_file /\ e.src_file = "" -> Report(i, "MISMATCH", "source path is not reported for a file source")
        [] ~e.is_file /\ e.src_file # "" -> Report(i, "MISMATCH", "a source path is reported for a literal source")
        [] OTHER -> TRUE

Init == l = 1 /\ E!Init
Step == /\ l <= Len(Rec) /\ Judge(Rec[l], l) /\ l' = l + 1 /\ UNCHANGED <<doc, pos, offset, line, phase>>
Spec == Init /\ [][Step]_<<l, doc, pos, offset, line, phase>>
Accepted == AllConsumed
=============================================================================
