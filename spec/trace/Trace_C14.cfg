SPECIFICATION Spec
CONSTANTS
  MaxRoot = 8
  MaxExt = 8
  Nums = {}
POSTCONDITION Accepted
CHECK_DEADLOCK FALSE
