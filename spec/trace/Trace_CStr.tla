------------------------------ MODULE Trace_CStr ------------------------------
(* Trace specification for the cstring family (spec/CString.tla), shared by C15 and C07.            *)
(* One event per spelling: the spelling was compiled as the single string of a FROM constraint      *)
(* (`alpha`: the characters the emitted alphabet annotation names), as a character string value     *)
(* (`value`) and as a DEFAULT (`dflt`).  Aspect selects what is judged: "alphabet" for C15, "value"  *)
(* for C07.  Every spelling is a legal cstring, so a compilation that answers Err or a warning is a *)
(* mismatch, not a skip.                                                                            *)
EXTENDS TraceLib, FiniteSets

CONSTANTS Aspect, MaxLen
VARIABLES l, w, out, pend, afterNL, phase

C == INSTANCE CString

SeqSet(s) == {s[i] : i \in 1..Len(s)}

JudgeAlphabet(e, i) ==
    IF e.empty THEN TRUE      \* FROM ("") is not legal notation: not written, nothing to judge
    ELSE IF ~e.alpha_has THEN Report(i, "MISMATCH", "no alphabet annotation for a FROM constraint with a single string")
    ELSE IF SeqSet(e.alpha) = C!Alphabet(e.syms) THEN TRUE
    ELSE IF \E x \in C!Alphabet(e.syms) : x \notin SeqSet(e.alpha)
         THEN Report(i, "MISMATCH", "annotation omits characters of the FROM string (X.680 12.14.1): from(" \o e.raw \o ")")
    ELSE Report(i, "MISMATCH", "annotation names characters that are not part of the FROM string (X.680 12.14.1: end of line and the spacing next to it): from(" \o e.raw \o ")")

JudgeValue(e, i, what, obs) ==
    IF obs.k = "str" /\ obs.v = C!Denote(e.syms) THEN TRUE
    ELSE Report(i, "MISMATCH", "the " \o what \o " does not denote the character string of the notation (X.680 12.14.1): " \o ToJson(obs))

Judge(e, i) ==
    IF e.status # "ok" THEN Report(i, "MISMATCH", "a legal character string item is not compiled: " \o e.status \o " " \o e.detail)
    ELSE IF Aspect = "alphabet" THEN JudgeAlphabet(e, i)
    ELSE JudgeValue(e, i, "value assignment", e.value) /\ JudgeValue(e, i, "DEFAULT", e.dflt)

Init == l = 1 /\ C!Init
Step == /\ l <= Len(Rec)
        /\ Rec[l].ev = "cstr"
        /\ Judge(Rec[l], l)
        /\ l' = l + 1
        /\ UNCHANGED <<w, out, pend, afterNL, phase>>
Spec == Init /\ [][Step]_<<l, w, out, pend, afterNL, phase>>
Accepted == AllConsumed
=============================================================================
