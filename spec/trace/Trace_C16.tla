------------------------------ MODULE Trace_C16 ------------------------------
(* Trace specification for C16: each event is one ASN.1 name compiled in    *)
(* one role; the generated Rust identifier (and its identifier annotation)  *)
(* must be Legal in the sense of Idents.                                    *)
EXTENDS TraceLib, FiniteSets

CONSTANTS MaxLen, Alphabet, KeywordSample, KnownDevs
VARIABLES l, name, kw, spell, role, phase

I == INSTANCE Idents

Why(e) ==
    IF ~I!RustIdent(e.rust_chars, e.rust) THEN "not a legal non-keyword Rust identifier"
    ELSE IF ~I!CaseRule(e.role, e.rust_chars) THEN "identifier does not follow the case rule of its role"
    ELSE IF ~I!Recoverable(e.asn_chars, e.rust_chars) THEN "ASN.1 name is not recoverable from the identifier"
    ELSE "identifier differs from the ASN.1 name but the identifier annotation is missing or wrong"

Judge(e, i) ==
    IF e.status \in {"err", "warn"} THEN Report(i, "SKIP", e.status)
    ELSE IF ~e.parsed_ok THEN Report(i, "MISMATCH", "generated text does not parse as Rust (illegal identifier)")
    ELSE IF e.status # "ok" THEN Report(i, "MISMATCH", "no item generated for the definition")
    ELSE IF I!Legal(e.role, e.asn_chars, e.rust_chars, e.rust, e.has_annot, e.annot, e.asn) THEN TRUE
    ELSE Report(i, "MISMATCH", Why(e))

Init == l = 1 /\ I!Init

Step == /\ l <= Len(Rec)
        /\ Rec[l].ev = "ident"
        /\ Judge(Rec[l], l)
        /\ l' = l + 1
        /\ UNCHANGED <<name, kw, spell, role, phase>>

Spec == Init /\ [][Step]_<<l, name, kw, spell, role, phase>>

Accepted == AllConsumed
=============================================================================
