------------------------------ MODULE Trace_C16 ------------------------------
(* Trace specification for C16: each event is one ASN.1 name compiled in    *)
(* one role; the generated Rust identifier (and its identifier annotation)  *)
(* must be Legal in the sense of Idents.                                    *)
EXTENDS TraceLib, FiniteSets

CONSTANTS MaxLen, Alphabet, KeywordSample, KnownDevs
VARIABLES l, name, kw, spell, role, phase

I == INSTANCE Idents

Why(e) ==
    IF ~I!RustIdent(e.rust_chars, e.rust) THEN "not a legal non-keyword Rust identifier"
    ELSE IF ~I!CaseRule(e.role, e.rust_chars) THEN "identifier does not follow the case rule of its role"
    ELSE IF ~I!ExactCase(e.role, e.asn_chars, e.rust_chars) THEN "identifier is not the snake-case form of the ASN.1 name (a word boundary is lost or invented)"
    ELSE IF ~I!Recoverable(e.asn_chars, e.rust_chars) THEN "ASN.1 name is not recoverable from the identifier"
    ELSE "identifier differs from the ASN.1 name but the identifier annotation is missing or wrong"

Judge(e, i) ==
    IF e.status \in {"err", "warn"} THEN Report(i, "SKIP", e.status)
    ELSE IF ~e.parsed_ok THEN Report(i, "MISMATCH", "generated text does not parse as Rust (illegal identifier)")
    ELSE IF e.status # "ok" THEN Report(i, "MISMATCH", "no item generated for the definition")
    ELSE IF I!Legal(e.role, e.asn_chars, e.rust_chars, e.rust, e.has_annot, e.annot, e.asn) THEN TRUE
    ELSE Report(i, "MISMATCH", Why(e))

\* derived identifiers (inner type items, default functions, payload types of From impls): every identifier of the output is a
\* legal non-keyword Rust identifier, and the item of the anonymous inner type carries the name it is derived from
RECURSIVE Contains(_, _)
Contains(s, t) == IF Len(t) > Len(s) THEN FALSE
                  ELSE IF SubSeq(s, 1, Len(t)) = t THEN TRUE ELSE Contains(Tail(s), t)
JudgeDerived(e, i) ==
    IF e.status \in {"err", "warn"} THEN Report(i, "SKIP", e.status)
    ELSE IF e.status # "ok" THEN Report(i, "MISMATCH", "the name used as parent / member of an anonymous inner type, with From impls: " \o e.status \o " " \o e.detail)
    ELSE IF ~e.parsed_ok THEN Report(i, "MISMATCH", "generated text does not parse as Rust (illegal derived identifier)")
    ELSE IF \E k \in 1..Len(e.idents) : ~I!RustIdent(e.idents[k].c, e.idents[k].s)
         THEN Report(i, "MISMATCH", "a derived identifier is not a legal non-keyword Rust identifier")
    ELSE IF Len(e.inner) = 0 THEN Report(i, "MISMATCH", "no item for the anonymous inner type")
    ELSE IF \E k \in 1..Len(e.inner) : ~Contains(I!Norm(e.inner[k]), I!Norm(e.asn_chars))
         THEN Report(i, "MISMATCH", "the item of the anonymous inner type does not carry the ASN.1 name it is derived from")
    ELSE TRUE

Init == l = 1 /\ I!Init

Step == /\ l <= Len(Rec)
        /\ IF Rec[l].ev = "derived" THEN JudgeDerived(Rec[l], l) ELSE Judge(Rec[l], l)
        /\ l' = l + 1
        /\ UNCHANGED <<name, kw, spell, role, phase>>

Spec == Init /\ [][Step]_<<l, name, kw, spell, role, phase>>

Accepted == AllConsumed
=============================================================================
