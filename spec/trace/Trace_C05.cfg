SPECIFICATION Spec
CONSTANTS
  MaxRoot = 99
  MaxAdd = 99
  MaxGroups = 99
POSTCONDITION Accepted
CHECK_DEADLOCK FALSE
