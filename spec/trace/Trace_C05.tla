------------------------------ MODULE Trace_C05 ------------------------------
(* Trace specification for C05: each event is one extensible-type layout    *)
(* compiled by the real compiler; the observed members (role, component     *)
(* names, optionality of group members), the non_exhaustive marking and the *)
(* IR extension index must be what Ext prescribes.                          *)
EXTENDS TraceLib, FiniteSets

CONSTANTS MaxRoot, MaxAdd, MaxGroups
VARIABLES l, kind, implied, nested, layout, members, marker, ingroup, count, phase

X == INSTANCE Ext

Roles(ms) == [i \in 1..Len(ms) |-> ms[i].role]
Names(ms) == [i \in 1..Len(ms) |-> ms[i].names]
HasGroup(lay) == \E i \in 1..Len(lay) : lay[i].t = "g"

Judge(e, i) ==
    IF e.status \in {"err", "warn"} THEN Report(i, "SKIP", e.status)
    ELSE IF e.status # "ok" THEN Report(i, "MISMATCH", "no item generated for the type: " \o e.status)
    ELSE
      LET exp == X!Expected(e.kind, e.layout)
          ext == X!HasMarker(e.layout) \/ e.implied
          expIdx == IF X!HasMarker(e.layout) THEN X!RootCount(e.layout) ELSE -1
      IN
      CASE e.non_exhaustive # ext ->
             Report(i, "MISMATCH", "generated as extensible iff marker or EXTENSIBILITY IMPLIED is violated")
        [] X!Flatten(e.obs) # X!Flatten(exp) ->
             Report(i, "MISMATCH", "components added, dropped, duplicated or reordered")
        [] Roles(e.obs) # Roles(exp) ->
             Report(i, "MISMATCH", "wrong members marked as root / extension addition / addition group")
        [] Names(e.obs) # Names(exp) ->
             Report(i, "MISMATCH", "an addition group does not contain exactly its components in order")
        [] \E j \in 1..Len(exp) : exp[j].role = "group" /\ ~ e.obs[j].opt ->
             Report(i, "MISMATCH", "extension addition group member is not optional")
        [] e.ir_ext # expIdx ->
             Report(i, "MISMATCH", "IR extension index differs from the number of root components")
        [] OTHER -> TRUE

Init == l = 1 /\ X!Init

Step == /\ l <= Len(Rec)
        /\ Rec[l].ev = "ext"
        /\ Judge(Rec[l], l)
        /\ l' = l + 1
        /\ UNCHANGED <<kind, implied, nested, layout, members, marker, ingroup, count, phase>>

Spec == Init /\ [][Step]_<<l, kind, implied, nested, layout, members, marker, ingroup, count, phase>>

Accepted == AllConsumed
=============================================================================
