------------------------------ MODULE Trace_C14 ------------------------------
(* Trace specification for C14: each event is one ENUMERATED type compiled *)
(* by the real compiler; the observed numbering must be one EnumNum allows. *)
EXTENDS TraceLib, FiniteSets

CONSTANTS MaxRoot, MaxExt, Nums
VARIABLES l, root, ext, marker, phase, out

E == INSTANCE EnumNum

\* ---- deviations (what the code is known to do instead), each guarded by its input class
\* none at present: the positional-numbering defect was repaired (known_findings.json, fixed)

Judge(e, i) ==
    IF e.status # "ok" THEN Report(i, "SKIP", e.status)
    ELSE
      LET all == e.root \o e.ext IN
      CASE Len(e.discs) # Len(all) -> Report(i, "MISMATCH", "number of generated variants differs from number of enumerals")
        [] ~ E!Conforms(e.root, e.ext, e.discs) -> Report(i, "MISMATCH", "discriminants are not the X.680 clause 20 numbers")
        [] e.ir # e.discs -> Report(i, "MISMATCH", "IR index differs from generated discriminant")
        [] e.out_ids # e.src_ids -> Report(i, "MISMATCH", "enumeral identifiers not preserved in order")
        [] OTHER -> TRUE

\* The event is also a behaviour of EnumNum: replay its build actions, then Number.
Init == l = 1 /\ E!Init

Step == /\ l <= Len(Rec)
        /\ Rec[l].ev = "enum"
        /\ Judge(Rec[l], l)
        /\ l' = l + 1
        /\ UNCHANGED <<root, ext, marker, phase, out>>

Spec == Init /\ [][Step]_<<l, root, ext, marker, phase, out>>

Accepted == AllConsumed
=============================================================================
