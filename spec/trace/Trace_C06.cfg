SPECIFICATION Spec
CONSTANT Ops = {}
POSTCONDITION Accepted
CHECK_DEADLOCK FALSE
