------------------------------ MODULE Trace_C09 ------------------------------
(* Trace specification for C09.                                             *)
(*  compof events: one SEQUENCE definition of a Linker.tla case, compiled   *)
(*    as written (COMPONENTS OF) and hand-expanded.  The component list of  *)
(*    the sugared compilation must be the model's Expand; where it is not,  *)
(*    it must be exactly what the algorithm model predicts and the          *)
(*    definition must lie in one of the two deviation classes.              *)
(*  sugar events: one definition of the other notations (parameterized      *)
(*    type, selection type, class field type, value reference), compiled    *)
(*    both ways; the bindings must be identical.                            *)
EXTENDS TraceLib, FiniteSets

CONSTANT KnownDevs
VARIABLE l

Dev(i, d, what) == IF d \in KnownDevs THEN Report(i, "DEVIATION", d)
                   ELSE Report(i, "MISMATCH", what \o " (deviation " \o d \o ", not a listed known finding)")

CompOf(e, i) ==
    IF e.expanded_status # "ok" THEN Report(i, "SKIP", "expanded form rejected: " \o e.expanded_status)
    ELSE IF e.expanded # e.expected THEN Report(i, "MISMATCH", "harness: the hand-expanded module does not have the expected components")
    ELSE IF e.sugared_status \in {"err", "warn"} THEN Report(i, "SKIP", e.sugared_status)
    ELSE IF e.sugared = e.expected THEN
         IF e.same_items THEN TRUE
         ELSE Report(i, "MISMATCH", "a component taken over by COMPONENTS OF differs from the hand-expanded one (constraint / value reference not resolved)")
    ELSE IF e.sugared = e.predicted /\ (e.orderclass \/ e.positionclass)
         THEN /\ (e.positionclass => Dev(i, "D_C09_compof_position", "COMPONENTS OF is not expanded in place"))
              /\ ((e.orderclass /\ ~e.positionclass) => Dev(i, "D_C09_compof_order", "COMPONENTS OF of a type that itself uses COMPONENTS OF depends on the spelling of the names"))
    ELSE Report(i, "MISMATCH", "COMPONENTS OF does not compile like its hand-expanded form")

\* D_C09_selection: a selection type  alt < Choice  is replaced by a copy of the whole CHOICE
Sugar(e, i) ==
    IF e.expanded_status # "ok" THEN Report(i, "SKIP", "expanded form rejected: " \o e.expanded_status)
    ELSE IF e.sugared_status \in {"err", "warn"} THEN Report(i, "SKIP", e.sugared_status)
    ELSE IF e.same /\ e.sugared_items > 0 THEN TRUE
    ELSE IF e.fam = "select" /\ e.sugared_kind = "enum" THEN Dev(i, "D_C09_selection", "a selection type is generated as a copy of the whole CHOICE")
    \* D_C09_default_of_referenced_type: the DEFAULT literal of a component whose type is a reference to an INTEGER constrained
    \* through a value reference is linked before that constraint is resolved when the referenced type sorts before its user
    ELSE IF e.fam = "valref" /\ e.where = "reftype_default" /\ e.early
         THEN Dev(i, "D_C09_default_of_referenced_type", "a DEFAULT literal is typed against a referenced type whose constraint is not resolved yet")
    \* argument forms of parameterized types, each guarded by the form (and the order of names) it is known for
    ELSE IF e.fam = "paramarg" /\ e.form = "actual_valref" THEN Dev(i, "D_C09_actual_valref", "a value reference as actual parameter is not resolved")
    ELSE IF e.fam = "paramarg" /\ e.form = "dummy_shadow" /\ ~e.early THEN Dev(i, "D_C09_dummy_shadow", "a value assignment spelled like a dummy is taken for it")
    ELSE IF e.fam = "paramarg" /\ e.form = "dummy_constrained" THEN Dev(i, "D_C09_dummy_constrained", "the constraint on a type dummy is dropped")
    ELSE IF e.fam = "paramarg" /\ e.form = "forward" /\ e.early THEN Dev(i, "D_C09_forward", "dummies handed on to a second template stay unresolved")
    ELSE Report(i, "MISMATCH", "a notation defined by expansion (" \o e.fam \o ") does not compile like its hand-expanded form")

Init == l = 1
Step == /\ l <= Len(Rec)
        /\ IF Rec[l].ev = "compof" THEN CompOf(Rec[l], l) ELSE Sugar(Rec[l], l)
        /\ l' = l + 1
Spec == Init /\ [][Step]_l
Accepted == AllConsumed
=============================================================================
