------------------------------- MODULE Linker -------------------------------
(***************************************************************************)
(* COMPONENTS OF and the single-pass linker (property C09).                *)
(*                                                                         *)
(* N SEQUENCE definitions.  Definition d has own[d] components of its own  *)
(* (named by the pair <<d, i>>) and optionally "COMPONENTS OF ref[d]"      *)
(* written after its first pos[d] own components.  The names of the        *)
(* definitions are given by rank: rank[d] < rank[e] iff d's name sorts     *)
(* before e's.                                                             *)
(*                                                                         *)
(*   Expand(d)   X.680 25.5: the meaning -- COMPONENTS OF is replaced, in  *)
(*               place, by the (expanded) root components of the type it   *)
(*               refers to.  Independent of names by construction.         *)
(*                                                                         *)
(*   The algorithm of the code (rasn-compiler/src/validator/mod.rs link):  *)
(*   the definitions are put on a stack in ascending name order and popped *)
(*   from the end; the pass for a definition copies the members the        *)
(*   referenced definition has AT THAT MOMENT and APPENDS them.  Modelled  *)
(*   action by action (Pop).                                               *)
(*                                                                         *)
(* TLC runs the algorithm for every topology and every name order and      *)
(* compares it with Expand: they differ exactly on two input classes       *)
(*   OrderClass     d refers to e, e itself uses COMPONENTS OF, and e's    *)
(*                  name sorts before d's (e is expanded after d copied)   *)
(*   PositionClass  COMPONENTS OF is not the last entry of d's list        *)
(* which are the deviations D_C09_compof_order / D_C09_compof_position;    *)
(* `members` is then the predicted wrong answer.                           *)
(***************************************************************************)
EXTENDS Integers, Sequences, FiniteSets

CONSTANTS N, MaxOwn,
          Recursive   \* TRUE: the pass first resolves the referenced definition's own COMPONENTS OF (the
                      \* repaired algorithm); FALSE: it copies the members as they are at that moment
                      \* (the algorithm before the repair, kept as deviation model D_C09_compof_order)

Ds == 1..N

VARIABLES own, ref, pos, rank,     \* the input
          phase,                   \* "own" | "ref" | "rank" | "link" | "done"
          cur,                     \* build phases: the definition being configured
          stack,                   \* link phase: definitions still to be processed (popped from the end)
          members                  \* link phase: the current member list of every definition
vars == <<own, ref, pos, rank, phase, cur, stack, members>>

OwnComps(d, from, to) == [i \in 1..(to - from + 1) |-> <<d, from + i - 1>>]

Init == /\ own = [d \in Ds |-> 0] /\ ref = [d \in Ds |-> 0] /\ pos = [d \in Ds |-> 0]
        /\ rank = [d \in Ds |-> d] /\ phase = "own" /\ cur = 1 /\ stack = <<>> /\ members = [d \in Ds |-> <<>>]

PickOwn(n) == /\ phase = "own" /\ n \in 0..MaxOwn
              /\ own' = [own EXCEPT ![cur] = n]
              /\ IF cur = N THEN phase' = "ref" /\ cur' = 1 ELSE cur' = cur + 1 /\ UNCHANGED phase
              /\ UNCHANGED <<ref, pos, rank, stack, members>>

\* no cycle of COMPONENTS OF (illegal ASN.1): the new edge cur -> t must not close one
RECURSIVE Reaches(_, _, _, _)
Reaches(r, a, b, n) == IF a = 0 \/ n = 0 THEN FALSE ELSE IF a = b THEN TRUE ELSE Reaches(r, r[a], b, n - 1)
PickRef(t, p) == /\ phase = "ref" /\ t \in 0..N /\ t # cur
                 /\ t # 0 => ~Reaches(ref, t, cur, N)
                 /\ IF t = 0 THEN p = 0 ELSE p \in 0..own[cur]
                 /\ ref' = [ref EXCEPT ![cur] = t] /\ pos' = [pos EXCEPT ![cur] = p]
                 /\ IF cur = N THEN phase' = "rank" ELSE cur' = cur + 1 /\ UNCHANGED phase
                 /\ IF cur = N THEN cur' = 1 ELSE TRUE
                 /\ UNCHANGED <<own, rank, stack, members>>

Perms == {f \in [Ds -> Ds] : \A a, b \in Ds : a # b => f[a] # f[b]}
ByRank(rk) == [i \in Ds |-> CHOOSE d \in Ds : rk[d] = i]     \* definitions in ascending name order
PickRank(rk) == /\ phase = "rank" /\ rk \in Perms
                /\ rank' = rk /\ phase' = "link"
                /\ stack' = ByRank(rk)
                /\ members' = [d \in Ds |-> OwnComps(d, 1, own[d])]
                /\ UNCHANGED <<own, ref, pos, cur>>

\* one iteration of the linker loop: pop the key that sorts last; if the definition uses
\* COMPONENTS OF, append the members the referenced definition has right now
\* what the pass sees of definition e: its current members; in the repaired algorithm a definition
\* that is still on the stack is resolved on the fly (on a copy)
RECURSIVE Seen(_, _)
Seen(e, n) == IF ~Recursive \/ n = 0 \/ ref[e] = 0 \/ ~(\E i \in 1..Len(stack) : stack[i] = e) THEN members[e]
              ELSE members[e] \o Seen(ref[e], n - 1)
Pop == /\ phase = "link" /\ stack # <<>>
       /\ LET d == stack[Len(stack)] IN
          members' = IF ref[d] = 0 THEN members
                     ELSE [members EXCEPT ![d] = @ \o (IF ref[d] = d THEN <<>> ELSE Seen(ref[d], N))]
       /\ stack' = SubSeq(stack, 1, Len(stack) - 1)
       /\ UNCHANGED <<own, ref, pos, rank, phase, cur>>
Finish == /\ phase = "link" /\ stack = <<>> /\ phase' = "done"
          /\ UNCHANGED <<own, ref, pos, rank, cur, stack, members>>

Next == (\E n \in 0..MaxOwn : PickOwn(n)) \/ (\E t \in 0..N, p \in 0..MaxOwn : PickRef(t, p))
        \/ (\E rk \in Perms : PickRank(rk)) \/ Pop \/ Finish
Spec == Init /\ [][Next]_vars

Done == phase = "done"

\* ---- the meaning -----------------------------------------------------------
RECURSIVE ExpandN(_, _)
ExpandN(d, n) == IF n = 0 THEN <<>>     \* unreachable for acyclic ref
                 ELSE IF ref[d] = 0 THEN OwnComps(d, 1, own[d])
                 ELSE OwnComps(d, 1, pos[d]) \o ExpandN(ref[d], n - 1) \o OwnComps(d, pos[d] + 1, own[d])
Expand(d) == ExpandN(d, N)

\* ---- where algorithm and meaning part ---------------------------------------
\* the position of COMPONENTS OF matters for d, or for a definition whose members d takes over
RECURSIVE PositionClassN(_, _)
PositionClassN(d, n) == n > 0 /\ ref[d] # 0 /\ (pos[d] < own[d] \/ PositionClassN(ref[d], n - 1))
PositionClass(d) == PositionClassN(d, N)
\* somewhere along d's chain a definition is copied before its own COMPONENTS OF was expanded
RECURSIVE OrderClassN(_, _)
OrderClassN(d, n) == n > 0 /\ ref[d] # 0 /\ ((ref[ref[d]] # 0 /\ rank[ref[d]] < rank[d]) \/ OrderClassN(ref[d], n - 1))
OrderClass(d) == ~Recursive /\ OrderClassN(d, N)

AgreeOutsideClasses == Done => \A d \in Ds : (~PositionClass(d) /\ ~OrderClass(d)) => members[d] = Expand(d)
\* the algorithm never invents or duplicates a component: it yields a sub-multiset of the meaning
NoInvention == Done => \A d \in Ds : \A i \in 1..Len(members[d]) : \E j \in 1..Len(Expand(d)) : Expand(d)[j] = members[d][i]
\* the result does not depend on the names: it equals the result of the append-at-the-end reading,
\* which does not mention rank (holds for the repaired algorithm, refuted for the old one)
RECURSIVE AppendN(_, _)
AppendN(d, n) == IF n = 0 THEN <<>> ELSE IF ref[d] = 0 THEN OwnComps(d, 1, own[d]) ELSE OwnComps(d, 1, own[d]) \o AppendN(ref[d], n - 1)
NameIndependent == Done => \A d \in Ds : members[d] = AppendN(d, N)
TypeOK == phase \in {"own", "ref", "rank", "link", "done"}
=============================================================================
