------------------------------ MODULE TraceLib ------------------------------
(***************************************************************************)
(* Shared machinery of all trace specifications.                           *)
(*                                                                         *)
(* The trace is an NDJSON file (one event per line) named by the           *)
(* environment variable TRACE.  A trace specification consumes one event   *)
(* per step; `l` is the position of the next event.  A trace is accepted   *)
(* iff every line was consumed (POSTCONDITION AllConsumed).  A step never  *)
(* blocks on a non-conforming event: it reports it and goes on, so that    *)
(* the rest of the trace is still examined:                                *)
(*    <<"VERDICT", l, "MISMATCH", why>>      the specification does not    *)
(*                                           allow the event               *)
(*    <<"VERDICT", l, "DEVIATION", d>>       the event is explained by the *)
(*                                           named deviation d only        *)
(*    <<"VERDICT", l, "SKIP", why>>          the compiler produced no      *)
(*                                           bindings to judge (Err or     *)
(*                                           warning): counted, not judged *)
(***************************************************************************)
EXTENDS Integers, Sequences, TLC, Json, IOUtils

Rec == ndJsonDeserialize(IOEnv.TRACE)

\* (printed as one JSON string: TLC breaks long tuples over several lines)
Report(l, kind, what) == PrintT(<<"VERDICT", ToJson([l |-> l, kind |-> kind, what |-> what])>>)

Has(r, f) == f \in DOMAIN r

\* one state per consumed line plus the initial state
AllConsumed ==
    IF TLCGet("stats").diameter - 1 = Len(Rec) THEN PrintT(<<"CONSUMED", Len(Rec)>>)
    ELSE PrintT(<<"STUCK", TLCGet("stats").diameter>>) /\ FALSE
=============================================================================
