------------------------------ MODULE Histories ------------------------------
(***************************************************************************)
(* State that outlives a compilation (property C11: "... repeating a       *)
(* compilation, running it on another thread or after other compilations   *)
(* in the same process ... all give byte-identical bindings").             *)
(*                                                                         *)
(* A process runs compilations one after the other, on one of two threads. *)
(* Each input needs a resource in one of two flavours (the code-point      *)
(* table of BMPString vs. UniversalString alphabets, a memo of resolved    *)
(* names, ...) or none.  Where the resource lives is the design:           *)
(*    "per_call"       built for every compilation (the code)              *)
(*    "thread_memo"    kept per thread, overwritten by the next user       *)
(*                     (C11-m3 / m4 / C04-m6: stale entries of the last    *)
(*                     compilation on this thread)                         *)
(*    "process_once"   built once per process by whoever asks first        *)
(*                     (C11-m7)                                            *)
(* The output of a compilation is the flavour it actually worked with.     *)
(* OutIsFunctionOfInput: it is the flavour the input needs.  For           *)
(* "process_once" every compilation inside one process agrees with the     *)
(* first user, so repeating an input inside a process shows nothing        *)
(* (RepeatAgrees holds): only a different history does -- which is why the *)
(* harness runs the histories in fresh processes.                          *)
(***************************************************************************)
EXTENDS Integers, Sequences, FiniteSets

CONSTANTS Design, MaxRuns

Inputs == {"bmp", "uni", "none"}
Threads == {1, 2}
Need(x) == x          \* the flavour an input needs ("none": no resource, output "none")

VARIABLES cell,       \* process_once: "unset" or the flavour fixed by the first user
          memo,       \* thread_memo: per thread, the flavour left behind
          runs        \* the history: sequence of [input, thread, out]
vars == <<cell, memo, runs>>

Init == cell = "unset" /\ memo = [t \in Threads |-> "unset"] /\ runs = <<>>

Compile(x, t) ==
    /\ Len(runs) < MaxRuns
    /\ LET flavour ==
           IF Need(x) = "none" THEN "none"
           ELSE CASE Design = "per_call" -> Need(x)
                  [] Design = "process_once" -> IF cell = "unset" THEN Need(x) ELSE cell
                  [] Design = "thread_memo" -> IF memo[t] = "unset" THEN Need(x) ELSE memo[t]
       IN /\ runs' = Append(runs, [input |-> x, thread |-> t, out |-> flavour])
          /\ cell' = IF Design = "process_once" /\ cell = "unset" /\ Need(x) # "none" THEN Need(x) ELSE cell
          /\ memo' = IF Design = "thread_memo" /\ Need(x) # "none" THEN [memo EXCEPT ![t] = IF @ = "unset" THEN Need(x) ELSE @] ELSE memo
Next == \E x \in Inputs, t \in Threads : Compile(x, t)
Spec == Init /\ [][Next]_vars

OutIsFunctionOfInput == \A i \in 1..Len(runs) : runs[i].out = Need(runs[i].input)
\* what a check that only repeats inputs inside one process can see
RepeatAgrees == \A i, j \in 1..Len(runs) : runs[i].input = runs[j].input => runs[i].out = runs[j].out
\* ... and one that compares a fresh thread with a used one
FreshThreadAgrees == \A i, j \in 1..Len(runs) :
    (runs[i].input = runs[j].input /\ runs[i].thread # runs[j].thread
     /\ ~\E k \in 1..(i-1) : runs[k].thread = runs[i].thread) => runs[i].out = runs[j].out
=============================================================================
