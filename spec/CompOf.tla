------------------------------- MODULE CompOf -------------------------------
(***************************************************************************)
(* COMPONENTS OF, second model (properties C09 and C05): several clauses   *)
(* in one definition, a clause inside an anonymous inner SEQUENCE, an      *)
(* extension marker behind the clauses.  Linker.tla has one clause per     *)
(* definition at any position; here the clauses stand last (so that the    *)
(* recorded position defect D_C09_compof_position is out of the way) and   *)
(* there may be many, reaching one type along several paths.               *)
(*                                                                         *)
(* Three SEQUENCE definitions; k may refer to j only if j < k (acyclic,    *)
(* every topology up to renaming).  Definition d has                       *)
(*    nown[d]   components of its own                      c<d>x<i>        *)
(*    inner[d]  0, or t: a component  n<d> SEQUENCE { c<d>x0 BOOLEAN,      *)
(*                                     COMPONENTS OF D<t> }                *)
(*    cofs[d]   a sequence of targets: COMPONENTS OF D<t>, in that order   *)
(*    ext[d]    an extension marker behind the last entry                  *)
(* and a name whose place in the alphabet is rank[d].                      *)
(*                                                                         *)
(*   Expand(d)  X.680 25.5 / 25.4: each clause is replaced by the root     *)
(*              components of the (expanded) type it names; with the       *)
(*              marker last and nothing after it every component is root.  *)
(*                                                                         *)
(*   The algorithm (validator/linking: link_nested_components_of_notation, *)
(*   called from the single pass over the name-sorted stack): the pass for *)
(*   d resolves the inner SEQUENCE, then appends for each clause what the  *)
(*   target has -- its member list if the target was processed already,    *)
(*   else the target resolved on the fly, recursively.  The recursion is   *)
(*   guarded against cycles.  Design = "depth": by a depth counter (the    *)
(*   code).  Design = "visited": by a set of the type names seen so far in *)
(*   this pass that is never unwound (the change C09-m7): a type reached a *)
(*   second time along another path contributes only what it has at that   *)
(*   moment, i.e. its own components if it is still on the stack.          *)
(*                                                                         *)
(* TLC: for Design = "depth" the member lists equal Expand for every       *)
(* topology and every order of the names; "visited" is refuted.            *)
(***************************************************************************)
EXTENDS Integers, Sequences, FiniteSets

CONSTANTS MaxOwn, Design, ExtOnlyLast

N == 3
Ds == 1..N

VARIABLES nown, inner, cofs, ext, rank, phase, cur, stack, members
vars == <<nown, inner, cofs, ext, rank, phase, cur, stack, members>>

Leaf(d, i) == [k |-> "leaf", d |-> d, i |-> i]

\* sequences without repetition over a set of at most two elements
Arrangements(S) == {<<>>} \cup {<<a>> : a \in S} \cup {<<p[1], p[2]>> : p \in {q \in S \X S : q[1] # q[2]}}

Init == /\ nown = [d \in Ds |-> 0] /\ inner = [d \in Ds |-> 0] /\ cofs = [d \in Ds |-> <<>>] /\ ext = [d \in Ds |-> FALSE]
        /\ rank = [d \in Ds |-> d] /\ phase = "shape" /\ cur = 1 /\ stack = <<>>
        /\ members = [d \in Ds |-> <<>>]

\* one definition's shape per step
Shape(n, t, cs, e) ==
    /\ phase = "shape"
    /\ n \in 0..MaxOwn /\ t \in 0..(cur - 1) /\ cs \in Arrangements(1..(cur - 1)) /\ e \in BOOLEAN
    /\ (cur = 1) => n >= 1
    /\ (ExtOnlyLast /\ cur < N) => ~e
    /\ nown' = [nown EXCEPT ![cur] = n] /\ inner' = [inner EXCEPT ![cur] = t]
    /\ cofs' = [cofs EXCEPT ![cur] = cs] /\ ext' = [ext EXCEPT ![cur] = e]
    /\ IF cur = N THEN phase' = "rank" /\ cur' = 1 ELSE cur' = cur + 1 /\ UNCHANGED phase
    /\ UNCHANGED <<rank, stack, members>>

\* ---- the meaning -------------------------------------------------------------------------------
RECURSIVE Expand(_)
RECURSIVE ExpandAll(_, _)
ExpandAll(ts, i) == IF i > Len(ts) THEN <<>> ELSE Expand(ts[i]) \o ExpandAll(ts, i + 1)
OwnLeaves(d) == [i \in 1..nown[d] |-> Leaf(d, i)]
InnerOf(d) == IF inner[d] = 0 THEN <<>> ELSE <<[k |-> "inner", d |-> d, sub |-> <<Leaf(d, 0)>> \o Expand(inner[d])]>>
Expand(d) == OwnLeaves(d) \o InnerOf(d) \o ExpandAll(cofs[d], 1)

\* identifiers of one component list must be distinct (X.680 25.6 after the transformation): a type must not be taken in twice
Key(c) == <<c.k, c.d, IF c.k = "leaf" THEN c.i ELSE 0>>
Distinct(s) == \A i, j \in 1..Len(s) : i # j => Key(s[i]) # Key(s[j])
RECURSIVE LegalList(_)
LegalList(s) == Distinct(s) /\ \A i \in 1..Len(s) : s[i].k = "inner" => LegalList(s[i].sub)
Legal == \A d \in Ds : LegalList(Expand(d))

Perms == {f \in [Ds -> Ds] : \A a, b \in Ds : a # b => f[a] # f[b]}
ByRank(rk) == [i \in Ds |-> CHOOSE d \in Ds : rk[d] = i]
PickRank(rk) == /\ phase = "rank" /\ rk \in Perms /\ Legal
                /\ rank' = rk /\ phase' = "link" /\ stack' = ByRank(rk)
                /\ members' = [d \in Ds |-> OwnLeaves(d)]
                /\ UNCHANGED <<nown, inner, cofs, ext, cur>>

\* ---- the algorithm -----------------------------------------------------------------------------
OnStack(e) == \E i \in 1..Len(stack) : stack[i] = e
\* what a clause naming e yields, and the names seen afterwards: [m |-> components, v |-> visited]
RECURSIVE See(_, _, _)
RECURSIVE SeeAll(_, _, _, _)
SeeAll(ts, i, v, n) ==
    IF i > Len(ts) THEN [m |-> <<>>, v |-> v]
    ELSE LET a == See(ts[i], v, n)
             b == SeeAll(ts, i + 1, a.v, n)
         IN [m |-> a.m \o b.m, v |-> b.v]
InnerSee(e, v, n) == IF inner[e] = 0 THEN [m |-> <<>>, v |-> v]
                     ELSE LET a == See(inner[e], v, n) IN [m |-> <<[k |-> "inner", d |-> e, sub |-> <<Leaf(e, 0)>> \o a.m]>>, v |-> a.v]
See(e, v, n) ==
    IF ~OnStack(e) THEN [m |-> members[e], v |-> v]                                   \* processed already: as it stands
    ELSE IF n = 0 THEN [m |-> OwnLeaves(e), v |-> v]                                  \* depth guard (never reached: acyclic)
    ELSE IF Design = "visited" /\ e \in v THEN [m |-> OwnLeaves(e), v |-> v]           \* "seen before": taken as it stands
    ELSE LET v1 == IF Design = "visited" THEN v \cup {e} ELSE v
             a == InnerSee(e, v1, n - 1)
             b == SeeAll(cofs[e], 1, a.v, n - 1)
         IN [m |-> OwnLeaves(e) \o a.m \o b.m, v |-> b.v]

Pop == /\ phase = "link" /\ stack # <<>>
       /\ LET d == stack[Len(stack)]
              v0 == IF Design = "visited" THEN {d} ELSE {}
              a == InnerSee(d, v0, N)
              b == SeeAll(cofs[d], 1, a.v, N)
          IN members' = [members EXCEPT ![d] = OwnLeaves(d) \o a.m \o b.m]
       /\ stack' = SubSeq(stack, 1, Len(stack) - 1)
       /\ UNCHANGED <<nown, inner, cofs, ext, rank, phase, cur>>
Finish == /\ phase = "link" /\ stack = <<>> /\ phase' = "done"
          /\ UNCHANGED <<nown, inner, cofs, ext, rank, cur, stack, members>>

Next == \/ \E n \in 0..MaxOwn, t \in 0..N, cs \in Arrangements(1..2), e \in BOOLEAN : Shape(n, t, cs, e)
        \/ \E rk \in Perms : PickRank(rk)
        \/ Pop \/ Finish
Spec == Init /\ [][Next]_vars

Done == phase = "done"
TypeOK == phase \in {"shape", "rank", "link", "done"} /\ \A d \in Ds : inner[d] < d /\ \A i \in 1..Len(cofs[d]) : cofs[d][i] < d

\* the algorithm computes the meaning, whatever the names
MembersAreMeaning == Done => \A d \in Ds : members[d] = Expand(d)
\* a definition that was processed keeps its list: later passes read, never write, other definitions
Stable == [][\A d \in Ds : (phase = "link" /\ ~OnStack(d)) => members'[d] = members[d]]_vars
\* a marker behind the clauses: the number of root components is the length of the expansion (C05: nothing is an addition)
RootCount(d) == Len(Expand(d))
RootsAreAll == Done => \A d \in Ds : ext[d] => RootCount(d) = nown[d] + (IF inner[d] = 0 THEN 0 ELSE 1)
                                                             + Len(ExpandAll(cofs[d], 1))
=============================================================================
