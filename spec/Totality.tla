------------------------------ MODULE Totality ------------------------------
(***************************************************************************)
(* Totality of compilation and error rendering (property C08).             *)
(*                                                                         *)
(* Part 1: the call as a process.  A worker takes an input, runs           *)
(* compile_to_string, then renders every error and warning (Display and    *)
(* contextualize).  Each step either returns or ends the behaviour badly   *)
(* (panic, abort of the process, no return before the watchdog fires).     *)
(* The property: every behaviour ends in `returned' with a verdict in      *)
(* {"ok", "err"} and every rendering returned.                             *)
(*                                                                         *)
(* Part 2: the input space as plans.  An input is a seed text (real-world  *)
(* module, generated module, notation snippet, constraint expression)      *)
(* changed by a plan: token-level edit operators at relative positions     *)
(* with material from fixed classes, prefixes, byte soup, and reference    *)
(* cycles built from edge kinds.                                           *)
(***************************************************************************)
EXTENDS Integers, Sequences, FiniteSets

--------------------------------------------------------------------------------
(* Part 1 *)
Ends == {"returned", "panicked", "aborted", "hung"}
Steps == <<"compile", "display", "contextualize">>

VARIABLES pc, verdict, end
wvars == <<pc, verdict, end>>
WInit == pc = 1 /\ verdict = "?" /\ end = "running"
\* a step of the implementation: it returns (compile with a verdict), or it does not
Return(v) == /\ end = "running" /\ pc <= Len(Steps)
             /\ verdict' = IF Steps[pc] = "compile" THEN v ELSE verdict
             /\ pc' = pc + 1
             /\ end' = IF pc = Len(Steps) THEN "returned" ELSE "running"
Fail(how) == end = "running" /\ pc <= Len(Steps) /\ end' = how /\ UNCHANGED <<pc, verdict>>
\* what the code may do if nothing is known about it
AnyNext == (\E v \in {"ok", "err"} : Return(v)) \/ (\E h \in Ends \ {"returned"} : Fail(h))
\* what the property allows
TotalNext == \E v \in {"ok", "err"} : Return(v)
AnySpec == WInit /\ [][AnyNext]_wvars
TotalSpec == WInit /\ [][TotalNext]_wvars /\ WF_wvars(TotalNext)
\* the observable summary of a behaviour, as the harness records it
Summary == [outcome |-> IF end = "returned" THEN verdict ELSE end, at |-> IF end \in {"running", "returned"} THEN "" ELSE Steps[pc]]
Total(s) == s.outcome \in {"ok", "err"} /\ s.at = ""
\* under TotalSpec every finished behaviour is Total, and it finishes
FinishedIsTotal == end # "running" => Total(Summary)
Finishes == <>(end = "returned")

--------------------------------------------------------------------------------
(* Part 2 *)
EditOps == {"delete", "insert", "replace", "duplicate", "swap", "splice", "truncate", "unclose"}
\* material an edit puts in: one representative per token class the lexer distinguishes
Material == {"{", "}", "(", ")", "[[", "]]", ",", "::=", "...", "|", "^", "..", ":", ";", "<", "@", "&", "!",
             "\"\"", "\"", "'", "''B", "''H", "--", "/*", "*/", "0", "-", "99999999999999999999999999999999999999999",
             "SEQUENCE", "CHOICE", "OF", "OPTIONAL", "DEFAULT", "COMPONENTS OF", "BEGIN", "END", "IMPORTS", "FROM", "SIZE", "MIN", "MAX",
             "INCLUDES", "WITH COMPONENTS", "CLASS", "MACRO", "TYPE-IDENTIFIER", "ABSTRACT-SYNTAX", "Zork", "zork", "ü", " ", "\t"}
NeedsMaterial(op) == op \in {"insert", "replace", "unclose"}
UncloseMaterial == {"\"", "'", "--", "/*", "{", "(", "[["}
Plan(op, pos, mat) == [op |-> op, pos |-> pos, mat |-> mat]
Plans(npos) == {Plan(op, p, m) : op \in EditOps, p \in 0..(npos - 1), m \in Material} 
WellFormedPlan(p) == /\ (~NeedsMaterial(p.op) => p.mat = "0")
                     /\ (p.op = "unclose" => p.mat \in UncloseMaterial)

\* reference cycles: definitions d1..dn, each refers to one other (or itself) through an edge kind
EdgeKinds == {"alias", "member", "optional", "element", "choice", "compof", "compof_in_choice", "compof_in_member", "compof_in_element",
              "selection", "constraint_incl", "default_ref", "objectset", "param"}
\* a cycle exists iff following the edges from some definition returns to it
RECURSIVE Reach(_, _, _)
Reach(tgt, from, fuel) == IF fuel = 0 THEN {} ELSE {tgt[from]} \cup Reach(tgt, tgt[from], fuel - 1)
HasCycle(tgt) == \E d \in DOMAIN tgt : d \in Reach(tgt, d, Len(tgt))
=============================================================================
