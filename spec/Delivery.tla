------------------------------ MODULE Delivery ------------------------------
(***************************************************************************)
(* Output delivery of Compiler::compile() (property C20).                  *)
(*                                                                         *)
(* The world is one scratch directory.  A scenario fixes                   *)
(*   mode    where the output goes: a file path, an existing directory,    *)
(*           standard output, nowhere ("default": the command-line tool    *)
(*           without output argument = the current directory)              *)
(*   dest    the state of the destination before the call                  *)
(*   input   whether the sources compile (as compile_to_string() decides)  *)
(* and the machine below is compile() at the granularity of the code:      *)
(* internal_compile, then output_generated = resolve target, open with     *)
(* create+truncate, write.  File contents are abstracted to                *)
(*   "absent" | "OLD" (what was there) | "NEW" (exactly the text           *)
(*   compile_to_string() returns) | "EMPTY" | "OTHER".                     *)
(***************************************************************************)
EXTENDS Integers, Sequences, FiniteSets

Modes == {"file", "dir", "default", "stdout", "none"}
FileDests == {"absent", "other_short", "other_long", "readonly", "noparent"}
DirDests == {"dir_empty", "dir_other", "dir_readonly_file", "dir_readonly"}
DestsOf(mode) == IF mode = "file" THEN FileDests ELSE IF mode \in {"dir", "default"} THEN DirDests ELSE {"na"}
Inputs == {"good", "malformed", "missing_source"}

\* the file the text goes to: the given path, or generated.<ext> inside the given directory
TargetBefore(dest) ==
    CASE dest \in {"absent", "noparent", "dir_empty", "dir_readonly", "na"} -> "absent"
      [] OTHER -> "OLD"
\* can the target be opened for writing (create, truncate)?
Writable(dest) == dest \in {"absent", "other_short", "other_long", "dir_empty", "dir_other"}
ToFile(mode) == mode \in {"file", "dir", "default"}

--------------------------------------------------------------------------------
(* what the property demands, as a function of the scenario *)
Result(mode, dest, compiled) ==
    IF compiled # "ok" THEN "err"
    ELSE IF ToFile(mode) /\ ~Writable(dest) THEN "err"
    ELSE "ok"
TargetAfter(mode, dest, compiled) ==
    IF Result(mode, dest, compiled) = "ok" /\ ToFile(mode) THEN "NEW" ELSE TargetBefore(dest)
Stdout(mode, dest, compiled) == IF mode = "stdout" /\ compiled = "ok" THEN "NEW" ELSE "empty"

--------------------------------------------------------------------------------
(* compile() as the code performs it *)
VARIABLES mode, dest, input, pc, compiled, target, others, stdout, result
vars == <<mode, dest, input, pc, compiled, target, others, stdout, result>>

Init == /\ mode \in Modes /\ dest \in DestsOf(mode) /\ input \in Inputs
        /\ pc = "start" /\ compiled = "?" /\ target = TargetBefore(dest) /\ others = "same"
        /\ stdout = "empty" /\ result = "?"
\* internal_compile()?  -- `?' returns before output_generated is reached
InternalCompile ==
    /\ pc = "start"
    /\ compiled' = IF input = "good" THEN "ok" ELSE "err"
    /\ IF input = "good" THEN pc' = "deliver" /\ UNCHANGED result ELSE pc' = "done" /\ result' = "err"
    /\ UNCHANGED <<mode, dest, input, target, others, stdout>>
\* fs::write(path) = open(create, truncate) ...
Open ==
    /\ pc = "deliver" /\ ToFile(mode)
    /\ IF Writable(dest) THEN pc' = "write" /\ target' = "EMPTY" /\ UNCHANGED result
       ELSE pc' = "done" /\ result' = "err" /\ UNCHANGED target
    /\ UNCHANGED <<mode, dest, input, compiled, others, stdout>>
\* ... write_all
Write ==
    /\ pc = "write"
    /\ target' = "NEW" /\ pc' = "done" /\ result' = "ok"
    /\ UNCHANGED <<mode, dest, input, compiled, others, stdout>>
ToStdout ==
    /\ pc = "deliver" /\ mode = "stdout"
    /\ stdout' = "NEW" /\ pc' = "done" /\ result' = "ok"
    /\ UNCHANGED <<mode, dest, input, compiled, target, others>>
Nowhere ==
    /\ pc = "deliver" /\ mode = "none"
    /\ pc' = "done" /\ result' = "ok"
    /\ UNCHANGED <<mode, dest, input, compiled, target, others, stdout>>
Next == InternalCompile \/ Open \/ Write \/ ToStdout \/ Nowhere
Spec == Init /\ [][Next]_vars

--------------------------------------------------------------------------------
Done == pc = "done"
\* the machine delivers what the property demands
MeetsDemand == Done => /\ result = Result(mode, dest, compiled)
                       /\ target = TargetAfter(mode, dest, compiled)
                       /\ stdout = Stdout(mode, dest, compiled)
                       /\ others = "same"
\* "when compilation fails nothing is written or overwritten"
NothingOnFailure == (Done /\ compiled = "err") => target = TargetBefore(dest) /\ stdout = "empty" /\ others = "same"
\* "delivers exactly the text": never a partial or stale file after success
ExactOnSuccess == (Done /\ result = "ok" /\ ToFile(mode)) => target = "NEW"
\* an unwritable destination is an Err and leaves the destination as it was
UnwritableIsErr == (Done /\ compiled = "ok" /\ ToFile(mode) /\ ~Writable(dest)) => result = "err" /\ target = TargetBefore(dest)
\* the window in which the destination holds neither the old nor the new text exists only between Open and Write
Torn == target = "EMPTY" => pc = "write"
=============================================================================
