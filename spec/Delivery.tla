------------------------------ MODULE Delivery ------------------------------
(***************************************************************************)
(* Output delivery of Compiler::compile() (property C20).                  *)
(*                                                                         *)
(* The world is one scratch directory.  A scenario fixes                   *)
(*   mode    where the output goes: a file path, an existing directory,    *)
(*           standard output, nowhere ("default": the command-line tool    *)
(*           without output argument = the current directory)              *)
(*   dest    the state of the destination before the call                  *)
(*   input   whether the sources compile (as compile_to_string() decides)  *)
(* and the machine below is compile() at the granularity of the code:      *)
(* internal_compile, then output_generated = resolve target, open with     *)
(* create+truncate, write.  File contents are abstracted to                *)
(*   "absent" | "OLD" (what was there) | "NEW" (exactly the text           *)
(*   compile_to_string() returns) | "EMPTY" | "OTHER".                     *)
(*                                                                         *)
(* Standard output is a *line-buffered* stream (std's LineWriter): a       *)
(* write_all hands everything through the last line break to the           *)
(* descriptor at once and keeps the unterminated rest in a buffer that is  *)
(* written by flush() -- or, failing that, when the process exits, where   *)
(* an error has nobody left to report to.  The stream may be unwritable    *)
(* too: a full device (ENOSPC), a pipe whose reader is gone (EPIPE).       *)
(* Whether output_generated flushes before it returns is the design        *)
(* choice FlushBeforeReturn; the text's shape (does it end in a line       *)
(* break, does it contain one) decides what the buffer holds.              *)
(***************************************************************************)
EXTENDS Integers, Sequences, FiniteSets

Modes == {"file", "dir", "default", "stdout", "none"}
FileDests == {"absent", "other_short", "other_long", "readonly", "noparent"}
DirDests == {"dir_empty", "dir_other", "dir_readonly_file", "dir_readonly"}
StdoutDests == {"na", "stdout_full", "stdout_epipe"}      \* "na": a stream that takes everything
DestsOf(mode) == IF mode = "file" THEN FileDests ELSE IF mode \in {"dir", "default"} THEN DirDests
                 ELSE IF mode = "stdout" THEN StdoutDests ELSE {"na"}
\* the shape of the text with respect to line buffering
\* (a rest that does not fit into the stream's buffer is not buffered: it goes to the descriptor at once)
\* "no_text": the text is the empty string (a module without assignments, TypeScript backend): nothing is written to a stream --
\* so an unwritable stream is no obstacle and standard output stays empty, which IS the text --, while a file destination is
\* still opened (create, truncate): it exists afterwards and is empty, and an unwritable one is an Err
Shapes == {"ends_in_newline", "newline_and_small_rest", "newline_and_large_rest", "small_no_newline", "large_no_newline", "no_text"}
HasLines(sh) == sh \in {"ends_in_newline", "newline_and_small_rest", "newline_and_large_rest"}
SmallRest(sh) == sh \in {"newline_and_small_rest", "small_no_newline"}
NoText(sh) == sh = "no_text"
\* does write_all put bytes on the descriptor itself?
WritesThrough(sh) == sh # "no_text" /\ (HasLines(sh) \/ ~SmallRest(sh))
CONSTANT FlushBeforeReturn
\* The rasn backend pipes the text through a rustfmt it finds next to cargo.  Formatting is cosmetic: a formatter that is
\* absent, or found but failing (exit status other than 0 / 3, a proxy without the component), leaves the text as generated
\* and does not make the compilation fail.  "identity" is a formatter that works (the harness stages one that copies its
\* input, so that the delivered text stays comparable byte for byte).  FormatErrorSurfaces is the design that reports the
\* formatter's failure as the call's Err *after* the text has been delivered -- refuted below: an Err must carry nothing.
Formatters == {"absent", "identity", "fails"}
CONSTANT FormatErrorSurfaces
\* SkipWhenSame is the design that leaves "up-to-date" bindings alone (C20-m7): the destination is read first -- an unreadable one
\* counts as empty -- and when that equals the text the call returns Ok without opening it.  Refuted below for the empty text.
CONSTANT SkipWhenSame
Inputs == {"good", "malformed", "missing_source"}

\* the file the text goes to: the given path, or generated.<ext> inside the given directory
TargetBefore(dest) ==
    CASE dest \in {"absent", "noparent", "dir_empty", "dir_readonly", "na", "stdout_full", "stdout_epipe"} -> "absent"
      [] OTHER -> "OLD"
\* can the target be opened for writing (create, truncate)?
Writable(dest) == dest \in {"absent", "other_short", "other_long", "dir_empty", "dir_other"}
ToFile(mode) == mode \in {"file", "dir", "default"}
StreamTakes(dest) == dest = "na"

--------------------------------------------------------------------------------
(* what the property demands, as a function of the scenario *)
Result(mode, dest, compiled, sh) ==
    IF compiled # "ok" THEN "err"
    ELSE IF ToFile(mode) /\ ~Writable(dest) THEN "err"
    ELSE IF mode = "stdout" /\ ~StreamTakes(dest) /\ ~NoText(sh) THEN "err"
    ELSE "ok"
TargetAfter(mode, dest, compiled, sh) ==
    IF Result(mode, dest, compiled, sh) = "ok" /\ ToFile(mode) THEN "NEW" ELSE TargetBefore(dest)
Stdout(mode, dest, compiled, sh) == IF mode = "stdout" /\ compiled = "ok" /\ StreamTakes(dest) /\ ~NoText(sh) THEN "NEW" ELSE "empty"

--------------------------------------------------------------------------------
(* compile() as the code performs it *)
VARIABLES mode, dest, input, pc, compiled, target, others, stdout, result,
          shape,      \* the text's shape (fixed by the scenario)
          buffered,   \* does the stream's buffer hold an unwritten rest?
          fmt         \* the formatter in reach (fixed by the scenario)
vars == <<mode, dest, input, pc, compiled, target, others, stdout, result, shape, buffered, fmt>>
\* what the call returns when delivery went well
Final == IF FormatErrorSurfaces /\ fmt = "fails" THEN "err" ELSE "ok"

Init == /\ mode \in Modes /\ dest \in DestsOf(mode) /\ input \in Inputs
        /\ pc = "start" /\ compiled = "?" /\ target = TargetBefore(dest) /\ others = "same"
        /\ stdout = "empty" /\ result = "?"
        /\ shape \in (IF mode = "stdout" THEN Shapes ELSE {"ends_in_newline", "no_text"}) /\ buffered = FALSE
        /\ fmt \in Formatters
\* internal_compile()?  -- `?' returns before output_generated is reached
InternalCompile ==
    /\ pc = "start"
    /\ compiled' = IF input = "good" THEN "ok" ELSE "err"
    /\ IF input = "good" THEN pc' = "deliver" /\ UNCHANGED result ELSE pc' = "done" /\ result' = "err"
    /\ UNCHANGED <<mode, dest, input, target, others, stdout, shape, buffered, fmt>>
\* fs::write(path) = open(create, truncate) ...
\* (SkipWhenSame only) the destination reads as the text already: nothing to do
LooksUpToDate == SkipWhenSame /\ NoText(shape) /\ TargetBefore(dest) = "absent"
SkipUpToDate ==
    /\ pc = "deliver" /\ ToFile(mode) /\ LooksUpToDate
    /\ pc' = "done" /\ result' = Final
    /\ UNCHANGED <<mode, dest, input, compiled, target, others, stdout, shape, buffered, fmt>>
Open ==
    /\ pc = "deliver" /\ ToFile(mode) /\ ~LooksUpToDate
    /\ IF Writable(dest) THEN pc' = "write" /\ target' = "EMPTY" /\ UNCHANGED result
       ELSE pc' = "done" /\ result' = "err" /\ UNCHANGED target
    /\ UNCHANGED <<mode, dest, input, compiled, others, stdout, shape, buffered, fmt>>
\* ... write_all
Write ==
    /\ pc = "write"
    /\ target' = "NEW" /\ pc' = "done" /\ result' = Final
    /\ UNCHANGED <<mode, dest, input, compiled, others, stdout, shape, buffered, fmt>>
\* stdout().write_all(text): the part through the last line break goes to the descriptor now (and may fail),
\* the unterminated rest into the buffer (which cannot fail)
ToStdout ==
    /\ pc = "deliver" /\ mode = "stdout"
    /\ IF WritesThrough(shape) /\ ~StreamTakes(dest)
       THEN pc' = "done" /\ result' = "err" /\ UNCHANGED <<stdout, buffered>>
       ELSE /\ stdout' = IF NoText(shape) THEN "empty" ELSE IF ~SmallRest(shape) THEN "NEW" ELSE IF HasLines(shape) THEN "PREFIX" ELSE "empty"
            /\ buffered' = SmallRest(shape)
            /\ IF FlushBeforeReturn THEN pc' = "flush" /\ UNCHANGED result
               ELSE pc' = "done" /\ result' = Final
    /\ UNCHANGED <<mode, dest, input, compiled, target, others, shape, fmt>>
\* stdout().flush() before output_generated returns: the rest reaches the descriptor or the call is an Err
FlushStdout ==
    /\ pc = "flush"
    /\ IF buffered /\ ~StreamTakes(dest) THEN result' = "err" /\ UNCHANGED <<stdout, buffered>>
       ELSE result' = Final /\ buffered' = FALSE /\ stdout' = (IF buffered THEN "NEW" ELSE stdout)
    /\ pc' = "done"
    /\ UNCHANGED <<mode, dest, input, compiled, target, others, shape, fmt>>
\* the process ends: what is still buffered is written if the stream takes it, and silently lost otherwise
ProcessExit ==
    /\ pc = "done" /\ buffered
    /\ buffered' = FALSE
    /\ stdout' = IF StreamTakes(dest) THEN "NEW" ELSE stdout
    /\ UNCHANGED <<mode, dest, input, pc, compiled, target, others, result, shape, fmt>>
Nowhere ==
    /\ pc = "deliver" /\ mode = "none"
    /\ pc' = "done" /\ result' = Final
    /\ UNCHANGED <<mode, dest, input, compiled, target, others, stdout, shape, buffered, fmt>>
Next == InternalCompile \/ SkipUpToDate \/ Open \/ Write \/ ToStdout \/ FlushStdout \/ ProcessExit \/ Nowhere
Spec == Init /\ [][Next]_vars

--------------------------------------------------------------------------------
Done == pc = "done" /\ ~buffered      \* the call has returned and the process has let go of its buffer
\* the machine delivers what the property demands
MeetsDemand == Done => /\ result = Result(mode, dest, compiled, shape)
                       /\ target = TargetAfter(mode, dest, compiled, shape)
                       /\ stdout = Stdout(mode, dest, compiled, shape)
                       /\ others = "same"
\* "when compilation fails nothing is written or overwritten"
NothingOnFailure == (Done /\ compiled = "err") => target = TargetBefore(dest) /\ stdout = "empty" /\ others = "same"
\* "delivers exactly the text": never a partial or stale file after success
ExactOnSuccess == (Done /\ result = "ok" /\ ToFile(mode)) => target = "NEW"
\* an unwritable destination is an Err and leaves the destination as it was
UnwritableIsErr == /\ (Done /\ compiled = "ok" /\ ToFile(mode) /\ ~Writable(dest)) => result = "err" /\ target = TargetBefore(dest)
                   /\ (Done /\ compiled = "ok" /\ mode = "stdout" /\ ~StreamTakes(dest) /\ ~NoText(shape)) => result = "err"
\* an Err carries nothing: whatever made the call fail, the destination is as it was and nothing went to standard output
ErrMeansNothing == (Done /\ result = "err") => target = TargetBefore(dest) /\ stdout = "empty" /\ others = "same"
\* Ok means delivered: whoever reads the stream after an Ok has the whole text
OkMeansDelivered == (Done /\ result = "ok" /\ mode = "stdout") => stdout = (IF NoText(shape) THEN "empty" ELSE "NEW")
\* the window in which the destination holds neither the old nor the new text exists only between Open and Write
Torn == target = "EMPTY" => pc = "write"
=============================================================================
