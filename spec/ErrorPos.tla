------------------------------ MODULE ErrorPos ------------------------------
(***************************************************************************)
(* Positions reported for syntax errors (property C17).                    *)
(*                                                                         *)
(* 1. The bookkeeping of the lexer's input wrapper (rasn-compiler/src/     *)
(*    input.rs): the parser consumes the document in slices; with every    *)
(*    slice the wrapper advances `offset` by the bytes consumed and `line` *)
(*    by the line feeds among them.  Documents are strings over            *)
(*    {"x" (any other byte), "n" (LF), "r" (CR)}.  TLC checks, for every   *)
(*    document up to MaxDoc symbols and every way of slicing it, the       *)
(*    inductive invariant   line = 1 + number of LF before offset          *)
(*    (a CR is not a line break: CRLF counts once).                        *)
(*                                                                         *)
(* 2. Corruption plans for the harness: which assignment, which token of   *)
(*    it, which edit (delete / replace / insert), what is put there        *)
(*    ("notoken": a character that starts no ASN.1 token, "word",          *)
(*    "punct"), LF or CRLF line ends, literal or file source.              *)
(***************************************************************************)
EXTENDS Integers, Sequences, FiniteSets

CONSTANTS MaxDoc

Sym == {"x", "n", "r"}

VARIABLES doc, offset, line, phase
vars == <<doc, offset, line, phase>>

Init == doc = <<>> /\ offset = 0 /\ line = 1 /\ phase = "write"
Write(c) == phase = "write" /\ Len(doc) < MaxDoc /\ doc' = Append(doc, c) /\ UNCHANGED <<offset, line, phase>>
StartParsing == phase = "write" /\ phase' = "parse" /\ UNCHANGED <<doc, offset, line>>

LFs(s) == Cardinality({i \in 1..Len(s) : s[i] = "n"})
\* consume the next n symbols
Slice(n) == /\ phase = "parse" /\ n \in 1..(Len(doc) - offset)
            /\ offset' = offset + n
            /\ line' = line + LFs(SubSeq(doc, offset + 1, offset + n))
            /\ UNCHANGED <<doc, phase>>
Next == (\E c \in Sym : Write(c)) \/ StartParsing \/ (\E n \in 1..MaxDoc : Slice(n))
Spec == Init /\ [][Next]_vars

LineIsLFCount == line = 1 + LFs(SubSeq(doc, 1, offset))
OffsetInside == offset >= 0 /\ offset <= Len(doc)

(* ---- what the property demands of a reported position ------------------ *)
\* len: bytes of the input; lfBefore: LF bytes before `offset` in the input actually given;
\* lower: offset of the first token of the (first) malformed assignment or header;
\* upper: offset of the first character that cannot continue any valid notation (or len)
PositionOK(offset_, line_, len, lfBefore, lower, upper) ==
    /\ 0 <= offset_ /\ offset_ <= len
    /\ line_ = 1 + lfBefore
    /\ lower <= offset_ /\ offset_ <= upper

Edits == {"delete", "replace", "insert"}
Stuff == {"notoken", "word", "punct"}
\* where in the assignment: the t-th token, or a token the parser reaches only after it has committed itself (no way back
\* to another alternative: the value after DEFAULT), or the last token
Anchors == {"nth", "after_default", "last"}
=============================================================================
