------------------------------ MODULE ErrorPos ------------------------------
(***************************************************************************)
(* Positions reported for syntax errors (property C17).                    *)
(*                                                                         *)
(* 1. The bookkeeping of the lexer's input wrapper (rasn-compiler/src/     *)
(*    input.rs): the parser consumes the document in slices; with every    *)
(*    slice the wrapper advances `offset` by the BYTES consumed and `line` *)
(*    by the line feeds among them.  Documents are strings over            *)
(*    {"x" (any other one-byte character), "n" (LF), "r" (CR), "w" (a      *)
(*    character of two bytes: inputs are UTF-8)}.  `pos` counts the        *)
(*    characters consumed, `offset` what the wrapper reports.  TLC checks, *)
(*    for every document up to MaxDoc symbols and every way of slicing it, *)
(*    the inductive invariants                                             *)
(*         offset = number of bytes of the characters before pos           *)
(*         line   = 1 + number of LF before pos                            *)
(*    (a CR is not a line break: CRLF counts once).  OffsetUnit = "chars"  *)
(*    is the design that advances offset by characters (C17-m7); TLC       *)
(*    refutes OffsetIsBytes for it as soon as a "w" has been consumed.     *)
(*                                                                         *)
(* 2. Corruption plans for the harness: which assignment, which token of   *)
(*    it, which edit (delete / replace / insert), what is put there        *)
(*    ("notoken": a character that starts no ASN.1 token, "word",          *)
(*    "punct"), LF or CRLF line ends, literal or file source.              *)
(***************************************************************************)
EXTENDS Integers, Sequences, FiniteSets

CONSTANTS MaxDoc, OffsetUnit

Sym == {"x", "n", "r", "w"}
Width(c) == IF c = "w" THEN 2 ELSE 1

VARIABLES doc, pos, offset, line, phase
vars == <<doc, pos, offset, line, phase>>

Init == doc = <<>> /\ pos = 0 /\ offset = 0 /\ line = 1 /\ phase = "write"
Write(c) == phase = "write" /\ Len(doc) < MaxDoc /\ doc' = Append(doc, c) /\ UNCHANGED <<pos, offset, line, phase>>
StartParsing == phase = "write" /\ phase' = "parse" /\ UNCHANGED <<doc, pos, offset, line>>

LFs(s) == Cardinality({i \in 1..Len(s) : s[i] = "n"})
RECURSIVE Bytes(_)
Bytes(s) == IF s = <<>> THEN 0 ELSE Width(Head(s)) + Bytes(Tail(s))
\* consume the next n characters
Slice(n) == /\ phase = "parse" /\ n \in 1..(Len(doc) - pos)
            /\ pos' = pos + n
            /\ offset' = offset + (IF OffsetUnit = "bytes" THEN Bytes(SubSeq(doc, pos + 1, pos + n)) ELSE n)
            /\ line' = line + LFs(SubSeq(doc, pos + 1, pos + n))
            /\ UNCHANGED <<doc, phase>>
Next == (\E c \in Sym : Write(c)) \/ StartParsing \/ (\E n \in 1..MaxDoc : Slice(n))
Spec == Init /\ [][Next]_vars

LineIsLFCount == line = 1 + LFs(SubSeq(doc, 1, pos))
OffsetIsBytes == offset = Bytes(SubSeq(doc, 1, pos))
OffsetInside == offset >= 0 /\ offset <= Bytes(doc)
\* what a caller sees: the line breaks among the first `offset` BYTES of the input are line - 1 (holds because offset is a
\* character boundary; with offsets counted in characters the byte slice ends early and may miss line breaks)
RECURSIVE LFsInBytes(_, _)
LFsInBytes(s, b) == IF s = <<>> \/ b < Width(Head(s)) THEN 0 ELSE (IF Head(s) = "n" THEN 1 ELSE 0) + LFsInBytes(Tail(s), b - Width(Head(s)))
LineMatchesByteOffset == line = 1 + LFsInBytes(doc, offset)

(* ---- what the property demands of a reported position ------------------ *)
\* len: bytes of the input; lfBefore: LF bytes before `offset` in the input actually given;
\* lower: offset of the first token of the (first) malformed assignment or header;
\* upper: offset of the first character that cannot continue any valid notation (or len)
PositionOK(offset_, line_, len, lfBefore, lower, upper) ==
    /\ 0 <= offset_ /\ offset_ <= len
    /\ line_ = 1 + lfBefore
    /\ lower <= offset_ /\ offset_ <= upper

Edits == {"delete", "replace", "insert"}
Stuff == {"notoken", "word", "punct"}
\* where in the assignment: the t-th token, or a token the parser reaches only after it has committed itself (no way back
\* to another alternative: the value after DEFAULT), or the last token
Anchors == {"nth", "after_default", "last"}
=============================================================================
