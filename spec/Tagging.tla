------------------------------ MODULE Tagging ------------------------------
(***************************************************************************)
(* Tags and tagging mode (property C03; X.680 clauses 13.2, 31.2.7,        *)
(* 25.3/27.3/29.2 and 31.2.9).                                             *)
(*                                                                         *)
(* A "point" is one tag written in the source:                             *)
(*     module default  x  keyword  x  class  x  position  x  tagged kind   *)
(* The model builds a point by one Pick action per coordinate and then     *)
(* Resolve decides the tagging mode exactly as 31.2.7 words it:            *)
(*   a) the tag says EXPLICIT                          -> explicit         *)
(*   b) no keyword, module default EXPLICIT TAGS or                        *)
(*      no TAGS clause (13.2: "EXPLICIT TAGS" is the default)  -> explicit *)
(*   c) no keyword, module default IMPLICIT or AUTOMATIC TAGS and the      *)
(*      tagged type is an untagged CHOICE, an untagged open type or a      *)
(*      dummy reference                                        -> explicit *)
(*   otherwise                                                 -> implicit *)
(* 31.2.9 forbids IMPLICIT on a CHOICE / open type: those points are not   *)
(* legal ASN.1 and end in phase "illegal".                                 *)
(*                                                                         *)
(* A second, independent part (AutoPoints in MC_C03) covers automatic          *)
(* tagging: a SEQUENCE, SET or CHOICE is tagged automatically iff the      *)
(* module says AUTOMATIC TAGS and none of its own components is tagged.    *)
(***************************************************************************)
EXTENDS Integers, Sequences, FiniteSets

Defaults  == {"EXPLICIT", "IMPLICIT", "AUTOMATIC", "NONE"}   \* NONE: no TAGS clause
Keywords  == {"none", "IMPLICIT", "EXPLICIT"}
Classes   == {"context", "application", "private", "universal"}
Positions == {"assignment", "component", "alternative", "nested", "element"}
Kinds     == {"primitive", "refseq", "refchoice", "inlinechoice", "open"}

ChoiceLike(k) == k \in {"refchoice", "inlinechoice", "open"}

VARIABLES md, kw, cls, pos, kind, phase, explicit
vars == <<md, kw, cls, pos, kind, phase, explicit>>

Init == /\ md = "?" /\ kw = "?" /\ cls = "?" /\ pos = "?" /\ kind = "?"
        /\ phase = "md" /\ explicit = FALSE

PickDefault(d)  == phase = "md"  /\ md' = d   /\ phase' = "kw"   /\ UNCHANGED <<kw, cls, pos, kind, explicit>>
PickKeyword(k)  == phase = "kw"  /\ kw' = k   /\ phase' = "cls"  /\ UNCHANGED <<md, cls, pos, kind, explicit>>
PickClass(c)    == phase = "cls" /\ cls' = c  /\ phase' = "pos"  /\ UNCHANGED <<md, kw, pos, kind, explicit>>
PickPosition(p) == phase = "pos" /\ pos' = p  /\ phase' = "kind" /\ UNCHANGED <<md, kw, cls, kind, explicit>>
PickKind(k)     == phase = "kind" /\ kind' = k /\ phase' = "resolve" /\ UNCHANGED <<md, kw, cls, pos, explicit>>

\* 31.2.7, clause by clause
ClauseA(k)       == k = "EXPLICIT"
ClauseB(d, k)    == k = "none" /\ d \in {"EXPLICIT", "NONE"}
ClauseC(d, k, t) == k = "none" /\ d \in {"IMPLICIT", "AUTOMATIC"} /\ ChoiceLike(t)
IsExplicit(d, k, t) == ClauseA(k) \/ ClauseB(d, k) \/ ClauseC(d, k, t)
Legal(k, t) == ~(k = "IMPLICIT" /\ ChoiceLike(t))

Resolve == /\ phase = "resolve"
           /\ IF Legal(kw, kind)
              THEN explicit' = IsExplicit(md, kw, kind) /\ phase' = "done"
              ELSE explicit' = FALSE /\ phase' = "illegal"
           /\ UNCHANGED <<md, kw, cls, pos, kind>>

Next == \/ \E d \in Defaults : PickDefault(d)
        \/ \E k \in Keywords : PickKeyword(k)
        \/ \E c \in Classes : PickClass(c)
        \/ \E p \in Positions : PickPosition(p)
        \/ \E k \in Kinds : PickKind(k)
        \/ Resolve

Spec == Init /\ [][Next]_vars

Done == phase = "done"

\* the three clauses as separate invariants, and their converse
InvA == (Done /\ kw = "EXPLICIT") => explicit
InvB == (Done /\ kw = "none" /\ md \in {"EXPLICIT", "NONE"}) => explicit
InvC == (Done /\ kw = "none" /\ md \in {"IMPLICIT", "AUTOMATIC"} /\ ChoiceLike(kind)) => explicit
InvImplicit == (Done /\ explicit) => (kw = "EXPLICIT" \/ (kw = "none" /\ (md \in {"EXPLICIT", "NONE"} \/ ChoiceLike(kind))))
\* the mode never depends on the class or on the position (so: "at every nesting depth")
ModeIndependentOfPosition == Done => explicit = IsExplicit(md, kw, kind)
\* a CHOICE or open type is never tagged implicitly
NoImplicitChoice == (Done /\ ChoiceLike(kind)) => explicit

----------------------------------------------------------------------------
(* automatic tagging *)
\* which components carry a tag: none / the first / the last / all of three root components; with an extension marker, an
\* addition and a version group after them: none ("none_ext"), the addition, the components inside the version group (all of them, or one of two: "group_part").  The
\* components of an ExtensionAdditionGroup are components of the type like any other (X.680 25.7, 25.8: "ComponentTypeLists")
Patterns   == {"none", "first", "last", "all", "none_ext", "addition", "group", "group_part"}
Containers == {"SEQUENCE", "SET", "CHOICE"}
Automatic(d, pat) == d = "AUTOMATIC" /\ pat \in {"none", "none_ext"}
=============================================================================
