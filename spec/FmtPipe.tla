------------------------------ MODULE FmtPipe ------------------------------
(***************************************************************************)
(* The formatting step of the rasn backend (property C08: "terminates and  *)
(* returns normally ... never ... loops").                                 *)
(*                                                                         *)
(* compile_to_string() pipes the bindings through a rustfmt child process: *)
(*     main      spawns rustfmt with both ends piped, starts a writer      *)
(*               thread, collects rustfmt's stdout, waits for the child,   *)
(*               joins the writer                                          *)
(*     writer    writes the bindings to rustfmt's stdin, closes it         *)
(*     rustfmt   reads its stdin to the end, writes the formatted text to  *)
(*               its stdout, exits                                         *)
(* A pipe holds at most Cap chunks; a write to a full pipe blocks, a read  *)
(* from an empty pipe blocks until the other end is closed.  Whether the   *)
(* call returns therefore depends on the ORDER in which main drains the    *)
(* output and waits for the child, and on the sizes of the two texts       *)
(* relative to the pipe capacity -- not on their content.                  *)
(*                                                                         *)
(* The design variants are constants:                                      *)
(*     Order         "drain_then_wait" (the code)  |  "wait_then_drain"    *)
(*     WriterThread  TRUE (the code)  |  FALSE: main writes stdin itself   *)
(*                   before it looks at stdout                             *)
(*     Streaming     FALSE (rustfmt: whole input first)  |  TRUE: the      *)
(*                   child writes a chunk of output for every chunk it     *)
(*                   reads, and -- one thread -- does not read on before   *)
(*                   that chunk is written                                 *)
(***************************************************************************)
EXTENDS Integers, FiniteSets

CONSTANTS Cap,            \* pipe capacity in chunks
          MaxIn, MaxOut,  \* the bindings are 1..MaxIn chunks, the formatted text 1..MaxOut chunks
          Order, WriterThread, Streaming

VARIABLES nin, nout,      \* the sizes of this call
          inpipe, outpipe,\* chunks in flight
          written,        \* chunks of the bindings written to stdin so far
          inclosed,       \* stdin closed by the writer
          consumed,       \* chunks rustfmt has read
          produced,       \* chunks rustfmt has written
          owed,           \* a streaming child: output it has to write before it reads on (it is one thread)
          childdone,      \* rustfmt exited (its stdout is closed)
          collected,      \* chunks main has read from stdout
          mainpc          \* "write" | "drain" | "wait" | "join" | "done"
vars == <<nin, nout, inpipe, outpipe, written, inclosed, consumed, produced, owed, childdone, collected, mainpc>>

FirstPc == IF ~WriterThread THEN "write" ELSE IF Order = "drain_then_wait" THEN "drain" ELSE "wait"
AfterWrite == IF Order = "drain_then_wait" THEN "drain" ELSE "wait"

Init == /\ nin \in 1..MaxIn /\ nout \in 1..MaxOut
        /\ inpipe = 0 /\ outpipe = 0 /\ written = 0 /\ inclosed = FALSE
        /\ consumed = 0 /\ produced = 0 /\ owed = 0 /\ childdone = FALSE /\ collected = 0
        /\ mainpc = FirstPc

\* ---- whoever writes the bindings: the writer thread, or main itself in its "write" phase
CanWrite == IF WriterThread THEN TRUE ELSE mainpc = "write"
WriteChunk ==
    /\ CanWrite /\ written < nin /\ inpipe < Cap
    /\ written' = written + 1 /\ inpipe' = inpipe + 1
    /\ UNCHANGED <<nin, nout, outpipe, inclosed, consumed, produced, owed, childdone, collected, mainpc>>
CloseStdin ==
    /\ CanWrite /\ written = nin /\ ~inclosed
    /\ inclosed' = TRUE
    /\ mainpc' = IF ~WriterThread THEN AfterWrite ELSE mainpc
    /\ UNCHANGED <<nin, nout, inpipe, outpipe, written, consumed, produced, owed, childdone, collected>>

\* ---- rustfmt
ReadChunk ==
    /\ inpipe > 0 /\ owed = 0
    /\ inpipe' = inpipe - 1 /\ consumed' = consumed + 1
    /\ owed' = IF Streaming /\ produced < nout - 1 THEN 1 ELSE 0
    /\ UNCHANGED <<nin, nout, outpipe, written, inclosed, produced, childdone, collected, mainpc>>
AllRead == consumed = nin /\ inclosed
EmitChunk ==
    /\ ~childdone /\ produced < nout /\ outpipe < Cap
    /\ (owed > 0 \/ AllRead)
    /\ produced' = produced + 1 /\ outpipe' = outpipe + 1
    /\ owed' = IF owed > 0 THEN owed - 1 ELSE 0
    /\ UNCHANGED <<nin, nout, inpipe, written, inclosed, consumed, childdone, collected, mainpc>>
Exit ==
    /\ ~childdone /\ AllRead /\ owed = 0 /\ produced = nout
    /\ childdone' = TRUE
    /\ UNCHANGED <<nin, nout, inpipe, outpipe, written, inclosed, consumed, produced, owed, collected, mainpc>>

\* ---- main
Drain ==
    /\ mainpc = "drain" /\ outpipe > 0
    /\ outpipe' = outpipe - 1 /\ collected' = collected + 1
    /\ UNCHANGED <<nin, nout, inpipe, written, inclosed, consumed, produced, owed, childdone, mainpc>>
DrainEof ==        \* read() returns 0: the pipe is empty and the child has closed it
    /\ mainpc = "drain" /\ outpipe = 0 /\ childdone
    /\ mainpc' = IF Order = "drain_then_wait" THEN "wait" ELSE "join"
    /\ UNCHANGED <<nin, nout, inpipe, outpipe, written, inclosed, consumed, produced, owed, childdone, collected>>
Wait ==
    /\ mainpc = "wait" /\ childdone
    /\ mainpc' = IF Order = "drain_then_wait" THEN "join" ELSE "drain"
    /\ UNCHANGED <<nin, nout, inpipe, outpipe, written, inclosed, consumed, produced, owed, childdone, collected>>
Join ==
    /\ mainpc = "join" /\ inclosed
    /\ mainpc' = "done"
    /\ UNCHANGED <<nin, nout, inpipe, outpipe, written, inclosed, consumed, produced, owed, childdone, collected>>

Next == WriteChunk \/ CloseStdin \/ ReadChunk \/ EmitChunk \/ Exit \/ Drain \/ DrainEof \/ Wait \/ Join
Spec == Init /\ [][Next]_vars /\ WF_vars(Next)

--------------------------------------------------------------------------------
Done == mainpc = "done"
TypeOK == /\ inpipe \in 0..Cap /\ outpipe \in 0..Cap /\ written \in 0..nin /\ consumed \in 0..nin
          /\ produced \in 0..nout /\ collected \in 0..nout
          /\ mainpc \in {"write", "drain", "wait", "join", "done"}
\* nothing is lost in the pipes
Conservation == written = inpipe + consumed /\ produced = outpipe + collected
\* the call returns with exactly the formatted text
Complete == Done => collected = nout /\ childdone
\* no state other than Done is without a successor (no deadlock), whatever the sizes
NoDeadlock == Done \/ ENABLED Next
Returns == <>Done
\* the sizes at which a design variant can block: used to choose the sizes the real code is run with
Boundary == {1, Cap, Cap + 1, 3 * Cap}
=============================================================================
