------------------------------- MODULE TsShape -------------------------------
(***************************************************************************)
(* JER shape of TypeScript declarations (property C18).  Constant-level    *)
(* operators for the trace specification.  The observed side is a class    *)
(* computed structurally from the parsed declaration:                      *)
(*   num str bool null any   primitives         REF:<Name>  a type name    *)
(*   obj   an object type    arr  an array      bits  {value, length}      *)
(*   enumunion  a union of string literals                                 *)
(*   choice     a union of single-key objects (or one single-key object)   *)
(*   strobj     string | object                                            *)
(***************************************************************************)
EXTENDS Integers, Sequences, FiniteSets

Strings == {"OCTETSTRING", "OID", "RELOID", "NumericString", "PrintableString", "VisibleString", "IA5String", "BMPString",
            "UniversalString", "UTF8String", "TeletexString", "GeneralString", "GraphicString", "UTCTime", "GeneralizedTime"}

\* the classes a TypeScript type may have for an ASN.1 kind (leaf types are not pinned further)
Expected(kind) ==
    CASE kind = "NULL" -> {"null"}
      [] kind = "BOOLEAN" -> {"bool"}
      [] kind = "INTEGER" -> {"num"}
      [] kind = "ENUMERATED" -> {"enumunion", "lit", "enum"}
      [] kind = "BITSTRING" -> {"bits", "str"}
      [] kind = "OCTETSTRING" -> {"str", "strobj"}    \* the top-level template says  string | object
      [] kind \in Strings -> {"str"}
      [] kind = "ANY" -> {"any"}
      [] kind \in {"SEQUENCE", "SET"} -> {"obj"}
      [] kind = "CHOICE" -> {"choice", "obj"}
      [] kind \in {"SEQOF", "SETOF"} -> {"arr"}
      [] OTHER -> {kind}                     \* "REF:<Name>": exactly that reference

ClsOK(srcCls, obsCls) == obsCls \in Expected(srcCls)

\* object members in source order, `?` exactly for OPTIONAL and DEFAULT components
MembersOK(kind, src, obs) ==
    /\ Len(obs) = Len(src)
    /\ \A i \in 1..Len(src) :
          /\ obs[i].name = src[i].name
          /\ ClsOK(src[i].cls, obs[i].cls)
          /\ obs[i].opt = (kind # "CHOICE" /\ src[i].opt)
\* an index signature exactly for extensible SEQUENCE and SET types
IndexOK(kind, marker, implied, index) ==
    IF kind = "CHOICE" THEN ~index
    ELSE IF marker THEN index
    ELSE IF implied THEN TRUE          \* EXTENSIBILITY IMPLIED: the property does not say; either is accepted
    ELSE ~index
=============================================================================
