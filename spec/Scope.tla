------------------------------- MODULE Scope -------------------------------
(***************************************************************************)
(* The scope in which a parameterized type is instantiated (properties C12 *)
(* and C09; X.683 8.3: a dummy reference is visible in the parameterized   *)
(* assignment only, and there it hides any other reference of that name).  *)
(*                                                                         *)
(* The linker keeps ONE map  name -> declaration  for all modules of a     *)
(* compilation.  To instantiate  T { actuals }  it builds a scope from     *)
(* that map and the bindings  dummy -> actual  and links the template's    *)
(* body in it (validator/linking: resolve_parameters).  The scope is built *)
(* in two steps; Layering says which step comes last, i.e. which side wins *)
(* where a dummy is spelled like a declaration of some module:             *)
(*    "dummies_last"   copy the declarations, then bind the dummies (code) *)
(*    "globals_last"   bind the dummies, then extend by the declarations   *)
(*                     (the change C12-m7)                                 *)
(* The neighbours are modules the instantiating module does not import     *)
(* from; whether they are present must not matter.                         *)
(***************************************************************************)
EXTENDS Integers, FiniteSets, Sequences

CONSTANT Layering

Dummies == {"Payload", "limit"}                 \* a type dummy and a value dummy
Names == Dummies \cup {"Other"}
Actual == [Payload |-> "BOOLEAN", limit |-> "7"]
\* what a neighbour would declare under each name
Foreign == [Payload |-> "OCTET STRING", limit |-> "100", Other |-> "NULL"]

VARIABLES globals,      \* names declared by the neighbours present in this compilation
          scope,        \* the instantiation scope being built: a function on a subset of Names
          step          \* "start" | "first" | "second" | "linked"
vars == <<globals, scope, step>>

Init == globals \in SUBSET Names /\ scope = <<>> /\ step = "start"

Merge(f, g) == [n \in DOMAIN f \cup DOMAIN g |-> IF n \in DOMAIN g THEN g[n] ELSE f[n]]    \* g wins
GlobalMap == [n \in globals |-> Foreign[n]]
DummyMap == [n \in Dummies |-> Actual[n]]

First == /\ step = "start"
         /\ scope' = IF Layering = "dummies_last" THEN GlobalMap ELSE DummyMap
         /\ step' = "first" /\ UNCHANGED globals
Second == /\ step = "first"
          /\ scope' = IF Layering = "dummies_last" THEN Merge(scope, DummyMap) ELSE Merge(scope, GlobalMap)
          /\ step' = "second" /\ UNCHANGED globals
Link == step = "second" /\ step' = "linked" /\ UNCHANGED <<globals, scope>>
Next == First \/ Second \/ Link
Spec == Init /\ [][Next]_vars

\* every dummy stands for its actual parameter, whatever the neighbours declare
DummiesAreLocal == step = "linked" => \A d \in Dummies : scope[d] = Actual[d]
\* hence the instance is a function of the instantiating module alone
InstanceOf(sc) == [d \in Dummies |-> sc[d]]
NeighboursDoNotMatter == step = "linked" => InstanceOf(scope) = InstanceOf(DummyMap)
\* names that are not dummies still resolve to the declarations
GlobalsStillVisible == step = "linked" => \A n \in globals \ Dummies : scope[n] = Foreign[n]
=============================================================================
