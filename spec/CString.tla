------------------------------ MODULE CString ------------------------------
(***************************************************************************)
(* The lexical item "cstring" (X.680 12.14) and the character string it    *)
(* represents (properties C15: a FROM operand that is a single string, and *)
(* C07: character string values and DEFAULTs).                             *)
(*                                                                         *)
(*   12.14.1  a QUOTATION MARK of the string is written as a pair of them; *)
(*            a cstring may span more than one line, in which case "the    *)
(*            character string being represented shall not include spacing *)
(*            characters in the position prior to or following the end of  *)
(*            line": the end of line and the spacing next to it have no    *)
(*            significance.  Spacing next to the enclosing quotation marks *)
(*            IS part of the string.                                       *)
(*                                                                         *)
(* A spelling is what stands between the enclosing quotation marks, as a   *)
(* sequence of symbols: graphic characters a b, spacing characters sp ht   *)
(* (12.1.6 white-space), ends of line lf crlf (12.1.6 newline) and qq, the *)
(* doubled quotation mark.  The represented string is a sequence over      *)
(* a b sp ht q.                                                            *)
(*                                                                         *)
(* Two definitions of the represented string: `Denote` (declarative: which *)
(* positions are significant) and the scanner, one action per symbol the   *)
(* lexer consumes (out = what is certainly part of the string, pend = a    *)
(* run of spacing whose fate the next symbol decides, afterNL = the line   *)
(* has only had spacing so far and is not the first).  TLC checks that     *)
(* they agree on every spelling up to MaxLen symbols, and the laws below.  *)
(***************************************************************************)
EXTENDS Integers, Sequences, FiniteSets

CONSTANT MaxLen

Chars    == {"a", "b"}
Spacing  == {"sp", "ht"}
Newlines == {"lf", "crlf"}
Syms     == Chars \cup Spacing \cup Newlines \cup {"qq"}

Val(s) == IF s = "qq" THEN "q" ELSE s

(* ---- declarative ------------------------------------------------------- *)
\* position i holds spacing that is joined to an end of line by spacing only
TouchesNL(w, i) ==
    /\ w[i] \in Spacing
    /\ \/ \E j \in (i+1)..Len(w) : w[j] \in Newlines /\ \A k \in i..(j-1) : w[k] \in Spacing
       \/ \E j \in 1..(i-1) : w[j] \in Newlines /\ \A k \in (j+1)..i : w[k] \in Spacing
Significant(w, i) == w[i] \notin Newlines /\ ~TouchesNL(w, i)
RECURSIVE DenFrom(_, _)
DenFrom(w, i) == IF i > Len(w) THEN <<>>
                 ELSE IF Significant(w, i) THEN <<Val(w[i])>> \o DenFrom(w, i + 1)
                 ELSE DenFrom(w, i + 1)
Denote(w) == DenFrom(w, 1)
Alphabet(w) == {Denote(w)[i] : i \in 1..Len(Denote(w))}

(* ---- the scanner -------------------------------------------------------- *)
VARIABLES w, out, pend, afterNL, phase
vars == <<w, out, pend, afterNL, phase>>

Init == w = <<>> /\ out = <<>> /\ pend = <<>> /\ afterNL = FALSE /\ phase = "open"

Graphic(s) == /\ phase = "open" /\ Len(w) < MaxLen /\ s \in Chars \cup {"qq"}
              /\ w' = Append(w, s)
              /\ out' = out \o pend \o <<Val(s)>>      \* spacing in front of it was inside a line
              /\ pend' = <<>> /\ afterNL' = FALSE /\ phase' = phase
Space(s)   == /\ phase = "open" /\ Len(w) < MaxLen /\ s \in Spacing
              /\ w' = Append(w, s)
              /\ pend' = IF afterNL THEN pend ELSE Append(pend, s)   \* at the start of a continuation line: dropped at once
              /\ UNCHANGED <<out, afterNL, phase>>
EndOfLine(s) == /\ phase = "open" /\ Len(w) < MaxLen /\ s \in Newlines
                /\ w' = Append(w, s)
                /\ pend' = <<>>                          \* spacing prior to the end of line: no significance
                /\ afterNL' = TRUE
                /\ UNCHANGED <<out, phase>>
Close == /\ phase = "open"
         /\ out' = out \o pend                           \* spacing in front of the closing quotation mark is kept ...
         /\ pend' = <<>> /\ phase' = "done"
         /\ UNCHANGED <<w, afterNL>>
\* ... unless the closing quotation mark stands at the start of a continuation line: then pend is empty anyway (afterNL)

Next == \/ \E s \in Syms : Graphic(s) \/ Space(s) \/ EndOfLine(s)
        \/ Close
Spec == Init /\ [][Next]_vars

Done == phase = "done"

TypeOK == /\ w \in Seq(Syms) /\ Len(w) <= MaxLen
          /\ pend \in Seq(Spacing)
          /\ afterNL \in BOOLEAN /\ phase \in {"open", "done"}
\* while the item is open, what was scanned so far plus the undecided spacing is the string of the item closed here
Inductive == phase = "open" => out \o pend = Denote(w)
ScanAgrees == Done => out = Denote(w)
\* an item on one line is taken as written
OneLineVerbatim == (Done /\ \A i \in 1..Len(w) : w[i] \notin Newlines) => out = [i \in 1..Len(w) |-> Val(w[i])]
\* spacing next to the enclosing quotation marks belongs to the string
OuterSpacingKept ==
    Done => /\ (Len(w) >= 2 /\ w[1] \in Spacing /\ w[2] \in Chars \cup {"qq"}) => (out # <<>> /\ out[1] = w[1])
            /\ (Len(w) >= 2 /\ w[Len(w)] \in Spacing /\ w[Len(w)-1] \in Chars \cup {"qq"}) => (out # <<>> /\ out[Len(out)] = w[Len(w)])
\* every graphic character and every doubled quotation mark is represented, in order
Graphics(s) == SelectSeq(s, LAMBDA x : x \in Chars \cup {"q"})
GraphicsKept == Done => Graphics(out) = Graphics([i \in 1..Len(w) |-> Val(w[i])])
\* layout law: spacing added next to an end of line changes nothing
InsertAt(s, i, x) == SubSeq(s, 1, i - 1) \o <<x>> \o SubSeq(s, i, Len(s))
PaddingInsignificant ==
    Done => \A i \in 1..Len(w) : w[i] \in Newlines =>
               \A x \in Spacing : Denote(InsertAt(w, i, x)) = Denote(w) /\ Denote(InsertAt(w, i + 1, x)) = Denote(w)
\* and so does the choice of the end-of-line convention
NewlineKindInsignificant ==
    Done => \A i \in 1..Len(w) : w[i] = "lf" => Denote([w EXCEPT ![i] = "crlf"]) = Denote(w)

(* ---- designs that are NOT the clause (refuted by TLC, see MC_CString_*.cfg) ---------------- *)
\* "verbatim": the item is taken as written, line breaks and indentation included (the tree before the repair)
DenoteVerbatim(s) == [i \in 1..Len(s) |-> IF s[i] \in Newlines THEN "nl" ELSE Val(s[i])]
VerbatimIsClause == Done => DenoteVerbatim(w) = Denote(w)
\* "trim every line": also the start of the first and the end of the last line are trimmed (C15-m6)
RECURSIVE LinesOf(_, _, _)
LinesOf(s, i, cur) == IF i > Len(s) THEN <<cur>>
                      ELSE IF s[i] \in Newlines THEN <<cur>> \o LinesOf(s, i + 1, <<>>)
                      ELSE LinesOf(s, i + 1, Append(cur, s[i]))
RECURSIVE TrimL(_)
TrimL(s) == IF s # <<>> /\ s[1] \in Spacing THEN TrimL(Tail(s)) ELSE s
RECURSIVE TrimR(_)
TrimR(s) == IF s # <<>> /\ s[Len(s)] \in Spacing THEN TrimR(SubSeq(s, 1, Len(s) - 1)) ELSE s
RECURSIVE Concat(_, _)
Concat(ls, i) == IF i > Len(ls) THEN <<>> ELSE ls[i] \o Concat(ls, i + 1)
DenoteTrimAll(s) == LET ls == LinesOf(s, 1, <<>>) IN
                    IF Len(ls) = 1 THEN [i \in 1..Len(s) |-> Val(s[i])]
                    ELSE LET t == Concat([i \in 1..Len(ls) |-> TrimL(TrimR(ls[i]))], 1) IN [i \in 1..Len(t) |-> Val(t[i])]
TrimAllIsClause == Done => DenoteTrimAll(w) = Denote(w)
\* the line-wise reading of the clause: trim the inner ends only.  This one IS the clause.
DenoteByLines(s) == LET ls == LinesOf(s, 1, <<>>)
                        n == Len(ls)
                        t == Concat([i \in 1..n |-> LET a == IF i > 1 THEN TrimL(ls[i]) ELSE ls[i]
                                                    IN IF i < n THEN TrimR(a) ELSE a], 1)
                    IN [i \in 1..Len(t) |-> Val(t[i])]
ByLinesIsClause == Done => DenoteByLines(w) = Denote(w)
=============================================================================
