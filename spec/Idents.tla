------------------------------- MODULE Idents -------------------------------
(***************************************************************************)
(* Generated identifiers (property C16).                                   *)
(*                                                                         *)
(* Names are sequences of one-character strings.  An ASN.1 name is built   *)
(* character by character over a small alphabet (two lower-case, two       *)
(* upper-case letters, a digit, the hyphen) following X.680 12.2/12.3      *)
(* (type and module references start with an upper-case letter, the other  *)
(* identifiers with a lower-case one; no trailing hyphen, no "--"), or it  *)
(* is a Rust keyword in lower / upper / title spelling.                    *)
(*                                                                         *)
(* Legal(role, asn, rust, annot) is what the property demands of the Rust  *)
(* identifier generated for the ASN.1 name in a given role.                *)
(***************************************************************************)
EXTENDS Integers, Sequences, FiniteSets

Lowers == <<"a","b","c","d","e","f","g","h","i","j","k","l","m","n","o","p","q","r","s","t","u","v","w","x","y","z">>
Uppers == <<"A","B","C","D","E","F","G","H","I","J","K","L","M","N","O","P","Q","R","S","T","U","V","W","X","Y","Z">>
Digits == {"0","1","2","3","4","5","6","7","8","9"}
LowerSet == {Lowers[i] : i \in 1..26}
UpperSet == {Uppers[i] : i \in 1..26}
Letters == LowerSet \cup UpperSet

ToLower(c) == IF c \in UpperSet THEN Lowers[CHOOSE i \in 1..26 : Uppers[i] = c] ELSE c

\* strict and reserved keywords of the Rust Reference (all editions up to 2021), as strings;
\* weak keywords (union, macro_rules, safe, raw, 'static) are legal identifiers
StrictKeywords == {"as","break","const","continue","crate","else","enum","extern","false","fn","for","if","impl","in",
                   "let","loop","match","mod","move","mut","pub","ref","return","self","Self","static","struct","super",
                   "trait","true","type","unsafe","use","where","while","async","await","dyn"}
ReservedKeywords == {"abstract","become","box","do","final","macro","override","priv","typeof","unsized","virtual","yield","try"}
Keywords == StrictKeywords \cup ReservedKeywords

Roles == {"module", "type", "component", "alternative", "enumeral", "value"}
\* roles whose name is used by text-based encodings: an annotation must keep the ASN.1 spelling
AnnotatedRoles == {"type", "component", "alternative", "enumeral"}

RECURSIVE Without(_, _)
Without(s, S) == IF s = <<>> THEN <<>>
                 ELSE IF Head(s) \in S THEN Without(Tail(s), S) ELSE <<Head(s)>> \o Without(Tail(s), S)
Norm(s) == LET t == Without(s, {"-", "_"}) IN [i \in 1..Len(t) |-> ToLower(t[i])]

HasEscape(r) == Len(r) >= 3 /\ r[1] \in {"r", "R"} /\ r[2] = "_"
Unescaped(r) == SubSeq(r, 3, Len(r))

\* a legal Rust identifier that is not a strict or reserved keyword
RustIdent(r, rstr) ==
    /\ Len(r) >= 1
    /\ r[1] \in Letters \cup {"_"}
    /\ \A i \in 1..Len(r) : r[i] \in Letters \cup Digits \cup {"_"}
    /\ ~(Len(r) = 1 /\ r[1] = "_")
    /\ rstr \notin Keywords

\* the documented case rule of each role
CaseRule(role, r) ==
    CASE role = "type"      -> r[1] \in UpperSet
      [] role = "module"    -> \A i \in 1..Len(r) : r[i] \notin UpperSet
      [] role = "component" -> \A i \in 1..Len(r) : r[i] \notin UpperSet
      [] role = "value"     -> \A i \in 1..Len(r) : r[i] \notin LowerSet
      [] OTHER              -> TRUE      \* alternatives and enumerals keep their spelling apart from "-"

\* snake case keeps the words of the name apart: a word ends at a hyphen and where a lower-case letter or a digit is followed by
\* an upper-case letter (helloWorld, HelloWORLD and hello-world all read hello_world; the generator's own unit test pins this)
RECURSIVE SnakeFrom(_, _)
SnakeFrom(a, i) ==
    IF i > Len(a) THEN <<>>
    ELSE LET c == a[i]
             out == IF c = "-" THEN "_" ELSE ToLower(c)
             boundary == c \in LowerSet \cup Digits /\ i < Len(a) /\ a[i + 1] \in UpperSet
         IN (IF boundary THEN <<out, "_">> ELSE <<out>>) \o SnakeFrom(a, i + 1)
Snake(a) == SnakeFrom(a, 1)
Lowered(r) == [i \in 1..Len(r) |-> ToLower(r[i])]
\* components and modules are written in snake case, values in upper snake case (an escape prefix aside)
ExactCase(role, a, r) ==
    LET body == IF Len(r) >= 3 /\ r[1] \in {"r", "R"} /\ r[2] = "_" /\ Lowered(SubSeq(r, 3, Len(r))) = Snake(a) THEN SubSeq(r, 3, Len(r)) ELSE r IN
    CASE role \in {"component", "module"} -> body = Snake(a)
      [] role = "value" -> Lowered(body) = Snake(a)
      [] OTHER -> TRUE

\* the ASN.1 name is recoverable: strip "_", the escape prefix and case
Recoverable(a, r) == Norm(r) = Norm(a) \/ (HasEscape(r) /\ Norm(Unescaped(r)) = Norm(a))

Legal(role, a, r, rstr, hasAnnot, annot, astr) ==
    /\ RustIdent(r, rstr)
    /\ CaseRule(role, r)
    /\ ExactCase(role, a, r)
    /\ Recoverable(a, r)
    /\ (role \in AnnotatedRoles /\ r # a) => (hasAnnot /\ annot = astr)
    /\ hasAnnot => annot = astr

----------------------------------------------------------------------------
CONSTANTS MaxLen, Alphabet, KeywordSample

VARIABLES name,    \* the ASN.1 name as a sequence of characters (built here), or <<>> for a keyword case
          kw,      \* keyword case: the keyword, else ""
          spell,   \* keyword case: "lower" | "upper" | "title"
          role, phase
vars == <<name, kw, spell, role, phase>>

Init == name = <<>> /\ kw = "" /\ spell = "" /\ role = "?" /\ phase = "build"

\* X.680 12.2 / 12.3
FirstOK(r, c) == IF r \in {"type", "module"} THEN c \in UpperSet ELSE c \in LowerSet
AppendChar(c) == /\ phase = "build" /\ kw = "" /\ Len(name) < MaxLen
                 /\ name = <<>> => c \in Letters
                 /\ (c = "-" /\ name # <<>>) => name[Len(name)] # "-"
                 /\ name' = Append(name, c)
                 /\ UNCHANGED <<kw, spell, role, phase>>
PickKeyword(k, s) == /\ phase = "build" /\ name = <<>> /\ kw = ""
                     /\ kw' = k /\ spell' = s
                     /\ UNCHANGED <<name, role, phase>>
PickRole(r) == /\ phase = "build"
               /\ \/ /\ name # <<>> /\ name[Len(name)] # "-" /\ FirstOK(r, name[1])
                  \/ /\ kw # ""
                     \* a type / module reference cannot be spelled in lower case, the other
                     \* identifiers not in upper or title case
                     /\ IF r \in {"type", "module"} THEN spell \in {"title", "upper"} ELSE spell = "lower"
               /\ role' = r /\ phase' = "done"
               /\ UNCHANGED <<name, kw, spell>>
Next == \/ \E c \in Alphabet : AppendChar(c)
        \/ \E k \in KeywordSample, s \in {"lower", "upper", "title"} : PickKeyword(k, s)
        \/ \E r \in Roles : PickRole(r)
Spec == Init /\ [][Next]_vars

Done == phase = "done"

\* the reference mangling (what an ideal generator would emit) is Legal -- so Legal is satisfiable
\* for every name of the space; checked for the built names only (keywords need the escape)
RefSnake(a) == LET t == [i \in 1..Len(a) |-> IF a[i] = "-" THEN "_" ELSE ToLower(a[i])] IN t
RefSatisfiable == (Done /\ kw = "" /\ role = "component") =>
                      /\ CaseRule("component", RefSnake(name))
                      /\ Recoverable(name, RefSnake(name))
NameWF == Done => (kw # "" \/ (name[Len(name)] # "-" /\ \A i \in 1..(Len(name) - 1) : ~(name[i] = "-" /\ name[i+1] = "-")))

(* ---- derived identifiers: the default function of a component ------------------------------------------ *)
\* A DEFAULT component c of a type T gets a function  <snake of T's Rust name>_<snake of c>_default ; it is named at three
\* sites: where it is defined, in the component's default annotation, and in the `impl Default` of a type whose components
\* all have a DEFAULT.  The Rust name of T is its title-case form (hyphens removed, the letter after a hyphen raised).
RECURSIVE TitleFrom(_, _, _)
TitleFrom(a, i, up) == IF i > Len(a) THEN <<>>
                       ELSE IF a[i] = "-" THEN TitleFrom(a, i + 1, TRUE)
                       ELSE <<IF up THEN (IF a[i] \in LowerSet THEN Uppers[CHOOSE k \in 1..26 : Lowers[k] = a[i]] ELSE a[i]) ELSE a[i]>> \o TitleFrom(a, i + 1, FALSE)
Title(a) == TitleFrom(a, 1, TRUE)
\* Site = which name of the parent the site starts from: "rust" (the item's identifier) or "asn1" (the ASN.1 spelling)
DefaultFnParent(site, a) == IF site = "rust" THEN Snake(Title(a)) ELSE Snake(a)
\* the sites agree on every type name iff they start from the same name: snake case of the title-case form loses the word
\* boundary a hyphen marks after an upper-case run (PDU-Config: pduconfig vs. pdu_config)
DefaultFnAgreement(siteDef, siteUse) == (Done /\ kw = "" /\ role = "type") => DefaultFnParent(siteDef, name) = DefaultFnParent(siteUse, name)
SitesAgreeCode == DefaultFnAgreement("rust", "rust")
SitesAgreeMixed == DefaultFnAgreement("rust", "asn1")     \* the tree before the repair: refuted (MC_C16_defaultfn.cfg)
=============================================================================
