------------------------------ MODULE RustShape ------------------------------
(***************************************************************************)
(* Shape of the Rust item generated for a constructed ASN.1 type           *)
(* (property C02).  Constant-level operators used by the trace             *)
(* specification; the source side of every judgement comes from the        *)
(* Notation node table, the observed side from the syn projection.         *)
(*                                                                         *)
(* A source member is [name, cls, opt, add, refs]; cls is the Notation     *)
(* kind, or "REF:<Definition>" for a type reference.  An observed member   *)
(* is [name, cls, optional, boxed, has_default, fn_found, fn_type_matches, *)
(* ext] with cls computed structurally (a hoisted anonymous type is        *)
(* classified by what its item is, not by its name).                       *)
(***************************************************************************)
EXTENDS Integers, Sequences, FiniteSets

\* ---- graphs given as sequences of <<a, b>> pairs -------------------------
EdgeSet(es) == {<<es[i][1], es[i][2]>> : i \in 1..Len(es)}
Verts(E) == {e[1] : e \in E} \cup {e[2] : e \in E}
\* transitive closure by repeated composition (at most |V| rounds)
RECURSIVE TC(_, _, _)
TC(R, E, n) == IF n = 0 THEN R
               ELSE LET step == R \cup {<<x[1], y[2]>> : x \in R, y \in E} IN
                    LET comp == {p \in step : p \in R \/ \E x \in R, y \in E : x[2] = y[1] /\ p = <<x[1], y[2]>>}
                    IN IF comp = R THEN R ELSE TC(comp, E, n - 1)
TransClosure(E) == TC(E, E, Cardinality(Verts(E)) + 1)
\* every by-value containment cycle must pass through a Box or a SequenceOf/SetOf
FiniteSize(byValueClosure) == \A p \in byValueClosure : p[1] # p[2]

\* ---- one constructed type -------------------------------------------------
ExpectedItemKind(kind, n) == IF kind = "CHOICE" THEN {"enum"} ELSE {"struct", "unit_struct"}

\* can a value of this member contain (transitively) a value of the owner definition?
CanReachOwner(m, owner, srcClosure) == \E i \in 1..Len(m.refs) : m.refs[i] = owner \/ <<m.refs[i], owner>> \in srcClosure

\* rasn has one type for OBJECT IDENTIFIER and RELATIVE-OID values
\* an object-class field type that names a fixed-type value field stands for that field's type (X.681 14.1; the class the
\* generator grammar declares has  &id INTEGER)
ClassMatches(src, obs) == obs = src \/ (src = "RELOID" /\ obs = "OID") \/ (src = "CLASSFIELD" /\ obs = "INTEGER")

MemberOK(kind, s, o, owner, srcClosure) ==
    /\ o.name = s.name
    /\ ClassMatches(s.cls, o.cls)
    /\ o.optional = (kind # "CHOICE" /\ s.opt = "opt")
    /\ o.has_default = (s.opt = "def")
    /\ o.has_default => (o.fn_found /\ o.fn_type_matches)
    /\ o.boxed => CanReachOwner(s, owner, srcClosure)
    /\ o.ext = s.add

Corresponds(e, srcClosure) ==
    /\ e.item_kind \in ExpectedItemKind(e.kind, Len(e.src))
    /\ e.is_set = (e.kind = "SET")
    /\ Len(e.obs) = Len(e.src)
    /\ \A i \in 1..Len(e.src) : MemberOK(e.kind, e.src[i], e.obs[i], e.def, srcClosure)

ListOK(e) == /\ e.obs_list = e.kind
             /\ ClassMatches(e.src_elem, e.obs_elem)

WhyNot(e, srcClosure) ==
    IF e.item_kind \notin ExpectedItemKind(e.kind, Len(e.src)) THEN "generated item has the wrong kind (struct/enum)"
    ELSE IF e.is_set # (e.kind = "SET") THEN "SET not marked as set (or a non-SET marked)"
    ELSE IF Len(e.obs) # Len(e.src) THEN "a component was added, dropped or duplicated"
    ELSE LET bad == CHOOSE i \in 1..Len(e.src) : ~MemberOK(e.kind, e.src[i], e.obs[i], e.def, srcClosure)
             s == e.src[bad]
             o == e.obs[bad]
         IN IF o.name # s.name THEN "components reordered or renamed"
            ELSE IF ~ClassMatches(s.cls, o.cls) THEN "Rust type of a component does not correspond to its ASN.1 type"
            ELSE IF o.optional # (e.kind # "CHOICE" /\ s.opt = "opt") THEN "Option<_> does not follow OPTIONAL"
            ELSE IF o.has_default # (s.opt = "def") \/ (o.has_default /\ ~(o.fn_found /\ o.fn_type_matches)) THEN "default function does not follow DEFAULT"
            ELSE IF o.boxed THEN "a component that is not on a reference cycle is boxed"
            ELSE "extension addition marking does not follow the marker"
=============================================================================
