------------------------------ MODULE Alphabet ------------------------------
(***************************************************************************)
(* Permitted-alphabet constraints (property C15; X.680 clause 51.7 /       *)
(* 50.1 for FROM and set arithmetic, X.691 10.3.21 / 30.5 for what PER     *)
(* sees).                                                                  *)
(*                                                                         *)
(* The alphabet of a string type is cut into N ordered "atoms"             *)
(*      B  c  c  B  c  c  B  c  B          (B block, c single character)   *)
(* Single-character atoms can be written in strings and as range ends; a   *)
(* block is a run of characters that can only be reached by a range that   *)
(* spans it.  The harness maps atoms to real characters per string type,   *)
(* so one model serves all types; sets of characters are sets of atoms.    *)
(*                                                                         *)
(* An operand is a string (a sequence of single-character atoms), a range  *)
(* lo..hi between two single-character atoms (all atoms in between         *)
(* included), or the inclusion of the constrained type Incl whose alphabet *)
(* is InclSet.  Operators as in PerVisible: u | , i ^ , x EXCEPT.          *)
(***************************************************************************)
EXTENDS Integers, Sequences, FiniteSets

N == 9
Atoms == 1..N
Singles == {2, 3, 5, 6, 8}
InclSet == {3, 5}            \* Incl ::= <type> (FROM ("<3><5>"))

CONSTANTS MaxOperands, MaxStrLen, KMTypes, OtherTypes

StrOperands == UNION {[1..n -> Singles] : n \in 1..MaxStrLen}
Operands == {[k |-> "str", chars |-> s, lo |-> 0, hi |-> 0] : s \in StrOperands}
            \cup {[k |-> "range", chars |-> <<>>, lo |-> a, hi |-> b] : a, b \in Singles \cap {x \in Atoms : TRUE}}
            \cup {[k |-> "incl", chars |-> <<>>, lo |-> 0, hi |-> 0]}
\* Further spellings of a range: an end may be MIN / MAX (the first / last character of the type, X.680 51.5.2: the record holds
\* the atom it stands for), and an end may be written as a reference to a value of the string type (v = "written as a value
\* reference").  They denote what the plain range between the same atoms denotes.
RangeKinds == {"range", "range_min", "range_max", "range_vlo", "range_vhi", "range_vlo_max", "range_min_vhi"}
IsRange(o) == o.k \in RangeKinds
RefEnds == {3, 6}
ExtOperands == {[k |-> "range_min", chars |-> <<>>, lo |-> 1, hi |-> b] : b \in Singles}
               \cup {[k |-> "range_max", chars |-> <<>>, lo |-> a, hi |-> N] : a \in Singles}
               \cup {[k |-> "range_vlo", chars |-> <<>>, lo |-> a, hi |-> b] : a \in RefEnds, b \in Singles}
               \cup {[k |-> "range_vhi", chars |-> <<>>, lo |-> a, hi |-> b] : a \in Singles, b \in RefEnds}
               \cup {[k |-> "range_vlo_max", chars |-> <<>>, lo |-> a, hi |-> N] : a \in RefEnds}
               \cup {[k |-> "range_min_vhi", chars |-> <<>>, lo |-> 1, hi |-> b] : b \in RefEnds}
IsExt(o) == o.k \in RangeKinds \ {"range"}
ToMax(o) == o.k \in {"range_max", "range_vlo_max"}
LegalOperand(o) == IsRange(o) => o.lo <= o.hi

Den(o) == CASE o.k = "str" -> {o.chars[i] : i \in 1..Len(o.chars)}
            [] IsRange(o) -> {a \in Atoms : o.lo <= a /\ a <= o.hi}
            [] OTHER -> InclSet

RECURSIVE ExElems(_, _, _, _)
\* keep: TRUE = EXCEPT honoured, FALSE = EXCEPT ignored
ExElems(os, ps, i, keep) ==
  IF i > Len(os) THEN <<>>
  ELSE IF i <= Len(ps) /\ ps[i] = "x"
       THEN <<IF keep THEN Den(os[i]) \ Den(os[i+1]) ELSE Den(os[i])>> \o ExElems(os, ps, i + 2, keep)
       ELSE <<Den(os[i])>> \o ExElems(os, ps, i + 1, keep)
RECURSIVE ExOps(_, _)
ExOps(ps, i) == IF i > Len(ps) THEN <<>>
                ELSE IF ps[i] = "x" THEN ExOps(ps, i + 1) ELSE <<ps[i]>> \o ExOps(ps, i + 1)
RECURSIVE InterGroups(_, _, _, _)
InterGroups(sets, qs, i, acc) ==
  IF i > Len(sets) THEN <<acc>>
  ELSE IF i = 1 THEN InterGroups(sets, qs, 2, sets[1])
  ELSE IF qs[i-1] = "i" THEN InterGroups(sets, qs, i + 1, acc \cap sets[i])
  ELSE <<acc>> \o InterGroups(sets, qs, i + 1, sets[i])
UnionAll(ss) == UNION {ss[i] : i \in 1..Len(ss)}

\* the characters the FROM constraint allows
Allowed(os, ps) == UnionAll(InterGroups(ExElems(os, ps, 1, TRUE), ExOps(ps, 1), 1, {}))
\* ... with every EXCEPT part ignored (X.691 10.3.21 permits a PER encoder to do so)
AllowedNoExcept(os, ps) == UnionAll(InterGroups(ExElems(os, ps, 1, FALSE), ExOps(ps, 1), 1, {}))
HasExcept(ps) == \E i \in 1..Len(ps) : ps[i] = "x"

VARIABLES os, ps, ty, sizepos, pos, phase
vars == <<os, ps, ty, sizepos, pos, phase>>

Init == os = <<>> /\ ps = <<>> /\ ty = "?" /\ sizepos = "?" /\ pos = "?" /\ phase = "expr"
FirstOperand(o) == phase = "expr" /\ os = <<>> /\ LegalOperand(o) /\ os' = <<o>> /\ UNCHANGED <<ps, ty, sizepos, pos, phase>>
\* the further spellings are explored as first operand, alone or combined with a string
AddOperand(p, o) == /\ phase = "expr" /\ os # <<>> /\ Len(os) < MaxOperands /\ LegalOperand(o)
                    /\ IsExt(os[1]) => (o.k = "str" /\ Len(os) = 1)
                    /\ (p = "x" /\ Len(ps) > 0) => ps[Len(ps)] # "x"
                    /\ os' = Append(os, o) /\ ps' = Append(ps, p)
                    /\ UNCHANGED <<ty, sizepos, pos, phase>>
\* sizepos: where a SIZE constraint is combined with the FROM constraint:
\*   none | before: (SIZE(1..4) ^ FROM(..)) | after: (FROM(..) ^ SIZE(1..4)) | serial: (FROM(..))(SIZE(1..4))
\*   before_ext / after_ext: the same with an extensible SIZE (1..4, ...)
SizePositions == {"none", "before", "after", "serial", "before_ext", "after_ext"}
\* The compiler's handling of the 65 534-character tables of BMPString / UniversalString is so
\* slow on the fold that intersects a multi-operand FROM with SIZE in one constraint (seconds
\* per definition) that this combination is left out for those two types.
WideTypes == {"BMPString", "UniversalString"}
Place(t, sp, p) == /\ phase = "expr" /\ os # <<>>
                   /\ (t \in WideTypes /\ Len(os) >= 2) => sp \in {"none", "serial"}
                   \* (a range up to MAX spans the whole table of a wide type: minutes per definition)
                   \* for a type that is not known-multiplier the question is only whether an annotation appears: two-operand
                   \* expressions are placed under the first such type only (CHOOSE is deterministic)
                   /\ (t \in OtherTypes /\ Len(os) >= 2) => (t = CHOOSE u \in OtherTypes : TRUE)
                   /\ IsExt(os[1]) => (sp \in {"none", "after"} /\ ~(t \in WideTypes /\ ToMax(os[1])))
                   /\ ty' = t /\ sizepos' = sp /\ pos' = p /\ phase' = "done"
                   /\ UNCHANGED <<os, ps>>
Next == \/ \E o \in Operands \cup ExtOperands : FirstOperand(o)
        \/ \E p \in {"u", "i", "x"}, o \in Operands : AddOperand(p, o)
        \/ \E t \in KMTypes \cup OtherTypes, sp \in SizePositions, p \in {"assignment", "component"} : Place(t, sp, p)
Spec == Init /\ [][Next]_vars

Done == phase = "done"
\* ignoring EXCEPT can only add characters; everything stays inside the base alphabet
ExceptMonotone == Done => Allowed(os, ps) \subseteq AllowedNoExcept(os, ps)
InsideBase == Done => AllowedNoExcept(os, ps) \subseteq Atoms
NoExceptSame == (Done /\ ~HasExcept(ps)) => Allowed(os, ps) = AllowedNoExcept(os, ps)
\* set-algebra laws on the first two operands (sanity of the precedence fold)
Laws == (Done /\ Len(os) = 2) =>
           /\ ps[1] = "u" => Allowed(os, ps) = Den(os[1]) \cup Den(os[2])
           /\ ps[1] = "i" => Allowed(os, ps) = Den(os[1]) \cap Den(os[2])
           /\ ps[1] = "x" => Allowed(os, ps) = Den(os[1]) \ Den(os[2])
=============================================================================
