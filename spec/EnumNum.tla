------------------------------ MODULE EnumNum ------------------------------
(***************************************************************************)
(* ENUMERATED numbering, X.680 clause 20 (property C14).                   *)
(*                                                                         *)
(* An enumeration is built item by item (actions AddRoot, Marker, AddExt)  *)
(* and then numbered (action Number).  An item is either identifier-only   *)
(* (NoNum) or carries an explicit number from Nums.                        *)
(*                                                                         *)
(*  20.5  identifier-only root items get successive integers from 0 that   *)
(*        skip the numbers used explicitly in the root;                    *)
(*  20.4  every addition is greater than all preceding additions;          *)
(*  20.6  an identifier-only addition gets the smallest number not used in *)
(*        the root that is greater than all preceding additions;           *)
(*  20.3  all numbers are distinct.                                        *)
(*                                                                         *)
(* Inputs that break 20.3/20.4 are illegal ASN.1; they end in phase        *)
(* "illegal" and are not part of the space the property quantifies over.   *)
(***************************************************************************)
EXTENDS Integers, Sequences, FiniteSets

CONSTANTS MaxRoot, MaxExt, Nums

NoNum == 99

Item == Nums \cup {NoNum}

VARIABLES root,     \* sequence of Item: the root enumeration
          ext,      \* sequence of Item: the additions
          marker,   \* BOOLEAN: extension marker present
          phase,    \* "root" | "ext" | "done" | "illegal"
          out       \* the numbers assigned, root ++ ext (meaningful in "done")

vars == <<root, ext, marker, phase, out>>

Explicit(s) == {s[i] : i \in {j \in 1..Len(s) : s[j] # NoNum}}

Bound == MaxRoot + MaxExt + 8

\* smallest natural number >= from that is not in u
NextFree(u, from) == CHOOSE n \in from..(from + Cardinality(u) + 1) :
                        /\ n \notin u
                        /\ \A m \in from..(n-1) : m \in u

RECURSIVE NumberRoot(_, _, _)
\* items, position, numbers no longer available to identifier-only items
NumberRoot(items, i, used) ==
    IF i > Len(items) THEN <<>>
    ELSE LET n == IF items[i] = NoNum THEN NextFree(used, 0) ELSE items[i]
         IN <<n>> \o NumberRoot(items, i + 1, used \cup {n})

SeqToSet(s) == {s[i] : i \in 1..Len(s)}

MaxOf(S) == CHOOSE m \in S : \A x \in S : x <= m

RECURSIVE NumberExt(_, _, _, _)
\* additions, position, set of root numbers, greatest addition so far (or -1000)
\* yields <<ok, numbers>>
NumberExt(items, i, rootNums, last) ==
    IF i > Len(items) THEN <<TRUE, <<>>>>
    ELSE LET lo == IF last + 1 < 0 THEN 0 ELSE last + 1
             n  == IF items[i] = NoNum THEN NextFree(rootNums, lo) ELSE items[i]
             legal == n > last /\ n \notin rootNums
             rest == NumberExt(items, i + 1, rootNums, n)
         IN IF legal THEN <<rest[1], <<n>> \o rest[2]>> ELSE <<FALSE, <<>>>>

DistinctSeq(s) == \A i, j \in 1..Len(s) : i # j => s[i] # s[j]

RootNumbers(r) == NumberRoot(r, 1, Explicit(r))

Init == /\ root = <<>> /\ ext = <<>> /\ marker = FALSE /\ phase = "root" /\ out = <<>>

AddRoot(it) == /\ phase = "root" /\ Len(root) < MaxRoot
               /\ root' = Append(root, it)
               /\ UNCHANGED <<ext, marker, phase, out>>

Marker == /\ phase = "root" /\ Len(root) >= 1
          /\ marker' = TRUE /\ phase' = "ext"
          /\ UNCHANGED <<root, ext, out>>

AddExt(it) == /\ phase = "ext" /\ Len(ext) < MaxExt
              /\ ext' = Append(ext, it)
              /\ UNCHANGED <<root, marker, phase, out>>

Number == /\ phase \in {"root", "ext"} /\ Len(root) >= 1
          /\ LET rn == RootNumbers(root)
                 en == NumberExt(ext, 1, SeqToSet(rn), -1000)
             IN IF DistinctSeq(rn) /\ en[1]
                THEN phase' = "done" /\ out' = rn \o en[2]
                ELSE phase' = "illegal" /\ out' = <<>>
          /\ UNCHANGED <<root, ext, marker>>

Next == (\E it \in Item : AddRoot(it) \/ AddExt(it)) \/ Marker \/ Number

Spec == Init /\ [][Next]_vars

----------------------------------------------------------------------------
(* The property statement, clause by clause, as invariants of "done" states *)

Done == phase = "done"
All == root \o ext

\* explicit numbers are kept (including negative ones)
ExplicitKept == Done => \A i \in 1..Len(All) : All[i] # NoNum => out[i] = All[i]

\* all numbers within one type are distinct
Distinct == Done => DistinctSeq(out)

\* identifier-only root items are exactly the increasing enumeration of
\* Nat \ (explicit root numbers), i.e. the k-th identifier-only item gets the
\* k-th smallest natural number that is not an explicit root number
RootAutos == {i \in 1..Len(root) : root[i] = NoNum}
RootSuccessive ==
    Done => \A i \in RootAutos :
              /\ out[i] >= 0
              /\ out[i] \notin Explicit(root)
              /\ Cardinality({m \in 0..out[i] : m \notin Explicit(root)})
                   = Cardinality({j \in RootAutos : j <= i})

\* additions never reuse a number
AdditionsFresh == Done => \A i \in (Len(root)+1)..Len(out) : \A j \in 1..(i-1) : out[i] # out[j]

\* additions are increasing (20.4) -- part of the oracle, not demanded of the code
AdditionsIncreasing == Done => \A i, j \in (Len(root)+1)..Len(out) : i < j => out[i] < out[j]

TypeOK == /\ Len(root) <= MaxRoot /\ Len(ext) <= MaxExt
          /\ phase \in {"root", "ext", "done", "illegal"}

(* Conformance predicate used by the trace specification: what the property *)
(* demands of an observed numbering `obs` for the source items r, e.        *)
Conforms(r, e, obs) ==
    LET all == r \o e
        rn == RootNumbers(r)
    IN /\ Len(obs) = Len(all)
       /\ \A i \in 1..Len(all) : all[i] # NoNum => obs[i] = all[i]
       /\ \A i \in 1..Len(r) : obs[i] = rn[i]
       /\ DistinctSeq(obs)
=============================================================================
