------------------------------- MODULE Layout -------------------------------
(***************************************************************************)
(* Whitespace and comments between tokens (property C13; X.680 12.1.4,     *)
(* 12.6).                                                                  *)
(*                                                                         *)
(* Characters are abstracted to symbols                                    *)
(*    "s" white space other than newline     "n" newline                   *)
(*    "d" hyphen   "t" asterisk   "l" slash  "x" any other character       *)
(* A GAP is what may stand between two tokens: any sequence of white       *)
(* space, "-- ... (newline | --)" comments and nestable "/* ... */"        *)
(* comments.  The gap grammar is a generator (actions Ws, LineComment,     *)
(* InlineComment, OpenBlock, BlockChar, CloseBlock); the comment SCANNER   *)
(* of X.680 12.6 is an automaton (Outside, Line, Block(depth)).  TLC       *)
(* checks that the scanner consumes every generated gap completely and     *)
(* ends Outside -- so a gap can neither swallow the following token nor    *)
(* leave a character behind that would be taken for one.                   *)
(*                                                                         *)
(* Forms names the gap forms the harness substitutes; AbstractOf gives     *)
(* their symbol strings; Applicable says where a form may be put: the      *)
(* empty gap only between tokens that stay separable.                      *)
(***************************************************************************)
EXTENDS Integers, Sequences, FiniteSets

CONSTANTS MaxGap

Sym == {"s", "n", "d", "t", "l", "x"}

(* ---- the scanner: consumes a symbol string, reports where it stops ------ *)
\* state: [mode: "out" | "line" | "block", depth]
RECURSIVE Scan(_, _, _, _)
\* returns the mode in which the scanner is after the whole string, or "token" if it met, Outside,
\* a character that starts a token
Scan(g, i, mode, depth) ==
    IF i > Len(g) THEN (IF mode = "block" THEN "open-block" ELSE IF mode = "line" THEN "open-line" ELSE "out")
    ELSE LET c == g[i]
             c2 == IF i < Len(g) THEN g[i + 1] ELSE "eof"
         IN
         CASE mode = "out" ->
                IF c \in {"s", "n"} THEN Scan(g, i + 1, "out", 0)
                ELSE IF c = "d" /\ c2 = "d" THEN Scan(g, i + 2, "line", 0)
                ELSE IF c = "l" /\ c2 = "t" THEN Scan(g, i + 2, "block", 1)
                ELSE "token"
           [] mode = "line" ->
                IF c = "n" THEN Scan(g, i + 1, "out", 0)
                ELSE IF c = "d" /\ c2 = "d" THEN Scan(g, i + 2, "out", 0)
                ELSE Scan(g, i + 1, "line", 0)
           [] OTHER ->   \* block comment, nestable
                IF c = "l" /\ c2 = "t" THEN Scan(g, i + 2, "block", depth + 1)
                ELSE IF c = "t" /\ c2 = "l" THEN (IF depth = 1 THEN Scan(g, i + 2, "out", 0) ELSE Scan(g, i + 2, "block", depth - 1))
                ELSE Scan(g, i + 1, "block", depth)
Consumed(g) == Scan(g, 1, "out", 0) = "out"

(* ---- the generator of gaps ------------------------------------------------ *)
VARIABLES gap,      \* the symbol string built so far
          open,     \* nesting depth of the block comment being written (0: outside)
          inline,   \* writing an inline "-- ... --" comment
          last      \* inside a block comment: "l" / "t" when the last symbol is a slash / asterisk written as a *body*
                    \* character (it may still pair up with what follows), "" otherwise
vars == <<gap, open, inline, last>>

Init == gap = <<>> /\ open = 0 /\ inline = FALSE /\ last = ""
Room(n) == Len(gap) + n <= MaxGap
Ws(c) == /\ open = 0 /\ ~inline /\ c \in {"s", "n"} /\ Room(1)
         /\ gap' = Append(gap, c) /\ UNCHANGED <<open, inline, last>>
\* "-- body newline": the body has no "--" and no newline
LineComment(b) == /\ open = 0 /\ ~inline /\ Room(3 + Len(b))
                  /\ gap' = gap \o <<"d", "d">> \o b \o <<"n">> /\ UNCHANGED <<open, inline, last>>
InlineComment(b) == /\ open = 0 /\ ~inline /\ Room(4 + Len(b))
                    /\ gap' = gap \o <<"d", "d">> \o b \o <<"d", "d">> /\ UNCHANGED <<open, inline, last>>
\* Slashes and asterisks may stand in the body as well, as long as the left-to-right reading of X.680 12.6.4 does not pair them
\* up with a neighbour: a body asterisk must not be followed by a slash (body or the one of an opening delimiter: "*" "/*" reads
\* "*/" "*"), a body slash not by an asterisk (body or the one of a closing delimiter: "/" "*/" reads "/*" "/").  What remains
\* are the overlaps a scanner has to get right: "/*/" (opening delimiter, then a slash), "**/" , "*/*", "//*".
OpenBlock == /\ ~inline /\ Room(2 + 2 * (open + 1))
             /\ last # "t"
             /\ gap' = gap \o <<"l", "t">> /\ open' = open + 1 /\ last' = "" /\ UNCHANGED inline
BlockChar(c) == /\ open > 0 /\ Room(1 + 2 * open)
                /\ c \in {"x", "s", "n", "d", "l", "t"}
                /\ c = "l" => last # "t"
                /\ c = "t" => last # "l"
                /\ gap' = Append(gap, c) /\ last' = (IF c \in {"l", "t"} THEN c ELSE "") /\ UNCHANGED <<open, inline>>
CloseBlock == /\ open > 0
              /\ last # "l"
              /\ gap' = gap \o <<"t", "l">> /\ open' = open - 1 /\ last' = "" /\ UNCHANGED inline
\* comment bodies: strings over {x, s, single d} without "dd"
Bodies == {<<>>, <<"x">>, <<"x", "s", "x">>, <<"d", "x">>, <<"x", "d", "x">>, <<"s", "x", "s">>}
\* a comment that runs to the end of the line may end in a single hyphen ("-- sign is + or -"): the line break ends it
LineBodies == Bodies \cup {<<"x", "s", "d">>, <<"d">>, <<"x", "d">>}
Next == \/ \E c \in {"s", "n"} : Ws(c)
        \/ (\E b \in LineBodies : LineComment(b)) \/ (\E b \in Bodies : InlineComment(b))
        \/ OpenBlock \/ (\E c \in {"x", "s", "n", "d", "l", "t"} : BlockChar(c)) \/ CloseBlock
Spec == Init /\ [][Next]_vars

\* every complete gap is consumed entirely by the scanner, and ends Outside
GapsAreConsumed == (open = 0) => Consumed(gap)
\* an unfinished block comment is never taken for a finished gap
OpenBlockNotConsumed == (open > 0) => Scan(gap, 1, "out", 0) = "open-block"
\* a gap followed by a token character stops exactly at that character
StopsAtToken == (open = 0) => Scan(Append(gap, "x"), 1, "out", 0) = "token"

(* ---- the forms the harness substitutes ------------------------------------- *)
Forms == {"SP", "TAB", "LF", "CRLF", "NONE", "LINE", "LINE_NOSPACE", "INLINE", "INLINE_TIGHT", "BLOCK", "BLOCK_TIGHT", "NESTED",
          "BLOCK_QUOTES", "LINE_KEYWORDS", "BLOCK_NONASCII", "MIXED", "NESTED_SLASH", "BLOCK_STARS", "NESTED_STAR",
          \* comments whose text is what the generator writes into the doc comments of the items it invents
          "LINE_ANON", "INLINE_INNER", "LINE_HYPHEN_END"}
AbstractOf(f) ==
    CASE f \in {"SP", "TAB"} -> <<"s">>
      [] f = "LF" -> <<"n">>
      [] f = "CRLF" -> <<"s", "n">>                        \* CR is white space
      [] f = "NONE" -> <<>>
      [] f = "LINE_HYPHEN_END" -> <<"s", "d", "d", "s", "x", "s", "d", "n">>
      [] f = "INLINE_INNER" -> <<"d", "d", "s", "x", "s", "x", "s", "d", "d">>
      [] f \in {"LINE", "LINE_KEYWORDS", "LINE_ANON"} -> <<"s", "d", "d", "s", "x", "s", "x", "n">>
      [] f = "LINE_NOSPACE" -> <<"d", "d", "x", "n">>
      [] f = "INLINE" -> <<"s", "d", "d", "s", "x", "s", "d", "d", "s">>
      [] f = "INLINE_TIGHT" -> <<"d", "d", "x", "d", "d">>
      [] f \in {"BLOCK", "BLOCK_QUOTES", "BLOCK_NONASCII"} -> <<"s", "l", "t", "s", "x", "s", "t", "l", "s">>
      [] f = "BLOCK_TIGHT" -> <<"l", "t", "x", "t", "l">>
      [] f = "NESTED" -> <<"l", "t", "x", "l", "t", "x", "t", "l", "x", "t", "l">>
      [] f = "NESTED_SLASH" -> <<"l", "t", "x", "l", "t", "l", "x", "t", "l", "x", "t", "l">>      \* /*a/*/b*/c*/
      [] f = "BLOCK_STARS" -> <<"l", "t", "t", "x", "t", "t", "l">>                                \* /**c**/
      [] f = "NESTED_STAR" -> <<"l", "t", "x", "l", "t", "x", "t", "l", "t", "x", "t", "l">>      \* /*a/*b*/*c*/
      [] OTHER -> <<"n", "s", "d", "d", "x", "n", "l", "t", "x", "t", "l", "s">>
FormsAreGaps == \A f \in Forms : Consumed(AbstractOf(f))

\* token classes and where the empty gap keeps two tokens apart
Classes == {"word", "number", "string", "lbrace", "rbrace", "lparen", "rparen", "comma", "semicolon", "assign",
            "range", "ellipsis", "lbrack", "rbrack", "pipe", "other"}
Closed == {"lbrace", "rbrace", "lparen", "rparen", "comma", "semicolon"}
Separable(cl, cr) == cl \in Closed \/ cr \in Closed
Applicable(f, cl, cr) == f = "NONE" => Separable(cl, cr)
=============================================================================
