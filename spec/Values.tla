------------------------------- MODULE Values -------------------------------
(***************************************************************************)
(* Denotation of ASN.1 value notation (property C07).                      *)
(*                                                                         *)
(* A term is the abstract syntax of a value notation; Denote(term, ty)     *)
(* is the abstract value it names under the governing type ty.  Abstract   *)
(* values (the harness evaluates generated Rust initialisers to the same   *)
(* shapes):                                                                *)
(*   [k |-> "int",   v |-> "-170141183460469231731687303715884105728"]    *)
(*        integers are decimal strings (TLC integers are 32-bit); the      *)
(*        denotation of a number is its canonical decimal string           *)
(*   [k |-> "bool",  v |-> TRUE]        [k |-> "null"]                     *)
(*   [k |-> "str",   v |-> <<"a", "\"", "b">>]     one element per char    *)
(*   [k |-> "bits",  v |-> <<0, 1, 0, 1>>]                                 *)
(*   [k |-> "octets", v |-> <<171, 1>>]                                    *)
(*   [k |-> "enum",  v |-> "eb"]                                           *)
(*   [k |-> "oid",   v |-> <<"1", "0", "8571">>]                           *)
(*   [k |-> "choice", alt |-> "a", v |-> AV]                               *)
(*   [k |-> "seq",   v |-> << [n |-> "x", v |-> AV], ... >>]  all components*)
(*   [k |-> "seqof", v |-> << AV, ... >>]       [k |-> "absent"]           *)
(***************************************************************************)
EXTENDS Integers, Sequences, FiniteSets

HexDigits == <<"0", "1", "2", "3", "4", "5", "6", "7", "8", "9", "A", "B", "C", "D", "E", "F">>
HexValue(d) == (CHOOSE i \in 1..16 : HexDigits[i] = d) - 1
\* X.680 12.12 (hstring): each digit is four bits, most significant first
NibbleBits(n) == <<(n \div 8) % 2, (n \div 4) % 2, (n \div 2) % 2, n % 2>>
RECURSIVE HexBits(_)
HexBits(ds) == IF ds = <<>> THEN <<>> ELSE NibbleBits(HexValue(Head(ds))) \o HexBits(Tail(ds))

\* X.680 23.4 / 23.5: for an OCTET STRING a bstring / hstring is padded with zero bits to whole octets
PadTo8(bits) == bits \o [i \in 1..((8 - (Len(bits) % 8)) % 8) |-> 0]
OctetAt(bits, k) == LET b == SubSeq(bits, 8 * k - 7, 8 * k) IN
                    128 * b[1] + 64 * b[2] + 32 * b[3] + 16 * b[4] + 8 * b[5] + 4 * b[6] + 2 * b[7] + b[8]
Octets(bits) == LET p == PadTo8(bits) IN [k \in 1..(Len(p) \div 8) |-> OctetAt(p, k)]

\* the well-known arcs of X.680 Annex / X.660 that may be written by name alone
WellKnownRoot == [n \in {"itu-t", "ccitt", "iso", "joint-iso-itu-t", "joint-iso-ccitt"} |->
                    IF n \in {"itu-t", "ccitt"} THEN "0" ELSE IF n = "iso" THEN "1" ELSE "2"]
WellKnownItu == [n \in {"recommendation", "question", "administration", "network-operator", "identified-organization", "r-recommendation"} |->
                    CASE n = "recommendation" -> "0" [] n = "question" -> "1" [] n = "administration" -> "2"
                      [] n = "network-operator" -> "3" [] n = "identified-organization" -> "4" [] OTHER -> "5"]
WellKnownIso == [n \in {"standard", "registration-authority", "member-body", "identified-organization"} |->
                    CASE n = "standard" -> "0" [] n = "registration-authority" -> "1" [] n = "member-body" -> "2" [] OTHER -> "3"]
\* below itu-t(0) recommendation(0) the arcs are identified by the letters a(1) .. z(26) (X.660 A.2)
Letters == <<"a", "b", "c", "d", "e", "f", "g", "h", "i", "j", "k", "l", "m", "n", "o", "p", "q", "r", "s", "t", "u", "v", "w", "x", "y", "z">>
LetterNo == <<"1", "2", "3", "4", "5", "6", "7", "8", "9", "10", "11", "12", "13", "14", "15", "16", "17", "18", "19", "20", "21", "22", "23", "24", "25", "26">>
LetterArc(name) == LetterNo[CHOOSE i \in 1..26 : Letters[i] = name]
\* the number of arc number i (1-based) of `arcs', whose root number is `root'
ArcNumber(arc, i, root) ==
    IF arc.form \in {"num", "namenum"} THEN arc.n              \* a written number always wins
    ELSE IF i = 1 THEN WellKnownRoot[arc.name]
    ELSE IF root = "0" THEN WellKnownItu[arc.name]
    ELSE WellKnownIso[arc.name]
UnderRecommendation(arcs) == Len(arcs) >= 3 /\ ArcNumber(arcs[1], 1, "") = "0" /\ ArcNumber(arcs[2], 2, "0") = "0"
NameFormOK(arcs) ==    \* name-only arcs are used where X.680 allows them
    \A i \in DOMAIN arcs : arcs[i].form = "name" =>
        \/ i = 1 /\ arcs[i].name \in DOMAIN WellKnownRoot
        \/ i = 2 /\ ArcNumber(arcs[1], 1, "") = "0" /\ arcs[i].name \in DOMAIN WellKnownItu
        \/ i = 2 /\ ArcNumber(arcs[1], 1, "") = "1" /\ arcs[i].name \in DOMAIN WellKnownIso
        \/ i = 3 /\ UnderRecommendation(arcs) /\ arcs[i].name \in {Letters[k] : k \in 1..26}
OidArcs(arcs) == LET root == IF arcs = <<>> THEN "" ELSE ArcNumber(arcs[1], 1, "") IN
                 [i \in DOMAIN arcs |-> IF i = 3 /\ arcs[i].form = "name" /\ UnderRecommendation(arcs) THEN LetterArc(arcs[i].name)
                                        ELSE ArcNumber(arcs[i], i, root)]

Lookup(decl, name) == (CHOOSE i \in DOMAIN decl : decl[i].n = name)
ToSet(s) == {s[i] : i \in DOMAIN s}
Ones(bits) == {i - 1 : i \in {j \in DOMAIN bits : bits[j] = 1}}

RECURSIVE Denote(_, _)
Denote(t, ty) ==
    CASE t.f = "int" -> [k |-> "int", v |-> t.dec]
      [] t.f = "namednum" -> [k |-> "int", v |-> ty.named[Lookup(ty.named, t.name)].dec]
      [] t.f = "bool" -> [k |-> "bool", v |-> t.b]
      [] t.f = "null" -> [k |-> "null"]
      [] t.f = "cstring" -> [k |-> "str", v |-> t.chars]
      [] t.f = "bstring" -> IF ty.k = "OCTETSTRING" THEN [k |-> "octets", v |-> Octets(t.bits)] ELSE [k |-> "bits", v |-> t.bits]
      [] t.f = "hstring" -> IF ty.k = "OCTETSTRING" THEN [k |-> "octets", v |-> Octets(HexBits(t.digits))] ELSE [k |-> "bits", v |-> HexBits(t.digits)]
      \* a named-bit list names the positions that are one; trailing zero bits are not significant (X.680 22.7)
      [] t.f = "namedbits" -> [k |-> "bitset", v |-> {ty.named[Lookup(ty.named, t.chosen[i])].p : i \in DOMAIN t.chosen}]
      [] t.f = "enum" -> [k |-> "enum", v |-> t.name]
      [] t.f = "oid" -> [k |-> "oid", v |-> (IF t.prefix.f = "none" THEN <<>> ELSE Denote(t.prefix, ty).v) \o OidArcs(t.arcs)]
      [] t.f = "choice" -> LET a == Lookup(ty.alts, t.alt) IN [k |-> "choice", alt |-> t.alt, v |-> Denote(t.v, ty.alts[a].ty)]
      [] t.f = "seq" -> [k |-> "seq", v |-> [i \in DOMAIN ty.comps |->
                            LET c == ty.comps[i] IN
                            [n |-> c.n, v |-> IF \E j \in DOMAIN t.fields : t.fields[j].n = c.n
                                              THEN Denote(t.fields[Lookup(t.fields, c.n)].v, c.ty)
                                              ELSE IF c.opt = "default" THEN Denote(c.dflt, c.ty)
                                              ELSE [k |-> "absent"]]]]
      [] t.f = "seqof" -> [k |-> "seqof", v |-> [i \in DOMAIN t.items |-> Denote(t.items[i], ty.elem)]]
      [] t.f = "ref" -> Denote(t.to, ty)                   \* a value reference names the value it is assigned
      [] OTHER -> [k |-> "?"]

\* observed (evaluated from the bindings) against expected
RECURSIVE Same(_, _)
Same(exp, obs) ==
    IF exp.k = "bitset" THEN obs.k = "bits" /\ Ones(obs.v) = exp.v
    ELSE IF exp.k # obs.k THEN FALSE
    ELSE CASE exp.k \in {"null", "absent"} -> TRUE
           [] exp.k = "choice" -> exp.alt = obs.alt /\ Same(exp.v, obs.v)
           [] exp.k = "seq" -> Len(exp.v) = Len(obs.v) /\ \A i \in DOMAIN exp.v : exp.v[i].n = obs.v[i].n /\ Same(exp.v[i].v, obs.v[i].v)
           [] exp.k = "seqof" -> Len(exp.v) = Len(obs.v) /\ \A i \in DOMAIN exp.v : Same(exp.v[i], obs.v[i])
           [] OTHER -> exp.v = obs.v
=============================================================================
