SPECIFICATION Spec
CONSTANTS
  N = 3
  MaxOwn = 1
  Recursive = TRUE
INVARIANTS AlwaysAgree
CHECK_DEADLOCK FALSE
