SPECIFICATION Spec
CONSTANT MaxChain = 3
INVARIANTS PathShaped Emit EmitNames
CHECK_DEADLOCK FALSE
