SPECIFICATION Spec
CONSTANT MaxChain = 3
INVARIANTS PathShaped Emit EmitNames EmitImported
CHECK_DEADLOCK FALSE
