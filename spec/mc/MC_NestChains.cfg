SPECIFICATION Spec
CONSTANT MaxChain = 3
INVARIANTS PathShaped Emit
CHECK_DEADLOCK FALSE
