SPECIFICATION Spec
CONSTANT MaxChain = 3
INVARIANTS PathShaped Emit EmitNames EmitImported EmitClassHosts
CHECK_DEADLOCK FALSE
