SPECIFICATION Spec
INVARIANTS MeetsDemand NothingOnFailure ExactOnSuccess UnwritableIsErr Torn EmitPlans
CHECK_DEADLOCK FALSE
