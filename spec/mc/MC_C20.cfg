SPECIFICATION Spec
CONSTANT FlushBeforeReturn = TRUE
INVARIANTS MeetsDemand NothingOnFailure ExactOnSuccess UnwritableIsErr OkMeansDelivered Torn EmitPlans
CHECK_DEADLOCK FALSE
