SPECIFICATION Spec
CONSTANT FlushBeforeReturn = TRUE
CONSTANT FormatErrorSurfaces = FALSE
INVARIANTS MeetsDemand NothingOnFailure ExactOnSuccess UnwritableIsErr OkMeansDelivered ErrMeansNothing Torn EmitPlans
CHECK_DEADLOCK FALSE
