SPECIFICATION Spec
CONSTANT FlushBeforeReturn = TRUE
CONSTANT SkipWhenSame = FALSE
CONSTANT FormatErrorSurfaces = FALSE
INVARIANTS MeetsDemand NothingOnFailure ExactOnSuccess UnwritableIsErr OkMeansDelivered ErrMeansNothing Torn EmitPlans
CHECK_DEADLOCK FALSE
