SPECIFICATION SpecSim
CONSTANTS
  MaxModules = 3
  MaxNodes = 30
  MaxDepth = 4
  MinNodes = 12
  MaxFaults = 0
  MaxComps = 6
INVARIANTS TypeOK WF MandatoryEdgesGoBack Emit
CHECK_DEADLOCK FALSE
