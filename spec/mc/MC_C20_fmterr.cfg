\* the design that reports a failing formatter as the call's Err after the text has been delivered -- must be refuted:
\* an Err carries nothing
SPECIFICATION Spec
CONSTANT FlushBeforeReturn = TRUE
CONSTANT SkipWhenSame = FALSE
CONSTANT FormatErrorSurfaces = TRUE
INVARIANTS ErrMeansNothing
CHECK_DEADLOCK FALSE
