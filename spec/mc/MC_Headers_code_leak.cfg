\* the code's design against the full demand: refuted by two modules of one name with different defaults
SPECIFICATION Spec
CONSTANTS
  Units <- MCUnits
  ModNames <- MCModNames
  Envs <- MCEnvs
  HeaderPer = "unit"
  EnvFrom = "head"
INVARIANTS GenEnvIsOwn
PROPERTY Terminates
CHECK_DEADLOCK FALSE
