------------------------------ MODULE MC_C19 ------------------------------
(* Model checking Options.tla: a configuration is chosen, then a CHOICE is   *)
(* grown alternative by alternative (payload type symbols 1..NTypes); every  *)
(* reachable state is one (configuration, payload pattern) pair.             *)
EXTENDS Options, TLC, Json
CONSTANTS NTypes, MaxAlts
VARIABLES cfg, pat

Init == cfg \in Cfg /\ pat = <<>>
AddAlt(t) == Len(pat) < MaxAlts /\ pat' = Append(pat, t) /\ UNCHANGED cfg
Next == \E t \in 1..NTypes : AddAlt(t)
Spec == Init /\ [][Next]_<<cfg, pat>>

VarNames(p) == [i \in DOMAIN p |-> i]
Coherent == FromCoherent(cfg, pat, VarNames(pat))
\* a small universe of base derive sets
DeriveBases == {Required \cup x : x \in SUBSET {"Eq", "Hash", "Copy"}}
Derive == \A b \in DeriveBases : RequiredStay(cfg, b) /\ (cfg.ann \in {"default", "extra_attr", "twice"} => Derives(cfg, b) = b)
Identity == DefaultIsIdentity(<<[module |-> "m", list |-> <<"A", "B">>]>>, <<>>, Required, <<"#[x]">>, "LazyLock")
\* each aspect reads exactly one option: two configurations that agree on it render the aspect alike
Orthogonal ==
    \A d \in Cfg :
        /\ d.nostd = cfg.nostd => Lazy(d) = Lazy(cfg) /\ Form(d, "LazyLock") = Form(cfg, "LazyLock")
        /\ d.wild = cfg.wild => SuperUse(d, [module |-> "m", list |-> <<"A">>]) = SuperUse(cfg, [module |-> "m", list |-> <<"A">>])
        /\ d.imports = cfg.imports => Other(d, <<>>, <<"A", "B">>) = Other(cfg, <<>>, <<"A", "B">>)
        /\ d.ann = cfg.ann => Derives(d, Required) = Derives(cfg, Required) /\ Attrs(d, <<>>) = Attrs(cfg, <<>>)
        /\ d.from = cfg.from => From(d, pat, VarNames(pat)) = From(cfg, pat, VarNames(pat))

EmitCfg == pat = <<>> => PrintT(<<"CASE", ToJson([kind |-> "cfg", cfg |-> cfg, custom_imports |-> CustomImports(cfg.imports),
                                                  type_annotations |-> Annotations(cfg.ann)])>>)
EmitPat == (cfg = Default /\ pat # <<>>) => PrintT(<<"CASE", ToJson([kind |-> "pat", p |-> pat])>>)
=============================================================================
