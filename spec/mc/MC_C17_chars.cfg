SPECIFICATION Spec
CONSTANTS
  MaxDoc = 4
  OffsetUnit = "chars"
INVARIANTS LineMatchesByteOffset
CHECK_DEADLOCK FALSE
