SPECIFICATION Spec
CONSTANT Layering = "dummies_last"
INVARIANTS DummiesAreLocal NeighboursDoNotMatter GlobalsStillVisible
CHECK_DEADLOCK FALSE
