SPECIFICATION Spec
CONSTANTS
  Mods <- MCMods
  Names <- MCNames
  Envs <- MCEnvs
  DefaultEnv <- MCDefault
  MaxDefs = 2
  Deviations <- DevEnvLeak
INVARIANTS TypeOK NoSilentLoss WarningLocal EnvMatchesHeader OutIsFunctionOfInput
PROPERTY Terminates
CHECK_DEADLOCK FALSE
