------------------------------ MODULE MC_Linker ------------------------------
EXTENDS Linker, TLC, Json
Emit == Done => PrintT(<<"CASE", ToJson([n |-> N, own |-> own, ref |-> ref, pos |-> pos, rank |-> rank,
                                         expected |-> [d \in Ds |-> Expand(d)], predicted |-> members,
                                         orderclass |-> [d \in Ds |-> OrderClass(d)], positionclass |-> [d \in Ds |-> PositionClass(d)]])>>)
\* negative check: without the class guards algorithm and meaning do differ (the classes are not empty)
AlwaysAgree == Done => \A d \in Ds : members[d] = Expand(d)
=============================================================================
