SPECIFICATION Spec
CONSTANTS
  Design = "per_call"
  MaxRuns = 3
INVARIANTS OutIsFunctionOfInput
CHECK_DEADLOCK FALSE
