------------------------------ MODULE MC_C16 ------------------------------
EXTENDS Idents, TLC, Json
MCAlphabet == {"a", "b", "A", "B", "1", "-"}
AllKeywords == Keywords \cup {"union", "macro_rules", "gen"}
Emit == Done => PrintT(<<"CASE", ToJson([name |-> name, kw |-> kw, spell |-> spell, role |-> role])>>)
=============================================================================
