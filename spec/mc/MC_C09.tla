------------------------------- MODULE MC_C09 -------------------------------
(* The notations of C09 other than COMPONENTS OF (which has its own model, Linker.tla): a plain     *)
(* product of parameters; the harness prints the sugared module and its hand-expanded twin.          *)
(*   param       a parameterized type with 1..3 dummy parameters (each a type or a value),           *)
(*               instantiated 1..3 times; also with an instance of the same template as (part of) a   *)
(*               type argument                                                                       *)
(*   select      a selection type  a_i < Cho  of a CHOICE with 2..3 alternatives                     *)
(*   classfield  an object-class field type naming a fixed-type field, as assignment / as component  *)
(*   valref      a value reference inside a constraint (upper / lower bound, single value, SIZE,     *)
(*               in a component; the other end of the range a number, MIN or MAX)                    *)
(*   namednum    a named number of a referenced INTEGER type inside a constraint on that reference,  *)
(*               with a decoy type declaring the same identifiers with other values                  *)
(* early: the referenced definition's name sorts before (TRUE) or after (FALSE) the name of its user *)
EXTENDS Integers, Sequences, FiniteSets, TLC, Json
VARIABLE x
KindSeqs == UNION {[1..k -> {"type", "value"}] : k \in 1..3}
ClassFieldHosts == {"set", "choice", "seqof", "setof", "nested_seq_in_setof", "seq_with_set_sibling", "seq_with_ext_choice_sibling",
                    "choice_with_additions", "seq_with_constrained_siblings", "set_nested_in_choice",
                    \* fields of two classes that share the field name and differ in the field's type, in one SEQUENCE / SET
                    "two_classes_seq", "two_classes_set"}
Points ==
    {[fam |-> "param", kinds |-> ks, ninst |-> n, early |-> e, nest |-> "none"] : ks \in KindSeqs, n \in 1..3, e \in BOOLEAN}
    \* the template inside its own actual parameter: as the type argument itself (Tpl { Tpl { .. } }), or inside a constructed
    \* type argument (Tpl { SEQUENCE { x Tpl { .. } } }); expansion works from the inside out
    \cup {[fam |-> "param", kinds |-> ks, ninst |-> 1, early |-> e, nest |-> ns] :
              ks \in {k \in KindSeqs : \E i \in DOMAIN k : k[i] = "type"}, e \in BOOLEAN, ns \in {"self", "constructed"}}
    \cup {[fam |-> "select", nalts |-> n, sel |-> s, early |-> e] : n \in 2..3, s \in 1..3, e \in BOOLEAN}
    \cup {[fam |-> "classfield", ascomp |-> c, early |-> e, host |-> "plain"] : c \in BOOLEAN, e \in BOOLEAN}
    \* the field type in every position a type can stand in, next to siblings whose shape the expansion must leave alone:
    \* a SET, an extensible CHOICE with additions, a constrained reference, a DEFAULT, a recursive OPTIONAL component
    \cup {[fam |-> "classfield", ascomp |-> TRUE, early |-> e, host |-> h] : e \in BOOLEAN, h \in ClassFieldHosts}
    \cup {[fam |-> "valref", where |-> w, early |-> e] : w \in {"upper", "lower", "single", "size", "component", "reftype_default",
                                                                 \* the other end of the range is MIN / MAX (half-open), in a value and in a size range
                                                                 "upper_min", "lower_max", "size_max", "component_max"}, e \in BOOLEAN}
\* argument forms of a parameterized type (X.683 9): what may stand for an actual parameter, and how dummies may be used
\*   actual_valref      the value argument is a reference to a value assignment
\*   dummy_shadow       a value assignment elsewhere in the module is spelled like the value dummy
\*   dummy_constrained  the template constrains its type dummy,  a T (0..5)
\*   forward            the template hands its dummies on to a second template
\*   null_actual        the type argument is NULL (which is also a value notation)
\*   chain              (valref family) a reference to a value that is itself given by reference
ArgForms == {"actual_valref", "dummy_shadow", "dummy_constrained", "forward", "null_actual"}
ArgPoints == {[fam |-> "paramarg", form |-> f, early |-> e] : f \in ArgForms, e \in BOOLEAN}
                \cup {[fam |-> "valref", where |-> w, early |-> e] : w \in {"chain", "chain_size"}, e \in BOOLEAN}
EmitArgs == x = 0 => \A p \in ArgPoints : PrintT(<<"CASE", ToJson(p)>>)
NamedNumPoints == {[fam |-> "namednum", where |-> w, early |-> e] : w \in {"range", "single", "component"}, e \in BOOLEAN}
Legal(p) == p.fam = "select" => p.sel <= p.nalts
Init == x = 0
Next == x = 0 /\ x' = 1
Spec == Init /\ [][Next]_x
Emit == x = 0 => \A p \in {q \in Points : Legal(q)} : PrintT(<<"CASE", ToJson(p)>>)
EmitNN == x = 0 => \A p \in NamedNumPoints : PrintT(<<"CASE", ToJson(p)>>)
=============================================================================
