----------------------------- MODULE MC_RecGraph -----------------------------
EXTENDS RecGraph, TLC, Json
AllKinds == {"SEQUENCE", "SET", "CHOICE"}
AllEdges == {"none", "req", "opt", "list"}
OptEdges == {"none", "opt"}
(* The topology as a Notation node table: the definitions first (indices 1..NDefs), then for   *)
(* each definition a NULL component and one component per outgoing edge.                        *)
Node(k, p, role, opt, r) == [k |-> k, p |-> p, m |-> 1, role |-> role, opt |-> opt, kw |-> "none", add |-> FALSE,
                             ref |-> r, qual |-> FALSE, c |-> 0, tagall |-> FALSE, marker |-> FALSE, vk |-> ""]
DefNodes == [i \in Ds |-> Node(kinds[i], 0, "def", "req", 0)]
RoleOf(i) == IF kinds[i] = "CHOICE" THEN "alt" ELSE "comp"
RECURSIVE Kids(_, _, _)
\* children of all definitions, appended in order; `base` is the table length so far
Kids(i, j, acc) ==
    IF i > NDefs THEN acc
    ELSE IF j = 0 THEN Kids(i, 1, Append(acc, Node("NULL", i, RoleOf(i), "req", 0)))
    ELSE IF j > NDefs THEN Kids(i + 1, 0, acc)
    ELSE LET t == edge[i][j] IN
         CASE t = "none" -> Kids(i, j + 1, acc)
           [] t = "list" -> Kids(i, j + 1, acc \o << Node("SEQOF", i, RoleOf(i), "req", 0),
                                                     Node("REF", Len(acc) + 1, "elem", "req", j) >>)
           [] OTHER -> Kids(i, j + 1, Append(acc, Node("REF", i, RoleOf(i), IF t = "opt" /\ kinds[i] # "CHOICE" THEN "opt" ELSE "req", j)))
TableNodes == Kids(1, 0, DefNodes)
Emit == Done => PrintT(<<"CASE", ToJson([mods |-> << [tagdef |-> "AUTOMATIC", implied |-> FALSE] >>, nodes |-> TableNodes])>>)
=============================================================================
