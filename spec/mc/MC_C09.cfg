SPECIFICATION Spec
INVARIANTS Emit EmitNN EmitArgs
CHECK_DEADLOCK FALSE
