SPECIFICATION Spec
INVARIANTS Emit EmitNN
CHECK_DEADLOCK FALSE
