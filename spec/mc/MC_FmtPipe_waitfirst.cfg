SPECIFICATION Spec
CONSTANTS
  Cap = 2
  MaxIn = 5
  MaxOut = 7
  Order = "wait_then_drain"
  WriterThread = TRUE
  Streaming = FALSE
INVARIANTS TypeOK Conservation Complete NoDeadlock
CHECK_DEADLOCK FALSE
