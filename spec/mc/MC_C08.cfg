SPECIFICATION TotalSpec
CONSTANTS
  NPos = 6
  NDefs = 2
INVARIANTS FinishedIsTotal EmitPlans EmitCycles
PROPERTIES Finishes
CHECK_DEADLOCK FALSE
