SPECIFICATION Spec
CONSTANT Dev = "D_C03_no_tags_clause"
INVARIANT InvB
CHECK_DEADLOCK FALSE
