SPECIFICATION AnySpec
CONSTANTS
  NPos = 1
  NDefs = 1
INVARIANTS FinishedIsTotal
CHECK_DEADLOCK FALSE
