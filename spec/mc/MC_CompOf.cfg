SPECIFICATION Spec
CONSTANTS
  MaxOwn = 2
  Design = "depth"
  ExtOnlyLast = TRUE
INVARIANTS TypeOK MembersAreMeaning RootsAreAll Emit
PROPERTIES Stable
CHECK_DEADLOCK FALSE
