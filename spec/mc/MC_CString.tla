------------------------------ MODULE MC_CString ------------------------------
EXTENDS CString, TLC, Json
Emit == Done => PrintT(<<"CASE", ToJson([syms |-> w, empty |-> Denote(w) = <<>>])>>)
=============================================================================
