----------------------------- MODULE MC_Pipeline -----------------------------
EXTENDS Pipeline, TLC, Json
MCMods == {"Ma", "Mb"}
MCNames == {"x", "y"}
MCEnvs == {<<"Implicit", "Explicit">>, <<"Explicit", "Implied">>}
MCDefault == <<"Implicit", "Explicit">>
\* every input of the bounded model, as a case for the harness (printed once, when compilation starts)
EmitInput == (pc = "run" /\ lexed = 0) =>
                PrintT(<<"CASE", ToJson([order |-> order, headers |-> [i \in 1..Len(order) |-> headers[order[i]]],
                                         defs |-> [i \in 1..Len(order) |-> input[order[i]]]])>>)
NoDev == {}
DevBareName == {"bare_name_map"}
DevEnvLeak == {"env_leak"}
=============================================================================
