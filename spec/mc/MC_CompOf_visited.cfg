SPECIFICATION Spec
CONSTANTS
  MaxOwn = 1
  Design = "visited"
  ExtOnlyLast = TRUE
INVARIANTS MembersAreMeaning
CHECK_DEADLOCK FALSE
