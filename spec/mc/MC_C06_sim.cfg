SPECIFICATION Spec
CONSTANT Ops <- OpsSet
INVARIANTS SelectionAllowed SelectionTight HullContainsRoot ValueFits Emit
CHECK_DEADLOCK FALSE
