SPECIFICATION Spec
CONSTANTS
  MaxRoot = 3
  MaxExt = 2
  Nums <- MCNums
INVARIANTS TypeOK ExplicitKept Distinct RootSuccessive AdditionsFresh AdditionsIncreasing Emit
CHECK_DEADLOCK FALSE
