SPECIFICATION Spec
CONSTANTS
  N = 3
  MaxOwn = 1
  Recursive = FALSE
INVARIANTS NameIndependent
CHECK_DEADLOCK FALSE
