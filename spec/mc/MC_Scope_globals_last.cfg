SPECIFICATION Spec
CONSTANT Layering = "globals_last"
INVARIANTS DummiesAreLocal
CHECK_DEADLOCK FALSE
