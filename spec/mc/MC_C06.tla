------------------------------ MODULE MC_C06 ------------------------------
EXTENDS IntWidth, TLC, Json
ASSUME OrderSound
ASSUME NPoints = 53
Emit == Done => PrintT(<<"CASE", ToJson([lo |-> lo, hi |-> hi, ext |-> ext, pos |-> pos, ty |-> ty, form |-> form, val |-> val])>>)
\* quick tier: only the positions in QuickPos are emitted for every pair
=============================================================================
