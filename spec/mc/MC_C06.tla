------------------------------ MODULE MC_C06 ------------------------------
EXTENDS IntWidth, TLC, Json
ASSUME OrderSound
ASSUME NPoints = 53
Emit == Done => PrintT(<<"CASE", ToJson([lo |-> lo, hi |-> hi, ext |-> ext, pos |-> pos, ty |-> ty, form |-> form, val |-> val, op |-> op, lo2 |-> lo2, hi2 |-> hi2])>>)
OpsNone == {"none"}
OpsAll == {"none", "|", "^", "serial"}
OpsSet == {"|", "^", "serial"}
=============================================================================
