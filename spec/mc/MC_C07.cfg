SPECIFICATION Spec
INVARIANTS Defined OidWellFormed HexTable OctetsWhole Emit
CHECK_DEADLOCK FALSE
