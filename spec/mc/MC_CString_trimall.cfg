SPECIFICATION Spec
CONSTANTS
  MaxLen = 3
INVARIANTS TrimAllIsClause
CHECK_DEADLOCK FALSE
