------------------------------ MODULE MC_Builder ------------------------------
(* Model checking Builder.tla and emitting every complete call sequence: the   *)
(* harness replays each through the real typestate API of either backend.      *)
EXTENDS Builder, TLC, Json
Emit == Done => PrintT(<<"CASE", ToJson([calls |-> calls, final |-> final, out |-> b.out, state |-> b.state,
                                           forms |-> [i \in 1..Len(b.sources) |-> b.sources[i].form]])>>)
=============================================================================
