SPECIFICATION Spec
CONSTANTS
  Cap = 2
  MaxIn = 5
  MaxOut = 7
  Order = "drain_then_wait"
  WriterThread = TRUE
  Streaming = FALSE
INVARIANTS TypeOK Conservation Complete NoDeadlock EmitSizes
PROPERTIES Returns
CHECK_DEADLOCK FALSE
