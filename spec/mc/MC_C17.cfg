SPECIFICATION Spec
CONSTANTS
  MaxDoc = 6
  OffsetUnit = "bytes"
INVARIANTS LineIsLFCount OffsetIsBytes OffsetInside LineMatchesByteOffset EmitPlans
CHECK_DEADLOCK FALSE
