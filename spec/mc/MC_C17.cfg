SPECIFICATION Spec
CONSTANT MaxDoc = 6
INVARIANTS LineIsLFCount OffsetInside EmitPlans
CHECK_DEADLOCK FALSE
