SPECIFICATION Spec
INVARIANTS InvA InvB InvC InvImplicit ModeIndependentOfPosition NoImplicitChoice Emit EmitAuto EmitCross
CHECK_DEADLOCK FALSE
