SPECIFICATION Spec
INVARIANTS InvA InvB InvC InvImplicit ModeIndependentOfPosition NoImplicitChoice Emit EmitAuto
CHECK_DEADLOCK FALSE
