SPECIFICATION Spec
CONSTANT Dev = "D_C03_nested_env"
INVARIANT Mode
CHECK_DEADLOCK FALSE
