------------------------------ MODULE MC_C04 ------------------------------
EXTENDS PerVisible, TLC, Json
MCEnds == {NEGINF, -3, 0, 2, 5, 9, POSINF}
MCEndsSmall == {NEGINF, 0, 5, POSINF}
\* <<constrained type, position>>
TargetsAll == { <<"INTEGER", "assignment">>, <<"INTEGER", "component">>, <<"INTEGER", "typeref">>, <<"INTEGER", "valref">>,
                <<"INTEGER", "namednum">>, <<"INTEGER", "nnref">>,
                \* the constraint written at a component whose type is a reference to an (unconstrained) type of that kind
                <<"INTEGER", "refcomp">>, <<"OCTET STRING", "refcomp">>,
                <<"OCTET STRING", "assignment">>, <<"OCTET STRING", "component">>,
                <<"BIT STRING", "assignment">>, <<"BIT STRING", "component">>,
                <<"IA5String", "assignment">>, <<"IA5String", "component">>, <<"IA5String", "typeref">>,
                <<"SEQUENCE OF", "assignment">>, <<"SEQUENCE OF", "component">> }
TargetsTwo == { <<"INTEGER", "assignment">>, <<"OCTET STRING", "component">> }
TargetsInt == { <<"INTEGER", "component">> }
Emit == Done => PrintT(<<"CASE", ToJson([os |-> os, ps |-> ps, ext |-> ext, ser |-> ser, extout |-> extout, ty |-> target[1], pos |-> target[2]])>>)
=============================================================================
