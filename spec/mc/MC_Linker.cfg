SPECIFICATION Spec
CONSTANTS
  N = 3
  MaxOwn = 1
  Recursive = TRUE
INVARIANTS TypeOK AgreeOutsideClasses NoInvention Emit
CHECK_DEADLOCK FALSE
