SPECIFICATION Spec
CONSTANT FlushBeforeReturn = TRUE
CONSTANT SkipWhenSame = TRUE
CONSTANT FormatErrorSurfaces = FALSE
INVARIANTS ExactOnSuccess UnwritableIsErr
CHECK_DEADLOCK FALSE
