\* the design without a flush before output_generated returns: an unterminated last line sits in the
\* stream's buffer when Ok is returned and is lost silently on a full device or a broken pipe -- must be refuted
SPECIFICATION Spec
CONSTANT FlushBeforeReturn = FALSE
CONSTANT SkipWhenSame = FALSE
CONSTANT FormatErrorSurfaces = FALSE
INVARIANTS UnwritableIsErr OkMeansDelivered
CHECK_DEADLOCK FALSE
