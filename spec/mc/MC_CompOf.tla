------------------------------ MODULE MC_CompOf ------------------------------
EXTENDS CompOf, TLC, Json
Emit == Done => PrintT(<<"CASE", ToJson([nown |-> nown, inner |-> inner, cofs |-> cofs, ext |-> ext, rank |-> rank,
                                         expected |-> [d \in Ds |-> Expand(d)]])>>)
=============================================================================
