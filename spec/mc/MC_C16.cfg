SPECIFICATION Spec
CONSTANTS
  MaxLen = 4
  Alphabet <- MCAlphabet
  KeywordSample <- AllKeywords
INVARIANTS RefSatisfiable NameWF Emit
CHECK_DEADLOCK FALSE
