----------------------------- MODULE MC_Headers -----------------------------
(* Headers.tla for three parsed modules, two module references and three environments: every assignment of names and *)
(* headers, every hand-over order.                                                                                    *)
EXTENDS Headers
MCUnits == {1, 2, 3}
MCModNames == {1, 2}
MCEnvs == {<<"AUTOMATIC", "implied">>, <<"EXPLICIT", "explicit">>, <<"IMPLICIT", "explicit">>}
=============================================================================
