SPECIFICATION Spec
CONSTANTS
  NDefs = 2
  Kinds <- AllKinds
  EdgeTypes <- AllEdges
INVARIANTS IdealFinite LegalHasValue Emit
CHECK_DEADLOCK FALSE
