\* one header per module name, supplied by the first module seen: the result depends on the hand-over order -- refuted
SPECIFICATION Spec
CONSTANTS
  Units <- MCUnits
  ModNames <- MCModNames
  Envs <- MCEnvs
  HeaderPer = "name"
  EnvFrom = "own"
INVARIANTS OrderIndependent
PROPERTY Terminates
CHECK_DEADLOCK FALSE
