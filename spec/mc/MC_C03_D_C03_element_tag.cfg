SPECIFICATION Spec
CONSTANT Dev = "D_C03_element_tag"
INVARIANT Applied
CHECK_DEADLOCK FALSE
