---------------------------- MODULE MC_NestChains ----------------------------
(* Nesting chains (C02: "including anonymous nested ones"): a constructed       *)
(* definition whose single component is reached through every chain of 1..N     *)
(* anonymous wrappers -- SEQUENCE OF, SET OF, SEQUENCE, SET, CHOICE in any      *)
(* order -- ending in a leaf that does or does not need an item of its own.     *)
(* Emitted as Notation node tables, exhaustively.                               *)
EXTENDS Integers, Sequences, FiniteSets, TLC, Json
CONSTANT MaxChain
VARIABLE n
Outer == {"SEQUENCE", "SET", "CHOICE"}
Wrappers == {"SEQOF", "SETOF", "SEQUENCE", "SET", "CHOICE"}
Leaves == {"INTEGER", "ENUMERATED", "SEQUENCE", "CHOICE", "BOOLEAN"}
Node(k, p, role) == [k |-> k, p |-> p, m |-> 1, role |-> role, opt |-> "req", kw |-> "none", add |-> FALSE,
                     ref |-> 0, qual |-> FALSE, c |-> 0, tagall |-> FALSE, marker |-> FALSE, vk |-> ""]
RoleUnder(k) == IF k \in {"SEQOF", "SETOF"} THEN "elem" ELSE IF k = "CHOICE" THEN "alt" ELSE "comp"
KindAt(o, ch, i) == IF i = 1 THEN o ELSE ch[i - 1]
Table(o, ch, leaf) ==
    LET len == Len(ch)
        spine == [i \in 1..(len + 1) |-> IF i = 1 THEN Node(o, 0, "def") ELSE Node(ch[i - 1], i - 1, RoleUnder(KindAt(o, ch, i - 1)))]
        withLeaf == Append(spine, Node(leaf, len + 1, RoleUnder(KindAt(o, ch, len + 1))))
    IN IF leaf \in {"SEQUENCE", "CHOICE"} THEN Append(withLeaf, Node("INTEGER", len + 2, RoleUnder(leaf))) ELSE withLeaf
Chains(k) == [1..k -> Wrappers]
Init == n = 1
Next == n < MaxChain /\ n' = n + 1
Spec == Init /\ [][Next]_n
\* the spine is a path: every node's parent is the node before it
PathShaped == \A o \in Outer, ch \in Chains(n), leaf \in Leaves :
                 LET t == Table(o, ch, leaf) IN \A i \in 2..(n + 2) : t[i].p = i - 1
\* name shapes: a definition with a required, a DEFAULT and a nested optional component (itself with a DEFAULT), under type
\* references of every shape the identifier conversion distinguishes (hyphen before a digit, a letter, a capital; digits; capitals)
NameShapes == {"Ty-2x", "Ty-a2", "T2-3", "Ty2", "TY-2X", "Ty-Ab", "Ty-2-3x", "Ty2x-y"}
Named(nm, o) == << [Node(o, 0, "def") EXCEPT !.k = o] @@ [name |-> nm],
                   Node("BOOLEAN", 1, RoleUnder(o)),
                   [Node("INTEGER", 1, RoleUnder(o)) EXCEPT !.opt = IF o = "CHOICE" THEN "req" ELSE "def"],
                   [Node("SEQUENCE", 1, RoleUnder(o)) EXCEPT !.opt = IF o = "CHOICE" THEN "req" ELSE "opt"],
                   [Node("BOOLEAN", 4, "comp") EXCEPT !.opt = "def"] >>
EmitNames == n = 1 => \A nm \in NameShapes, o \in Outer :
                PrintT(<<"CASE", ToJson([mods |-> << [tagdef |-> "AUTOMATIC", implied |-> FALSE] >>, nodes |-> Named(nm, o)])>>)
\* imported names: a type of every name shape -- and of the shapes that an information object class reference has (capitals and
\* hyphens only, which X.680 12.2 allows for a type reference just as well) -- defined in module 1, imported and used in module 2
UpperShapes == {"ID", "T", "PDU", "NGAP-PDU"}
Imported(nm, o) == << [Node(o, 0, "def") EXCEPT !.k = o] @@ [name |-> nm],
                      Node("BOOLEAN", 1, RoleUnder(o)),
                      [Node("SEQUENCE", 0, "def") EXCEPT !.m = 2],
                      [Node("REF", 3, "comp") EXCEPT !.m = 2, !.ref = 1],
                      [Node("INTEGER", 3, "comp") EXCEPT !.m = 2, !.opt = "opt"] >>
EmitImported == n = 1 => \A nm \in NameShapes \cup UpperShapes, o \in Outer :
                PrintT(<<"CASE", ToJson([mods |-> << [tagdef |-> "AUTOMATIC", implied |-> FALSE], [tagdef |-> "EXPLICIT", implied |-> FALSE] >>,
                                         nodes |-> Imported(nm, o)])>>)
\* object-class field types (X.681): the linker rebuilds every constructed type in which a fixed-type value field is named --
\* the field type as component / alternative / element next to siblings whose shape must survive the rebuilding: a required
\* and a DEFAULT component, an anonymous SET, an anonymous extensible CHOICE with an addition, and (for SEQUENCE / SET) an
\* extension addition after the marker
ClassHost(o, inner) ==
    << [Node(o, 0, "def") EXCEPT !.marker = (o # "CHOICE")],
       Node("CLASSFIELD", 1, RoleUnder(o)),
       [Node("BOOLEAN", 1, RoleUnder(o)) EXCEPT !.opt = IF o = "CHOICE" THEN "req" ELSE "def"],
       Node(inner, 1, RoleUnder(o)),
       IF inner \in {"SEQOF", "SETOF"} THEN Node("CLASSFIELD", 4, "elem") ELSE Node("INTEGER", 4, RoleUnder(inner)),
       [Node("CHOICE", 1, RoleUnder(o)) EXCEPT !.marker = TRUE],
       Node("NULL", 6, "alt"),
       [Node("BOOLEAN", 6, "alt") EXCEPT !.add = TRUE],
       [Node("IA5String", 1, RoleUnder(o)) EXCEPT !.add = (o # "CHOICE"), !.opt = IF o = "CHOICE" THEN "req" ELSE "opt"] >>
EmitClassHosts == n = 1 => \A o \in Outer, inner \in {"SET", "SEQUENCE", "SEQOF", "SETOF"} :
                PrintT(<<"CASE", ToJson([mods |-> << [tagdef |-> "AUTOMATIC", implied |-> FALSE] >>, nodes |-> ClassHost(o, inner)])>>)
Emit == \A o \in Outer, ch \in Chains(n), leaf \in Leaves :
           PrintT(<<"CASE", ToJson([mods |-> << [tagdef |-> "AUTOMATIC", implied |-> FALSE] >>, nodes |-> Table(o, ch, leaf)])>>)
=============================================================================
