SPECIFICATION Spec
CONSTANTS
  NTypes = 3
  MaxAlts = 4
INVARIANTS Coherent Derive Identity Orthogonal EmitCfg EmitPat
CHECK_DEADLOCK FALSE
