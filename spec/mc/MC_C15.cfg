SPECIFICATION Spec
CONSTANTS
  MaxOperands = 2
  MaxStrLen = 1
  KMTypes <- KMquick
  OtherTypes <- OtherQuick
INVARIANTS ExceptMonotone InsideBase NoExceptSame Laws Emit
CHECK_DEADLOCK FALSE
