------------------------------ MODULE MC_C05 ------------------------------
EXTENDS Ext, Json
Emit == Done => PrintT(<<"CASE", ToJson([kind |-> kind, implied |-> implied, nested |-> nested, layout |-> layout])>>)
=============================================================================
