------------------------------ MODULE MC_C05 ------------------------------
EXTENDS Ext, Json
Emit == Done => PrintT(<<"CASE", ToJson([kind |-> kind, implied |-> implied, nested |-> nested, layout |-> layout])>>)
\* header points: every TAGS clause (and none) x EXTENSIBILITY IMPLIED on/off x kind x nesting x {no marker, marker and one addition};
\* the main sweep above writes AUTOMATIC TAGS.  A plain product, emitted once from the initial state.
R == [t |-> "r", n |-> 1, ver |-> FALSE]
HeaderLayouts == {<<R>>, <<R, [t |-> "m", n |-> 0, ver |-> FALSE], [t |-> "a", n |-> 1, ver |-> FALSE]>>}
HeaderPoints == {[kind |-> k, implied |-> ImpliedOf(h), nested |-> n, layout |-> y, tags |-> h.tags] :
                   k \in Kinds, h \in Headers, n \in BOOLEAN, y \in HeaderLayouts}
EmitHeader == (phase = "cfg") => \A p \in HeaderPoints : PrintT(<<"CASE", ToJson(p)>>)
ASSUME Cardinality(HeaderPoints) = 128
=============================================================================
