SPECIFICATION Spec
CONSTANTS
  Design = "process_once"
  MaxRuns = 3
INVARIANTS RepeatAgrees
CHECK_DEADLOCK FALSE
