------------------------------ MODULE MC_C03 ------------------------------
EXTENDS Tagging, TLC, Json
Emit == Done => PrintT(<<"CASE", ToJson([t |-> "tag", md |-> md, kw |-> kw, cls |-> cls, pos |-> pos, kind |-> kind, explicit |-> explicit])>>)
\* the automatic-tagging points are a plain product; they are emitted once, from the initial state
AutoPoints == {[t |-> "auto", md |-> d, pat |-> p, cont |-> c, nested |-> n, automatic |-> Automatic(d, p)] :
                 d \in Defaults, p \in Patterns, c \in Containers, n \in BOOLEAN}
EmitAuto == (phase = "md") => \A a \in AutoPoints : PrintT(<<"CASE", ToJson(a)>>)
AutoOnlyInAutomaticModules == \A a \in AutoPoints : a.automatic => (a.md = "AUTOMATIC" /\ a.pat = "none")
ASSUME AutoOnlyInAutomaticModules
ASSUME Cardinality(AutoPoints) = 96
=============================================================================
