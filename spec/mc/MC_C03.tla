------------------------------ MODULE MC_C03 ------------------------------
EXTENDS Tagging, TLC, Json
Emit == Done => PrintT(<<"CASE", ToJson([t |-> "tag", md |-> md, kw |-> kw, cls |-> cls, pos |-> pos, kind |-> kind, explicit |-> explicit])>>)
\* the automatic-tagging points are a plain product; they are emitted once, from the initial state
AutoPoints == {[t |-> "auto", md |-> d, pat |-> p, cont |-> c, nested |-> n, automatic |-> Automatic(d, p)] :
                 d \in Defaults, p \in Patterns, c \in Containers, n \in BOOLEAN}
EmitAuto == (phase = "md") => \A a \in AutoPoints : PrintT(<<"CASE", ToJson(a)>>)
AutoOnlyInAutomaticModules == \A a \in AutoPoints : a.automatic => (a.md = "AUTOMATIC" /\ a.pat \in {"none", "none_ext"})
\* cross-module points: a keyword-less or keyworded tag written in a module with default md reaches a module with default md2 by
\* COMPONENTS OF an imported type or by instantiating an imported parameterized type; the mode is decided where the tag is
\* written (X.680 31.2.7 speaks of the module in which the tag notation appears), never by the module that uses it
CrossPoints == {[t |-> "xtag", md |-> d, md2 |-> d2, kw |-> k, cls |-> "context", via |-> v, kind |-> kd, pos |-> "component",
                 explicit |-> IsExplicit(d, k, kd)] :
                  d \in Defaults, d2 \in Defaults \ {"AUTOMATIC"}, k \in Keywords, v \in {"compof", "param"}, kd \in {"primitive", "refseq"}}
EmitCross == (phase = "md") => \A a \in {x \in CrossPoints : x.md # x.md2} : PrintT(<<"CASE", ToJson(a)>>)
CrossIndependentOfUser == \A a, b \in CrossPoints : (a.md = b.md /\ a.kw = b.kw /\ a.kind = b.kind) => a.explicit = b.explicit
ASSUME CrossIndependentOfUser
ASSUME AutoOnlyInAutomaticModules
ASSUME Cardinality(AutoPoints) = 192
=============================================================================
