---------------------------- MODULE MC_Notation ----------------------------
(* Two ways of exploring Notation:                                          *)
(*  - Spec (breadth-first, tiny bounds): every reachable table is WF        *)
(*  - SpecSim (simulation): each step draws the parameters of one growth    *)
(*    action at random (TLC!RandomElement), so a behaviour is one random    *)
(*    module set; Emit prints it when it is complete.                       *)
EXTENDS Notation, TLC, Json
CONSTANT MinNodes   \* simulation: a module set is only finished once it has this many nodes
CONSTANT MaxFaults  \* simulation: number of injected faults (C10); 0 for the other properties

OpenContainers == {i \in 1..N : nodes[i].k \in Containers /\ NumChildren(i) < MaxComps}
OpenLists == {i \in 1..N : nodes[i].k \in Lists /\ NumChildren(i) = 0}
\* TLC folds constant-level expressions once at start-up and re-evaluates a LET definition at every
\* use; so the argument is made state-dependent, and each random choice is bound exactly once by
\* quantifying over the singleton { Pick(S) }.
Pick(S) == RandomElement({x \in S : phase = phase})
RefTargets == IF TypeDefs = {} THEN {0} ELSE TypeDefs
\* definitions that already refer to / are referred to by the definition owning node p, and that
\* definition itself: drawing reference targets from here half of the time makes direct and mutual
\* recursion frequent
Related(p) == LET d == DefOf(p)
                  refs == {i \in 1..N : nodes[i].k = "REF" /\ nodes[i].p # 0}
              IN {d} \cup {DefOf(i) : i \in {j \in refs : nodes[j].ref = d}}
                     \cup {nodes[i].ref : i \in {j \in refs : DefOf(j) = d}}
RefTargetFor(p, b) == IF b THEN Pick(Related(p) \cap TypeDefs) ELSE Pick(RefTargets)
TagAllFor(m, k, b) == IF k \in Containers THEN (mods[m].tagdef # "AUTOMATIC" \/ b) ELSE FALSE

SimDef == \E m \in {Pick(1..Len(mods))}, k \in {Pick(TypeKinds)}, b \in {Pick(BOOLEAN)} :
            \E c \in {Pick(CodesOf(k))}, r \in {IF k = "REF" THEN Pick(RefTargets) ELSE 0} :
               AddDef(m, k, c, TagAllFor(m, k, b), r)
ValuedDefs == {d \in TypeDefs : nodes[d].k \in Valued}
SimValue == \E m \in {Pick(1..Len(mods))}, viaRef \in {Pick(BOOLEAN)} :
              IF viaRef /\ ValuedDefs # {}
              THEN \E r \in {Pick(ValuedDefs)} : AddValue(m, nodes[r].k, r, nodes[r].c)
              ELSE \E k \in {Pick(Valued)} : \E c \in {Pick(CodesOf(k))} : AddValue(m, k, 0, c)
\* kinds are drawn uniformly, except that every fourth draw is a reference
KindDraw == IF Pick(1..4) = 1 /\ TypeDefs # {} THEN "REF" ELSE Pick(TypeKinds)
SimChild == /\ OpenContainers # {}
            /\ \E p \in {Pick(OpenContainers)}, k \in {KindDraw}, b \in {Pick(BOOLEAN)}, qb \in {Pick(BOOLEAN)} :
                 LET role == IF nodes[p].k = "CHOICE" THEN "alt" ELSE "comp" IN
                 \E o \in {IF role = "alt" THEN "req" ELSE IF k \in Valued THEN Pick(Opts) ELSE Pick({"req", "opt"})},
                    kw \in {IF nodes[p].tagall THEN (IF k \in {"CHOICE", "ANY", "REF"} THEN Pick({"none", "E"}) ELSE Pick(Kws)) ELSE "none"},
                    r \in {IF k = "REF" THEN RefTargetFor(p, b) ELSE 0},
                    c \in {Pick(CodesOf(k))} :
                      LET q == k = "REF" /\ r # 0 /\ (IF r # 0 THEN nodes[r].m # nodes[p].m ELSE FALSE) /\ qb
                      IN AddChild(p, k, c, o, kw, TagAllFor(nodes[p].m, k, b), r, q)
SimMarker == /\ OpenContainers # {}
             /\ \E p \in {Pick(OpenContainers)} : AddMarker(p)
SimElem == /\ OpenLists # {}
           /\ \E p \in {Pick(OpenLists)}, k \in {Pick(TypeKinds)}, b \in {Pick(BOOLEAN)}, qb \in {Pick(BOOLEAN)} :
                \E r \in {IF k = "REF" THEN RefTargetFor(p, b) ELSE 0}, c \in {Pick(CodesOf(k))} :
                   LET q == k = "REF" /\ r # 0 /\ (IF r # 0 THEN nodes[r].m # nodes[p].m ELSE FALSE) /\ qb
                   IN AddElem(p, k, c, TagAllFor(nodes[p].m, k, b), r, q)
NumFaults == Cardinality({i \in Defs : nodes[i].fault # "none"})
SimFault == /\ NumFaults < MaxFaults /\ Defs # {}
            /\ \E i \in {Pick(Defs)}, f \in {Pick(FaultKinds)} :
                 \E t \in {IF f = "DUPNAME" /\ \E x \in Defs : nodes[x].m # nodes[i].m THEN Pick({x \in Defs : nodes[x].m # nodes[i].m}) ELSE 0} :
                    AddFault(i, f, t)
SimModule == \E td \in {Pick(TagDefaults)}, imp \in {Pick(BOOLEAN)} : AddModule(td, imp)
NextSim == \/ SimModule
           \/ StartGrowing
           \/ (phase = "grow" /\ SimDef)
           \/ (phase = "grow" /\ SimValue)
           \/ (phase = "grow" /\ (SimChild \/ SimChild \/ SimChild))     \* weight: grow mostly by components
           \/ (phase = "grow" /\ SimMarker)
           \/ (phase = "grow" /\ (SimElem \/ SimElem))
           \/ (phase = "grow" /\ N >= MinNodes /\ SimFault)
           \/ (N >= MinNodes /\ NumFaults >= (IF MaxFaults > 0 THEN 1 ELSE 0) /\ Finish)
SpecSim == Init /\ [][NextSim]_vars

Emit == Done => PrintT(<<"CASE", ToJson([mods |-> mods, nodes |-> nodes])>>)
=============================================================================
