SPECIFICATION Spec
CONSTANTS
  MaxLen = 4
  Alphabet <- MCAlphabet
  KeywordSample <- AllKeywords
INVARIANTS SitesAgreeMixed
CHECK_DEADLOCK FALSE
