SPECIFICATION Spec
CONSTANTS
  MaxLen = 4
INVARIANTS TypeOK Inductive ScanAgrees OneLineVerbatim OuterSpacingKept GraphicsKept PaddingInsignificant NewlineKindInsignificant ByLinesIsClause Emit
CHECK_DEADLOCK FALSE
