SPECIFICATION Spec
CONSTANTS
  MaxModules = 1
  MaxNodes = 2
  MaxDepth = 2
  MinNodes = 0
  MaxFaults = 0
  MaxComps = 2
INVARIANTS TypeOK WF MandatoryEdgesGoBack
CHECK_DEADLOCK FALSE
