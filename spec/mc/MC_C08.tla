------------------------------ MODULE MC_C08 ------------------------------
(* Model checking Totality.tla: the worker under TotalSpec, and emission of *)
(* the edit plans and reference-cycle topologies.                           *)
EXTENDS Totality, TLC, Json
CONSTANTS NPos, NDefs

\* plans: every operator x relative position x material class (where the operator takes material)
UsefulPlans == {p \in Plans(NPos) : WellFormedPlan(p)}
\* cycle topologies: NDefs definitions inside the cycle part, an optional outside entry that sorts before / after them
Topologies == {[kinds |-> k, tgt |-> t, entry |-> e] : k \in [1..NDefs -> EdgeKinds], t \in [1..NDefs -> 1..NDefs], e \in {"none", "before", "after"}}
CyclicTopologies == {x \in Topologies : HasCycle(x.tgt)}

EmitPlans == (pc = 1 /\ end = "running") => \A p \in UsefulPlans : PrintT(<<"CASE", ToJson([kind |-> "plan"] @@ p)>>)
EmitCycles == (pc = 1 /\ end = "running") => \A x \in CyclicTopologies : PrintT(<<"CASE", ToJson([kind |-> "cycle"] @@ x)>>)
\* the free machine can end badly; the property is exactly that the implementation refines TotalSpec
=============================================================================
