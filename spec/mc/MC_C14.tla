------------------------------ MODULE MC_C14 ------------------------------
EXTENDS EnumNum, TLC, Json
MCNums == {-1, 0, 1, 2, 5}
\* a sparse number set: numbers well above the count of items, next to each other and far apart (the numbering must not
\* depend on the numbers being small: C14-m7 kept its used-number table as large as the item count)
MCNumsSparse == {3, 4, 9}
\* one line per completed legal enumeration: the case handed to the driver
Emit == Done => PrintT(<<"CASE", ToJson([root |-> root, ext |-> ext, marker |-> marker, out |-> out])>>)
\* a deliberately wrong numbering (positional, what the code did before the fix):
\* used to show the invariants are not vacuous
=============================================================================
