------------------------------ MODULE MC_C13 ------------------------------
EXTENDS Layout, TLC, Json
ASSUME FormsAreGaps
\* one plan per (form, left class, right class): emitted once, from the initial state
Plans == {[form |-> f, cl |-> a, cr |-> b] : f \in Forms, a \in Classes, b \in Classes}
EmitPlans == (gap = <<>>) => \A p \in {q \in Plans : Applicable(q.form, q.cl, q.cr)} : PrintT(<<"CASE", ToJson(p)>>)
\* every complete gap the grammar generates, for the harness to put between tokens (symbols; the harness writes s = space,
\* n = line feed, d = "-", t = "*", l = "/", x = a letter)
EmitGaps == (open = 0 /\ ~inline /\ gap # <<>>) => PrintT(<<"GAP", ToJson(gap)>>)
=============================================================================
