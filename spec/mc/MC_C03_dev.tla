------------------------------ MODULE MC_C03_dev ------------------------------
(* Deviation models for C03: the tagging rule as the code applies it under  *)
(* one named deviation.  Each must violate an invariant of Tagging; if TLC  *)
(* does not refute it, the deviation model (or the invariant) is vacuous.   *)
EXTENDS Integers, Sequences, FiniteSets, TLC
CONSTANT Dev
VARIABLES md, kw, cls, pos, kind, phase, explicit
T == INSTANCE Tagging
EffDefault == IF Dev = "D_C03_no_tags_clause" /\ md = "NONE" THEN "IMPLICIT" ELSE md
CodeExplicit ==
    IF Dev = "D_C03_nested_env" /\ pos = "nested" THEN kw = "EXPLICIT"
    ELSE IF Dev = "D_C03_open_implicit" /\ kind = "open" THEN T!ClauseA(kw) \/ T!ClauseB(EffDefault, kw)
    ELSE T!IsExplicit(EffDefault, kw, kind)
ResolveDev == /\ phase = "resolve" /\ T!Legal(kw, kind)
              /\ explicit' = CodeExplicit /\ phase' = "done"
              /\ UNCHANGED <<md, kw, cls, pos, kind>>
Next == \/ \E d \in T!Defaults : T!PickDefault(d)
        \/ \E k \in T!Keywords : T!PickKeyword(k)
        \/ \E c \in T!Classes : T!PickClass(c)
        \/ \E p \in T!Positions : T!PickPosition(p)
        \/ \E k \in T!Kinds : T!PickKind(k)
        \/ ResolveDev
Spec == T!Init /\ [][Next]_<<md, kw, cls, pos, kind, phase, explicit>>
\* a dropped element tag violates "every tag written in the source is applied"
Applied == ~(Dev = "D_C03_element_tag" /\ phase = "done" /\ pos = "element")
InvB == T!InvB
InvC == T!InvC
Mode == T!ModeIndependentOfPosition
=============================================================================
