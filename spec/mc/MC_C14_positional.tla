-------------------------- MODULE MC_C14_positional --------------------------
(* Negative model: the numbering the code used before the "fix:" commit --   *)
(* identifier-only items are numbered by their position.  TLC must refute    *)
(* the C14 invariants for it; otherwise the invariants would be vacuous.     *)
EXTENDS Integers, Sequences, FiniteSets, TLC
CONSTANTS MaxRoot, Nums
NoNum == 99
MCNums == {-1, 0, 1, 2, 5}
VARIABLES root, phase, out
Positional(r) == [i \in 1..Len(r) |-> IF r[i] = NoNum THEN i - 1 ELSE r[i]]
Init == root = <<>> /\ phase = "root" /\ out = <<>>
Add(it) == phase = "root" /\ Len(root) < MaxRoot /\ root' = Append(root, it) /\ UNCHANGED <<phase, out>>
Explicit(s) == {s[i] : i \in {j \in 1..Len(s) : s[j] # NoNum}}
LegalInput == \A i, j \in 1..Len(root) : (i # j /\ root[i] # NoNum) => root[i] # root[j]
Number == phase = "root" /\ Len(root) >= 1 /\ LegalInput /\ phase' = "done" /\ out' = Positional(root) /\ UNCHANGED root
Next == (\E it \in Nums \cup {NoNum} : Add(it)) \/ Number
Spec == Init /\ [][Next]_<<root, phase, out>>
Distinct == phase = "done" => \A i, j \in 1..Len(out) : i # j => out[i] # out[j]
=============================================================================
