----------------------------- MODULE MC_FmtPipe -----------------------------
(* Model checking FmtPipe.tla: the code's design (writer thread, drain then   *)
(* wait) returns for every pair of sizes; the variants deadlock.  Emits the   *)
(* output sizes (in units of the pipe capacity) the real code is run with.    *)
EXTENDS FmtPipe, TLC, Json
EmitSizes == (written = 0 /\ produced = 0 /\ nin = 1 /\ nout = 1 /\ mainpc = FirstPc) =>
                \A s \in Boundary : PrintT(<<"CASE", ToJson([kind |-> "fmtsize", quarters |-> (4 * s) \div Cap])>>)
=============================================================================
