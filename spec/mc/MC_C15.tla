------------------------------ MODULE MC_C15 ------------------------------
EXTENDS Alphabet, TLC, Json
KM == {"NumericString", "PrintableString", "VisibleString", "IA5String", "BMPString", "UniversalString"}
KMquick == {"NumericString", "IA5String", "BMPString"}
Other == {"UTF8String", "TeletexString", "GeneralString", "GraphicString"}
OtherQuick == Other   \* every type that is not known-multiplier, in both tiers: "no alphabet annotation" is decided per type
Emit == Done => PrintT(<<"CASE", ToJson([os |-> os, ps |-> ps, ty |-> ty, sizepos |-> sizepos, pos |-> pos])>>)
=============================================================================
