------------------------------ MODULE MC_C15 ------------------------------
EXTENDS Alphabet, TLC, Json
KM == {"NumericString", "PrintableString", "VisibleString", "IA5String", "BMPString", "UniversalString"}
KMquick == {"NumericString", "IA5String", "BMPString"}
Other == {"UTF8String", "TeletexString", "GeneralString", "GraphicString"}
OtherQuick == Other   \* every type that is not known-multiplier, in both tiers: "no alphabet annotation" is decided per type
\* the long-strings slice: strings of up to three characters under the types whose character tables have gaps in code point order
KMgap == {"PrintableString", "NumericString"}
NoOther == {}
Emit == Done => PrintT(<<"CASE", ToJson([os |-> os, ps |-> ps, ty |-> ty, sizepos |-> sizepos, pos |-> pos])>>)
=============================================================================
