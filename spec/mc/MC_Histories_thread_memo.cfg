SPECIFICATION Spec
CONSTANTS
  Design = "thread_memo"
  MaxRuns = 3
INVARIANTS OutIsFunctionOfInput
CHECK_DEADLOCK FALSE
