------------------------------ MODULE MC_C17 ------------------------------
EXTENDS ErrorPos, TLC, Json
\* plans: relative positions (the harness takes them modulo the actual counts)
Plans == {[a |-> a, t |-> t, anchor |-> an, edit |-> e, stuff |-> s, crlf |-> c, file |-> f] :
            a \in 0..5, t \in 0..7, an \in Anchors, e \in Edits, s \in Stuff, c \in BOOLEAN, f \in BOOLEAN}
Useful(p) == /\ p.edit = "delete" => p.stuff = "notoken"      \* nothing is put in on deletion: one plan per position
             /\ p.anchor # "nth" => p.t = 0                    \* the anchor names the token
EmitPlans == (doc = <<>> /\ phase = "write") => \A p \in {q \in Plans : Useful(q)} : PrintT(<<"CASE", ToJson(p)>>)
=============================================================================
