SPECIFICATION Spec
CONSTANTS
  Design = "process_once"
  MaxRuns = 3
INVARIANTS OutIsFunctionOfInput
CHECK_DEADLOCK FALSE
