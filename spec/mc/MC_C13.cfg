SPECIFICATION Spec
CONSTANT MaxGap = 9
INVARIANTS GapsAreConsumed OpenBlockNotConsumed StopsAtToken EmitPlans
CHECK_DEADLOCK FALSE
