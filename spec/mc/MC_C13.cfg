SPECIFICATION Spec
CONSTANT MaxGap = 9
INVARIANTS GapsAreConsumed OpenBlockNotConsumed StopsAtToken EmitPlans EmitGaps
CHECK_DEADLOCK FALSE
