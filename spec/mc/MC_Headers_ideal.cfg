SPECIFICATION Spec
CONSTANTS
  Units <- MCUnits
  ModNames <- MCModNames
  Envs <- MCEnvs
  HeaderPer = "unit"
  EnvFrom = "own"
INVARIANTS LexEnvIsOwn GenEnvIsOwn FoldAgrees OrderIndependent
PROPERTY Terminates
CHECK_DEADLOCK FALSE
