SPECIFICATION Spec
CONSTANTS
  MaxRoot = 2
  MaxAdd = 3
  MaxGroups = 2
INVARIANTS TypeOK Partition AdditionsAfterMarker GroupsKept ChoiceHasNoGroupMembers FoldAgrees Emit EmitHeader
CHECK_DEADLOCK FALSE
