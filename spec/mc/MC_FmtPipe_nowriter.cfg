SPECIFICATION Spec
CONSTANTS
  Cap = 2
  MaxIn = 6
  MaxOut = 7
  Order = "drain_then_wait"
  WriterThread = FALSE
  Streaming = TRUE
INVARIANTS TypeOK Conservation Complete NoDeadlock
CHECK_DEADLOCK FALSE
