SPECIFICATION Spec
CONSTANT Dev = "D_C03_open_implicit"
INVARIANT InvC
CHECK_DEADLOCK FALSE
