SPECIFICATION Spec
INVARIANTS SelectionAllowed SelectionTight ValueFits Emit
CHECK_DEADLOCK FALSE
