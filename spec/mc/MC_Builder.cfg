SPECIFICATION Spec
CONSTANTS
  NSrc = 3
  MaxCalls = 5
INVARIANTS TypeOK SourcesAccumulate StateMeansWhatItSays CompileHasEverything FoldAgrees Emit
CHECK_DEADLOCK FALSE
