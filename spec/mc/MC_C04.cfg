SPECIFICATION Spec
CONSTANTS
  Ends <- MCEnds
  MaxOperands = 2
  MaxSerial = 0
  AllowOpen = FALSE
  Targets <- TargetsTwo
INVARIANTS TypeOK Sound Tight Emit
CHECK_DEADLOCK FALSE
