------------------------------ MODULE MC_C20 ------------------------------
(* Model checking Delivery.tla and emitting the scenario plans: every initial *)
(* state x {library, command-line tool} x backend x source form.              *)
EXTENDS Delivery, TLC, Json
Apis == {"lib", "cli"}
Backends == {"rasn", "typescript"}
SrcForms == {"literal", "path", "paths", "dir"}
Valid(api, form, m, i) ==
    /\ api = "lib" => form # "dir" /\ m # "default"
    /\ api = "cli" => form \in {"paths", "dir"}
    /\ form = "literal" => i # "missing_source"
\* a formatter in reach concerns the rasn backend only; staged for the destinations that take the text and for one that does not
FmtValid(p) == p.fmt # "absent" => (p.backend = "rasn" /\ p.dest \in {"absent", "other_long", "readonly", "dir_other", "na", "stdout_full"})
Plans == {p \in [api : Apis, backend : Backends, srcform : SrcForms, mode : {mode}, dest : {dest}, input : {input}, fmt : {fmt}] :
            Valid(p.api, p.srcform, mode, input) /\ FmtValid(p)}
\* (one print per scenario: the text's shape is not the harness's to choose, it records the shape it meets)
EmitPlans == (pc = "start" /\ shape = "ends_in_newline") => \A p \in Plans : PrintT(<<"CASE", ToJson(p)>>)
=============================================================================
