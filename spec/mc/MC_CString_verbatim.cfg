SPECIFICATION Spec
CONSTANTS
  MaxLen = 3
INVARIANTS VerbatimIsClause
CHECK_DEADLOCK FALSE
