SPECIFICATION Spec
CONSTANTS
  NDefs = 3
  Kinds <- AllKinds
  EdgeTypes <- OptEdges
INVARIANTS IdealFinite LegalHasValue Emit
CHECK_DEADLOCK FALSE
