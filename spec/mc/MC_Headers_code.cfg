SPECIFICATION Spec
CONSTANTS
  Units <- MCUnits
  ModNames <- MCModNames
  Envs <- MCEnvs
  HeaderPer = "unit"
  EnvFrom = "head"
INVARIANTS LexEnvIsOwn GenEnvIsOwnIfDistinct FoldAgrees OrderIndependent
PROPERTY Terminates
CHECK_DEADLOCK FALSE
