------------------------------ MODULE MC_C07 ------------------------------
(* Case families for C07: every case is a value notation term, its governing *)
(* type, where it stands (value assignment / DEFAULT), whether it is written  *)
(* directly or through a value reference, and through how many type          *)
(* references the governing type is reached.  TLC checks that Denote is      *)
(* defined on all of them (and a few facts about the tables) and prints them.*)
EXTENDS Values, TLC, Json
VARIABLE fam

Positions == {"assign", "default"}
Vias == {"direct", "ref"}
Chains == 0..2
Wrap(t, via) == IF via = "ref" THEN [f |-> "ref", to |-> t] ELSE t
Case(family, ty, term) == {[fam |-> family, pos |-> p, via |-> v, chain |-> c, ty |-> ty, term |-> Wrap(term, v)] :
                              p \in Positions, v \in Vias, c \in Chains}
Few(family, ty, term) == {[fam |-> family, pos |-> p, via |-> "direct", chain |-> 0, ty |-> ty, term |-> term] : p \in Positions}

\* ---------------------------------------------------------------- integers
IntPoints == {"0", "1", "-1", "127", "128", "255", "256", "-128", "-129", "32767", "32768", "65535", "65536",
              "2147483647", "2147483648", "-2147483648", "-2147483649", "4294967295", "4294967296",
              "9223372036854775807", "9223372036854775808", "-9223372036854775808", "-9223372036854775809",
              "18446744073709551615", "18446744073709551616", "123456789012",
              "170141183460469231731687303715884105727", "-170141183460469231731687303715884105728"}
IntTy(con) == [k |-> "INTEGER", named |-> <<>>, con |-> con]
IntCases == UNION {Case("int", IntTy(c), [f |-> "int", dec |-> d]) : d \in IntPoints, c \in {"none", "exact", "upto", "from"}}
Named == <<[n |-> "low", dec |-> "-5"], [n |-> "mid", dec |-> "7"], [n |-> "high", dec |-> "9223372036854775808"], [n |-> "zero", dec |-> "0"]>>
NamedTy == [k |-> "INTEGER", named |-> Named, con |-> "none"]
NamedCases == UNION {Case("namednum", NamedTy, [f |-> "namednum", name |-> Named[i].n]) : i \in DOMAIN Named}
                \cup UNION {Case("int", NamedTy, [f |-> "int", dec |-> d]) : d \in {"7", "-6", "300"}}
BoolCases == UNION {Case("bool", [k |-> "BOOLEAN"], [f |-> "bool", b |-> b]) : b \in BOOLEAN} \cup Case("null", [k |-> "NULL"], [f |-> "null"])

\* ---------------------------------------------------------------- character strings
Q == "\""
Texts == {<<>>, <<"a">>, <<"a", Q, "b">>, <<Q>>, <<Q, Q>>, <<"x", " ", "y">>, <<"1", "2">>, <<"1", " ", "2">>, <<"g", "r", "ü", "ß">>, <<"a", "-", "b", Q>>}
StrKinds == {"UTF8String", "IA5String", "PrintableString", "VisibleString", "NumericString", "BMPString", "UniversalString", "GeneralString"}
Ascii(cs) == \A i \in DOMAIN cs : cs[i] \notin {"ü", "ß"}
StrValid(cs, k) ==
    CASE k = "NumericString" -> \A i \in DOMAIN cs : cs[i] \in {"1", "2", " "}
      [] k = "PrintableString" -> Ascii(cs) /\ \A i \in DOMAIN cs : cs[i] # Q
      [] k \in {"IA5String", "VisibleString", "GeneralString"} -> Ascii(cs)
      [] OTHER -> TRUE
StrCases == UNION {Case("cstring", [k |-> k], [f |-> "cstring", chars |-> cs]) : <<cs, k>> \in {p \in Texts \X StrKinds : StrValid(p[1], p[2])}}

\* ---------------------------------------------------------------- bit and octet strings
BitSeqs(n) == UNION {[1..k -> {0, 1}] : k \in 0..n}
Pattern(n, kind) == [i \in 1..n |-> CASE kind = "ones" -> 1 [] kind = "alt" -> i % 2 [] kind = "last" -> IF i = n THEN 1 ELSE 0 [] OTHER -> IF i = 1 THEN 1 ELSE 0]
LongBits == {Pattern(n, k) : n \in {7, 8, 9, 15, 16, 17, 31, 32, 33, 63, 64}, k \in {"ones", "alt", "last", "first"}}
HexSeqs == UNION {[1..k -> ToSet(HexDigits)] : k \in 1..2}
LongHex == {HexDigits, SubSeq(HexDigits, 2, 16), <<"F", "F", "0", "0", "A", "5">>, <<"0", "0", "0", "1">>, <<"8", "0", "0", "0", "0", "0", "0", "0", "0", "0", "0", "0", "0", "0", "0", "1">>}
BitTy(k) == [k |-> k, named |-> <<>>]
BinCases == UNION {Few("bstring", BitTy(k), [f |-> "bstring", bits |-> b]) : b \in BitSeqs(5) \cup LongBits, k \in {"BITSTRING", "OCTETSTRING"}}
HexCases == UNION {Few("hstring", BitTy(k), [f |-> "hstring", digits |-> d]) : d \in HexSeqs \cup LongHex \cup {<<>>}, k \in {"BITSTRING", "OCTETSTRING"}}
BinRefCases == UNION {Case("bstring", BitTy(k), [f |-> "bstring", bits |-> b]) : b \in {<<1, 0, 1, 0, 0, 0, 0, 1>>, <<>>}, k \in {"BITSTRING", "OCTETSTRING"}}
                 \cup UNION {Case("hstring", BitTy(k), [f |-> "hstring", digits |-> d]) : d \in {<<"A", "5">>, <<"0", "F", "1", "0">>}, k \in {"BITSTRING", "OCTETSTRING"}}

\* named bits: three names on distinct positions, declared in any order; every subset, listed in either order
BitPositions == {0, 1, 3, 5, 9}
Decls == {d \in [1..3 -> BitPositions] : Cardinality({d[1], d[2], d[3]}) = 3}
Names3 == <<"ba", "bb", "bc">>
DeclOf(d) == [i \in 1..3 |-> [n |-> Names3[i], p |-> d[i]]]
Picks == {<<>>, <<"ba">>, <<"bb">>, <<"bc">>, <<"ba", "bb">>, <<"bc", "ba">>, <<"bb", "bc">>, <<"ba", "bb", "bc">>, <<"bc", "bb", "ba">>}
NamedBitCases == UNION {Few("namedbits", [k |-> "BITSTRING", named |-> DeclOf(d)], [f |-> "namedbits", chosen |-> c]) : d \in Decls, c \in Picks}
NamedBitRefCases == UNION {Case("namedbits", [k |-> "BITSTRING", named |-> DeclOf(<<5, 0, 3>>)], [f |-> "namedbits", chosen |-> c]) : c \in Picks}
                      \cup UNION {Case("bstring", [k |-> "BITSTRING", named |-> DeclOf(<<5, 0, 3>>)], [f |-> "bstring", bits |-> <<1, 0, 1>>]) : x \in {1}}

\* ---------------------------------------------------------------- enumerals
EnumDecl == <<[n |-> "ea", dec |-> "1"], [n |-> "eb", dec |-> "5"], [n |-> "ec", dec |-> ""]>>
EnumCases == UNION {Case("enum", [k |-> "ENUMERATED", named |-> EnumDecl, inline |-> inl], [f |-> "enum", name |-> EnumDecl[i].n]) : i \in 1..3, inl \in BOOLEAN}

\* ---------------------------------------------------------------- object identifiers
Num(n) == [form |-> "num", name |-> "", n |-> n]
Nm(s) == [form |-> "name", name |-> s, n |-> ""]
NN(s, n) == [form |-> "namenum", name |-> s, n |-> n]
Roots == {<<Nm("iso")>>, <<NN("iso", "1")>>, <<Num("1")>>, <<Nm("itu-t")>>, <<Num("0")>>, <<NN("itu-t", "0")>>, <<Nm("ccitt")>>,
          <<Nm("joint-iso-itu-t")>>, <<Num("2")>>, <<Nm("joint-iso-ccitt")>>, <<NN("joint-iso-itu-t", "2")>>}
RootNo(r) == ArcNumber(r[1], 1, "")
Seconds(r) == IF RootNo(r) = "0" THEN {<<Nm(s)>> : s \in DOMAIN WellKnownItu} \cup {<<Num("0")>>, <<Num("4")>>, <<NN("recommendation", "0")>>, <<NN("question", "1")>>}
              ELSE IF RootNo(r) = "1" THEN {<<Nm(s)>> : s \in DOMAIN WellKnownIso} \cup {<<Num("0")>>, <<Num("3")>>, <<NN("member-body", "2")>>, <<NN("standard", "0")>>}
              ELSE {<<Num("5")>>, <<NN("ds", "5")>>, <<Num("16")>>}
Tails == {<<>>, <<Num("8571")>>, <<NN("us", "840"), NN("rsadsi", "113549")>>, <<NN("us", "840"), NN("standard", "9"), Num("4")>>,
          <<Num("17"), NN("question", "1218"), Num("1")>>, <<NN("iso", "7"), NN("itu-t", "9")>>, <<Num("4294967295")>>, <<Num("0"), Num("0")>>,
          <<NN("member-body", "6"), NN("identified-organization", "8")>>}
OidTy == [k |-> "OID"]
NoPrefix == [f |-> "none"]
OidTerms == {[f |-> "oid", prefix |-> NoPrefix, arcs |-> r \o s \o t] : <<r, s, t>> \in {x \in Roots \X (UNION {Seconds(r) : r \in Roots}) \X Tails : x[2] \in Seconds(x[1])}}
\* the letter arcs below itu-t recommendation, by name alone and with a number
LetterTerms == {[f |-> "oid", prefix |-> NoPrefix, arcs |-> r \o s \o <<l>> \o t] :
                  r \in {<<Nm("itu-t")>>, <<Num("0")>>, <<Nm("ccitt")>>}, s \in {<<Nm("recommendation")>>, <<Num("0")>>, <<NN("recommendation", "0")>>},
                  l \in {Nm("a"), Nm("q"), Nm("x"), Nm("z"), NN("q", "17")}, t \in {<<>>, <<Num("755"), Num("2")>>}}
OidCases == UNION {Few("oid", OidTy, t) : t \in OidTerms \cup LetterTerms}
PrefixTerm == [f |-> "oid", prefix |-> NoPrefix, arcs |-> <<Num("1"), Num("2"), Num("840")>>]
OidRefCases == UNION {Case("oid", OidTy, [f |-> "oid", prefix |-> NoPrefix, arcs |-> a]) : a \in {<<Nm("iso"), Nm("standard"), Num("8571")>>, <<Num("2"), Num("5"), Num("4")>>}}
                 \cup UNION {Case("oid", OidTy, [f |-> "oid", prefix |-> PrefixTerm, arcs |-> a]) : a \in {<<Num("1"), Num("5")>>, <<NN("standard", "9")>>, <<Num("113549")>>}}
RelOidCases == UNION {Case("reloid", [k |-> "RELOID"], [f |-> "oid", prefix |-> NoPrefix, arcs |-> a]) : a \in {<<Num("3"), Num("4")>>, <<Num("0")>>, <<NN("x", "7"), Num("1")>>}}

\* ---------------------------------------------------------------- constructed values
I(d) == [f |-> "int", dec |-> d]
B(b) == [f |-> "bool", b |-> b]
S(cs) == [f |-> "cstring", chars |-> cs]
TInt == IntTy("none")
TBool == [k |-> "BOOLEAN"]
TStr == [k |-> "UTF8String"]
ChoiceTy == [k |-> "CHOICE", alts |-> <<[n |-> "a", ty |-> TInt], [n |-> "b", ty |-> TBool], [n |-> "c", ty |-> TStr]>>]
SeqTy == [k |-> "SEQUENCE", comps |-> <<[n |-> "x", ty |-> TInt, opt |-> "req", dflt |-> I("0")], [n |-> "y", ty |-> TBool, opt |-> "optional", dflt |-> B(TRUE)],
                                          [n |-> "z", ty |-> TStr, opt |-> "default", dflt |-> S(<<"d">>)]>>]
SeqOfTy(e) == [k |-> "SEQOF", elem |-> e]
Fld(n, v) == [n |-> n, v |-> v]
ChoiceCases == UNION {Case("choice", ChoiceTy, t) : t \in {[f |-> "choice", alt |-> "a", v |-> I("5")], [f |-> "choice", alt |-> "a", v |-> I("-9223372036854775809")],
                                                            [f |-> "choice", alt |-> "b", v |-> B(TRUE)], [f |-> "choice", alt |-> "c", v |-> S(<<"a", Q>>)]}}
SeqCases == UNION {Case("seq", SeqTy, [f |-> "seq", fields |-> fs]) : fs \in {<<Fld("x", I("5"))>>, <<Fld("x", I("5")), Fld("y", B(FALSE))>>,
                                                                                <<Fld("x", I("-1")), Fld("z", S(<<"e">>))>>, <<Fld("x", I("1")), Fld("y", B(TRUE)), Fld("z", S(<<>>))>>}}
SeqOfCases == UNION {Case("seqof", SeqOfTy(TInt), [f |-> "seqof", items |-> it]) : it \in {<<>>, <<I("1")>>, <<I("1"), I("2"), I("-3")>>}}
               \cup UNION {Case("seqof", SeqOfTy(SeqTy), [f |-> "seqof", items |-> it]) : it \in {<<[f |-> "seq", fields |-> <<Fld("x", I("1"))>>], [f |-> "seq", fields |-> <<Fld("x", I("2")), Fld("y", B(FALSE))>>]>>}}
               \cup UNION {Case("seqof", SeqOfTy(TBool), [f |-> "seqof", items |-> it]) : it \in {<<B(TRUE), B(FALSE)>>}}
NestedCases == UNION {Case("nested", [k |-> "SEQUENCE", comps |-> <<[n |-> "s", ty |-> SeqTy, opt |-> "req", dflt |-> I("0")], [n |-> "c", ty |-> ChoiceTy, opt |-> "req", dflt |-> I("0")],
                                                                      [n |-> "l", ty |-> SeqOfTy(TInt), opt |-> "optional", dflt |-> I("0")]>>],
                           [f |-> "seq", fields |-> <<Fld("s", [f |-> "seq", fields |-> <<Fld("x", I("1"))>>]), Fld("c", [f |-> "choice", alt |-> "b", v |-> B(TRUE)]),
                                                       Fld("l", [f |-> "seqof", items |-> <<I("4"), I("5")>>])>>]) : x \in {1}}

\* SET values: X.680 27.8 lets the component values come in any order -- every order of a complete value, and the orders
\* of a value that leaves the DEFAULT component out; the components share one type, so that a positional reading is silent
SetTy == [k |-> "SET", comps |-> <<[n |-> "major", ty |-> TInt, opt |-> "req", dflt |-> I("0")], [n |-> "minor", ty |-> TInt, opt |-> "req", dflt |-> I("0")],
                                     [n |-> "patch", ty |-> TInt, opt |-> "default", dflt |-> I("9")]>>]
SetFlds == <<Fld("major", I("1")), Fld("minor", I("2")), Fld("patch", I("3"))>>
Orders3 == {<<1, 2, 3>>, <<1, 3, 2>>, <<2, 1, 3>>, <<2, 3, 1>>, <<3, 1, 2>>, <<3, 2, 1>>}
SetCases == UNION {Case("set", SetTy, [f |-> "seq", fields |-> [i \in 1..3 |-> SetFlds[o[i]]]]) : o \in Orders3}
              \cup UNION {Case("set", SetTy, [f |-> "seq", fields |-> fs]) : fs \in {<<SetFlds[1], SetFlds[2]>>, <<SetFlds[2], SetFlds[1]>>}}
\* a SEQUENCE value of three components of one type, complete and without the DEFAULT one (order is fixed for SEQUENCE)
Seq3Ty == [SetTy EXCEPT !.k = "SEQUENCE"]
Seq3Cases == UNION {Case("seq", Seq3Ty, [f |-> "seq", fields |-> fs]) : fs \in {SetFlds, <<SetFlds[1], SetFlds[2]>>}}

Families == <<SetCases, Seq3Cases, IntCases, NamedCases, BoolCases, StrCases, BinCases, HexCases, BinRefCases, NamedBitCases, NamedBitRefCases, EnumCases,
              OidCases, OidRefCases, RelOidCases, ChoiceCases, SeqCases, SeqOfCases, NestedCases>>

Init == fam = 1
Next == fam < Len(Families) /\ fam' = fam + 1
Spec == Init /\ [][Next]_fam

\* Denote is defined on every case, and name-only arcs stand where they may
Defined == \A c \in Families[fam] : Denote(c.term, c.ty).k # "?"
OidWellFormed == \A t \in OidTerms \cup LetterTerms : NameFormOK(t.arcs)
\* the tables: 4 bits per hex digit, most significant first; an octet string has whole octets
HexTable == /\ \A i \in 1..16 : LET b == HexBits(<<HexDigits[i]>>) IN Len(b) = 4 /\ 8 * b[1] + 4 * b[2] + 2 * b[3] + b[4] = i - 1
            /\ \A d \in LongHex : Len(HexBits(d)) = 4 * Len(d)
OctetsWhole == \A b \in BitSeqs(5) \cup LongBits : LET o == Octets(b) IN Len(o) = (Len(b) + 7) \div 8 /\ \A i \in DOMAIN o : o[i] \in 0..255
Emit == \A c \in Families[fam] : PrintT(<<"CASE", ToJson(c)>>)
=============================================================================
