SPECIFICATION Spec
CONSTANTS
  MaxRoot = 3
  Nums <- MCNums
INVARIANT Distinct
CHECK_DEADLOCK FALSE
