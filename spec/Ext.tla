-------------------------------- MODULE Ext --------------------------------
(***************************************************************************)
(* Extension markers, additions and version groups (property C05;          *)
(* X.680 clauses 25, 27, 29, 20 and 52).                                   *)
(*                                                                         *)
(* A component list is read left to right.  The fold over it is modelled   *)
(* action by action (RootComp, Marker, Addition, OpenGroup, GroupComp,     *)
(* CloseGroup) -- the same grain as the lexer's component parsers -- and   *)
(* builds, next to the source `layout`, the `members` the bindings must    *)
(* show:                                                                   *)
(*    role "root"   a component before the marker                          *)
(*    role "add"    an extension addition (a component after the marker)   *)
(*    role "group"  one optional extension-addition-group member holding   *)
(*                  exactly the components of one [[ ]] group, in order    *)
(* For CHOICE, X.680 gives version brackets no grouping effect: every      *)
(* grouped alternative is an extension addition of its own.                *)
(***************************************************************************)
EXTENDS Integers, Sequences, FiniteSets, TLC

CONSTANTS MaxRoot, MaxAdd, MaxGroups

Kinds == {"SEQUENCE", "SET", "CHOICE", "ENUMERATED"}

\* The module header (X.680 13.1):  DEFINITIONS [EncodingReferenceDefault] [TagDefault] [ExtensionDefault] "::=" .
\* TagDefault and ExtensionDefault are independent productions, each of which may be empty: whether the module says
\* EXTENSIBILITY IMPLIED is read off the header whatever its TAGS clause is, and also when it has none.
TagClauses == {"none", "EXPLICIT", "IMPLICIT", "AUTOMATIC"}
Headers == [tags : TagClauses, implied : BOOLEAN]
ImpliedOf(h) == h.implied

VARIABLES kind,      \* container kind
          implied,   \* module header says EXTENSIBILITY IMPLIED
          nested,    \* the type is an anonymous component of an outer SEQUENCE
          layout,    \* source: sequence of [t: "r" | "m" | "a" | "g", n, ver]
          members,   \* expected members: sequence of [role, names, opt]
          marker,    \* an extension marker has been read
          ingroup,   \* inside [[ ]]
          count,     \* components read so far (names are c1, c2, ...)
          phase      \* "cfg" | "build" | "done"

vars == <<kind, implied, nested, layout, members, marker, ingroup, count, phase>>

Name(i) == "c" \o ToString(i)

NAdd == Len(SelectSeq(layout, LAMBDA x : x.t = "a")) +
        LET gs == SelectSeq(layout, LAMBDA x : x.t = "g")
            RECURSIVE Sum(_)
            Sum(i) == IF i = 0 THEN 0 ELSE gs[i].n + Sum(i - 1)
        IN Sum(Len(gs))
NRoot == Len(SelectSeq(layout, LAMBDA x : x.t = "r"))
NGroups == Len(SelectSeq(layout, LAMBDA x : x.t = "g"))

Init == /\ kind = "none" /\ implied = FALSE /\ nested = FALSE
        /\ layout = <<>> /\ members = <<>> /\ marker = FALSE /\ ingroup = FALSE
        /\ count = 0 /\ phase = "cfg"

Configure(k, i, n) ==
    /\ phase = "cfg"
    /\ kind' = k /\ implied' = i /\ nested' = n /\ phase' = "build"
    /\ UNCHANGED <<layout, members, marker, ingroup, count>>

RootComp ==
    /\ phase = "build" /\ ~marker /\ NRoot < MaxRoot
    /\ count' = count + 1
    /\ layout' = Append(layout, [t |-> "r", n |-> 1, ver |-> FALSE])
    /\ members' = Append(members, [role |-> "root", names |-> <<Name(count + 1)>>, opt |-> FALSE])
    /\ UNCHANGED <<kind, implied, nested, marker, ingroup, phase>>

Marker ==
    /\ phase = "build" /\ ~marker
    /\ marker' = TRUE
    /\ layout' = Append(layout, [t |-> "m", n |-> 0, ver |-> FALSE])
    /\ UNCHANGED <<kind, implied, nested, members, ingroup, count, phase>>

Addition ==
    /\ phase = "build" /\ marker /\ ~ingroup /\ NAdd < MaxAdd
    /\ count' = count + 1
    /\ layout' = Append(layout, [t |-> "a", n |-> 1, ver |-> FALSE])
    /\ members' = Append(members, [role |-> "add", names |-> <<Name(count + 1)>>, opt |-> FALSE])
    /\ UNCHANGED <<kind, implied, nested, marker, ingroup, phase>>

OpenGroup(v) ==
    /\ phase = "build" /\ marker /\ ~ingroup /\ NAdd < MaxAdd /\ NGroups < MaxGroups
    /\ kind # "ENUMERATED"
    /\ ingroup' = TRUE
    /\ layout' = Append(layout, [t |-> "g", n |-> 0, ver |-> v])
    /\ members' = IF kind = "CHOICE" THEN members
                  ELSE Append(members, [role |-> "group", names |-> <<>>, opt |-> TRUE])
    /\ UNCHANGED <<kind, implied, nested, marker, count, phase>>

GroupComp ==
    /\ phase = "build" /\ ingroup /\ NAdd < MaxAdd
    /\ count' = count + 1
    /\ layout' = [layout EXCEPT ![Len(layout)].n = @ + 1]
    /\ members' = IF kind = "CHOICE"
                  THEN Append(members, [role |-> "add", names |-> <<Name(count + 1)>>, opt |-> FALSE])
                  ELSE [members EXCEPT ![Len(members)].names = Append(@, Name(count + 1))]
    /\ UNCHANGED <<kind, implied, nested, marker, ingroup, phase>>

CloseGroup ==
    /\ phase = "build" /\ ingroup /\ layout[Len(layout)].n >= 1
    /\ ingroup' = FALSE
    /\ UNCHANGED <<kind, implied, nested, layout, members, marker, count, phase>>

Finish ==
    /\ phase = "build" /\ ~ingroup
    /\ kind = "CHOICE" => count >= 1
    /\ kind = "ENUMERATED" => NRoot >= 1
    /\ phase' = "done"
    /\ UNCHANGED <<kind, implied, nested, layout, members, marker, ingroup, count>>

Next == \/ \E k \in Kinds, i, n \in BOOLEAN : Configure(k, i, n)
        \/ RootComp \/ Marker \/ Addition \/ (\E v \in BOOLEAN : OpenGroup(v))
        \/ GroupComp \/ CloseGroup \/ Finish

Spec == Init /\ [][Next]_vars

----------------------------------------------------------------------------
Done == phase = "done"

\* generated as extensible exactly when there is a marker or the module says IMPLIED
Extensible == marker \/ implied

\* index of the first addition = number of root components (what the IR records)
ExtIndex == IF marker THEN NRoot ELSE -1

RECURSIVE Flatten(_)
Flatten(ms) == IF ms = <<>> THEN <<>> ELSE Head(ms).names \o Flatten(Tail(ms))

\* nothing added, dropped, duplicated or reordered: flattened, the members are c1..c_count
Partition == Done => Flatten(members) = [i \in 1..count |-> Name(i)]

\* the components after the marker, and only those, are additions
MarkerPos == CHOOSE i \in 1..(Len(layout) + 1) : (i = Len(layout) + 1 \/ layout[i].t = "m")
                                                  /\ \A j \in 1..(i-1) : layout[j].t # "m"
AdditionsAfterMarker ==
    Done => /\ \A i \in 1..Len(members) : (members[i].role = "root") <=> (i <= NRoot)
            /\ NRoot = MarkerPos - 1

\* each [[ ]] group becomes one optional group member with exactly its components
GroupsKept ==
    (Done /\ kind \in {"SEQUENCE", "SET"}) =>
        LET gs == SelectSeq(layout, LAMBDA x : x.t = "g")
            gm == SelectSeq(members, LAMBDA m : m.role = "group")
        IN /\ Len(gs) = Len(gm)
           /\ \A i \in 1..Len(gs) : Len(gm[i].names) = gs[i].n /\ gm[i].opt

ChoiceHasNoGroupMembers == (Done /\ kind = "CHOICE") => \A i \in 1..Len(members) : members[i].role # "group"

TypeOK == /\ phase \in {"cfg", "build", "done"}
          /\ NRoot <= MaxRoot /\ NAdd <= MaxAdd /\ NGroups <= MaxGroups

(* ------------------------------------------------------------------------ *)
(* Constant-level version of the fold, used by the trace specification to   *)
(* compute the expected members of a recorded layout.                       *)
RECURSIVE Fold(_, _, _, _, _)
Fold(k, lay, i, cnt, acc) ==
    IF i > Len(lay) THEN acc
    ELSE LET x == lay[i] IN
      CASE x.t = "r" -> Fold(k, lay, i + 1, cnt + 1, Append(acc, [role |-> "root", names |-> <<Name(cnt + 1)>>, opt |-> FALSE]))
        [] x.t = "m" -> Fold(k, lay, i + 1, cnt, acc)
        [] x.t = "a" -> Fold(k, lay, i + 1, cnt + 1, Append(acc, [role |-> "add", names |-> <<Name(cnt + 1)>>, opt |-> FALSE]))
        [] x.t = "g" ->
             IF k = "CHOICE"
             THEN Fold(k, lay, i + 1, cnt + x.n,
                       acc \o [j \in 1..x.n |-> [role |-> "add", names |-> <<Name(cnt + j)>>, opt |-> FALSE]])
             ELSE Fold(k, lay, i + 1, cnt + x.n,
                       Append(acc, [role |-> "group", names |-> [j \in 1..x.n |-> Name(cnt + j)], opt |-> TRUE]))

Expected(k, lay) == Fold(k, lay, 1, 0, <<>>)
HasMarker(lay) == \E i \in 1..Len(lay) : lay[i].t = "m"
RootCount(lay) == Len(SelectSeq(lay, LAMBDA x : x.t = "r"))

\* the action-level fold and the constant-level fold agree
FoldAgrees == Done => members = Expected(kind, layout)
=============================================================================
