------------------------------ MODULE Pipeline ------------------------------
(***************************************************************************)
(* The compilation pipeline as a state machine (properties C10, C11, C12). *)
(*                                                                         *)
(*   sources --lex--> parsed definitions --insert--> table                 *)
(*           --validate--> valid definitions + warnings                    *)
(*           --group by module--> per module: enter (set the backend's     *)
(*             tagging / extensibility environment), generate each         *)
(*             definition --> items + warnings --> done                    *)
(*                                                                         *)
(* One action per step of rasn-compiler/src/lib.rs internal_compile and of *)
(* the backend's generate_module; the verification hooks of the code emit  *)
(* one event per action, so a recorded execution can be replayed against   *)
(* this machine (Trace_Pipeline).                                          *)
(*                                                                         *)
(* A definition is [m, n, kind, fault]:                                    *)
(*    kind   "type" | "value" | "silent"  (silent: a category documented   *)
(*           as producing no output: class, object, parameterized template)*)
(*    fault  "none" | "validate" (the validator rejects it: a warning) |   *)
(*           "generate" (the backend rejects it: a warning)                *)
(* Headers give each module its tagging and extensibility default.         *)
(*                                                                         *)
(* Deviations (what the code is known to do instead), switched on by       *)
(* membership in the constant Deviations:                                  *)
(*    "bare_name_map"   the table is keyed by the bare definition name:    *)
(*                      equally named definitions of different modules     *)
(*                      overwrite each other                               *)
(*    "env_leak"        (negative model only) the backend keeps the        *)
(*                      environment of the previous module when the next   *)
(*                      module's header has the default environment        *)
(***************************************************************************)
EXTENDS Integers, Sequences, FiniteSets

CONSTANTS Mods,          \* module names
          Names,         \* definition names
          Envs,          \* possible <<tagging, extensibility>> pairs
          DefaultEnv,    \* the environment a module without clauses has
          MaxDefs,       \* definitions per module set
          Deviations

Kinds == {"type", "value", "silent"}
Faults == {"none", "validate", "generate"}
DefsOf(ms) == [m : ms, n : Names, kind : Kinds, fault : Faults]

VARIABLES pc,        \* "build" (the input is being chosen) | "run" | "done"
          headers,   \* module -> env          (the input)
          order,     \* sequence of modules: the order the sources are handed over
          input,     \* module -> sequence of definitions (the input)
          parsed,    \* sequence of definitions, in the order they were lexed
          lexed,     \* number of modules lexed
          ins,       \* number of parsed definitions inserted into the table
          table,     \* set of definitions currently in the table
          lost,      \* definitions overwritten in the table
          checked,   \* definitions the validator has looked at
          warned,    \* definitions that are the subject of a warning
          cur,       \* module being generated ("" none)
          env,       \* the backend's current environment
          entered,   \* modules already generated
          out,       \* definition -> environment it was generated under (as a set of pairs)
          silent     \* definitions generated as nothing
vars == <<pc, headers, order, input, parsed, lexed, ins, table, lost, checked, warned, cur, env, entered, out, silent>>

SeqSet(s) == {s[i] : i \in 1..Len(s)}
AllInput == UNION {SeqSet(input[m]) : m \in DOMAIN input}

\* inputs: every module has distinct definition names; names may repeat across modules
InputOK(hs, ord, inp) ==
    /\ DOMAIN hs = SeqSet(ord) /\ DOMAIN inp = SeqSet(ord)
    /\ \A i, j \in 1..Len(ord) : i # j => ord[i] # ord[j]
    /\ \A m \in DOMAIN inp : \A i, j \in 1..Len(inp[m]) : i # j => inp[m][i].n # inp[m][j].n
    /\ \A m \in DOMAIN inp : \A i \in 1..Len(inp[m]) : inp[m][i].m = m

Key(d) == IF "bare_name_map" \in Deviations THEN d.n ELSE <<d.m, d.n>>

\* the input is built step by step (pc = "build"), so that TLC explores every small module set
\* without enumerating them all in the initial predicate
Init == /\ pc = "build" /\ order = <<>> /\ headers = <<>> /\ input = <<>>
        /\ parsed = <<>> /\ lexed = 0 /\ ins = 0 /\ table = {} /\ lost = {} /\ checked = {} /\ warned = {}
        /\ cur = "" /\ env = DefaultEnv /\ entered = {} /\ out = {} /\ silent = {}

BuildModule(m, e) ==
    /\ pc = "build" /\ m \notin SeqSet(order)
    /\ order' = Append(order, m)
    /\ headers' = [x \in SeqSet(order) \cup {m} |-> IF x = m THEN e ELSE headers[x]]
    /\ input' = [x \in SeqSet(order) \cup {m} |-> IF x = m THEN <<>> ELSE input[x]]
    /\ UNCHANGED <<pc, parsed, lexed, ins, table, lost, checked, warned, cur, env, entered, out, silent>>
BuildDef(d) ==
    /\ pc = "build" /\ d.m \in SeqSet(order) /\ Cardinality(AllInput) < MaxDefs
    /\ \A i \in 1..Len(input[d.m]) : input[d.m][i].n # d.n
    /\ input' = [input EXCEPT ![d.m] = Append(@, d)]
    /\ UNCHANGED <<pc, headers, order, parsed, lexed, ins, table, lost, checked, warned, cur, env, entered, out, silent>>
StartLex ==
    /\ pc = "build" /\ order # <<>> /\ InputOK(headers, order, input)
    /\ pc' = "run"
    /\ UNCHANGED <<headers, order, input, parsed, lexed, ins, table, lost, checked, warned, cur, env, entered, out, silent>>

\* The steps of a compilation.  There are no silent phase changes: which step is enabled follows
\* from the counters, exactly as the code's loops follow one another.
AllLexed == lexed = Len(order)
AllInserted == AllLexed /\ ins = Len(parsed)
AllChecked == AllInserted /\ table \subseteq checked

\* asn_spec(src): one module, its definitions in source order
Lex == /\ pc = "run" /\ lexed < Len(order)
       /\ parsed' = parsed \o input[order[lexed + 1]]
       /\ lexed' = lexed + 1
       /\ UNCHANGED <<pc, headers, order, input, ins, table, lost, checked, warned, cur, env, entered, out, silent>>

\* Validator::new: the definitions are collected into a map; an equal key overwrites
Insert == /\ pc = "run" /\ AllLexed /\ ins < Len(parsed)
          /\ LET d == parsed[ins + 1]
                 old == {x \in table : Key(x) = Key(d)}
             IN /\ table' = (table \ old) \cup {d}
                /\ lost' = lost \cup old
          /\ ins' = ins + 1
          /\ UNCHANGED <<pc, headers, order, input, parsed, lexed, checked, warned, cur, env, entered, out, silent>>

\* Validator::validate: an invalid definition becomes a warning and leaves the table
Validate(d) == /\ pc = "run" /\ AllInserted /\ d \in table \ checked
               /\ checked' = checked \cup {d}
               /\ IF d.fault = "validate"
                  THEN warned' = warned \cup {d} /\ table' = table \ {d}
                  ELSE UNCHANGED <<warned, table>>
               /\ UNCHANGED <<pc, headers, order, input, parsed, lexed, ins, lost, cur, env, entered, out, silent>>

\* Backend::generate_module: the backend takes over the module's environment ...
Pending(m) == {d \in table : d.m = m /\ d \notin warned /\ d \notin {o[1] : o \in out} /\ d \notin silent}
ModulesLeft == {d.m : d \in table} \ (entered \cup {cur})
EnterModule(m) == /\ pc = "run" /\ AllChecked /\ m \in ModulesLeft
                  /\ cur # "" => Pending(cur) = {}
                  /\ cur' = m
                  /\ entered' = IF cur = "" THEN entered ELSE entered \cup {cur}
                  /\ env' = IF "env_leak" \in Deviations /\ headers[m] = DefaultEnv THEN env ELSE headers[m]
                  /\ UNCHANGED <<pc, headers, order, input, parsed, lexed, ins, table, lost, checked, warned, out, silent>>
\* ... and generates its definitions one by one
Gen(d) == /\ pc = "run" /\ cur # "" /\ d \in Pending(cur)
          /\ CASE d.fault = "generate" -> warned' = warned \cup {d} /\ UNCHANGED <<out, silent>>
               [] d.kind = "silent"   -> silent' = silent \cup {d} /\ UNCHANGED <<out, warned>>
               [] OTHER               -> out' = out \cup {<<d, env>>} /\ UNCHANGED <<warned, silent>>
          /\ UNCHANGED <<pc, headers, order, input, parsed, lexed, ins, table, lost, checked, cur, env, entered>>
Return == /\ pc = "run" /\ AllChecked /\ ModulesLeft = {}
          /\ cur # "" => Pending(cur) = {}
          /\ pc' = "done"
          /\ UNCHANGED <<headers, order, input, parsed, lexed, ins, table, lost, checked, warned, cur, env, entered, out, silent>>

Compile == Lex \/ Insert \/ (\E d \in table : Validate(d)) \/ (\E m \in Mods : EnterModule(m)) \/ (\E d \in table : Gen(d)) \/ Return
Next == \/ (\E m \in Mods, e \in Envs : BuildModule(m, e)) \/ (\E d \in DefsOf(Mods) : BuildDef(d)) \/ StartLex
        \/ Compile
Spec == Init /\ [][Next]_vars /\ WF_vars(Compile)

----------------------------------------------------------------------------
Generated == {o[1] : o \in out}

\* C10: every parsed definition is generated, or the subject of a warning, or of a category
\* documented as producing no output
Accounted(d) == d \in Generated \/ d \in warned \/ (d.kind = "silent" /\ d \in silent)
NoSilentLoss == pc = "done" => \A d \in SeqSet(parsed) : Accounted(d)
\* C10: a warning about one definition does not remove the others
WarningLocal == pc = "done" => \A d \in SeqSet(parsed) : (d.fault = "none" /\ d.kind # "silent") => d \in Generated
\* C12: every definition is generated under its own module's environment
EnvMatchesHeader == \A o \in out : o[2] = headers[o[1].m]
\* C11 / C12: what is generated for a definition does not depend on the order of the sources
\* (it is a function of the definition and its own header only)
OutIsFunctionOfInput == pc = "done" => out = {<<d, headers[d.m]>> : d \in {x \in SeqSet(parsed) : x.fault = "none" /\ x.kind # "silent"}}
\* termination (C08 at design level)
\* once the input is fixed, compilation terminates
Terminates == (pc = "run") ~> (pc = "done")
TypeOK == pc \in {"build", "run", "done"} /\ lexed <= Len(order) /\ ins <= Len(parsed)
=============================================================================
