------------------------------ MODULE Builder ------------------------------
(***************************************************************************)
(* The builder in front of compile() / compile_to_string() (property C20:  *)
(* "sources given as literals, single paths, path iterators x output       *)
(* modes").                                                                *)
(*                                                                         *)
(* Compiler<B, S> is a typestate machine with four states                  *)
(*   MissingParams   nothing set                                           *)
(*   SourcesSet      at least one add_* call, no output mode               *)
(*   OutputSet       output mode set, no add_* call yet                    *)
(*   Ready           both                                                  *)
(* and one impl block per state, i.e. every method exists up to four       *)
(* times.  A call is one of                                                *)
(*   add_asn_literal / add_asn_by_path      adds one source                *)
(*   add_asn_sources_by_path(iterator)      adds n >= 0 sources            *)
(*   with_backend(backend)                  exchanges the backend, keeps    *)
(*                                          typestate, sources and output   *)
(*   set_output_path / set_output_mode      only while no output is set    *)
(*   compile_to_string   (SourcesSet, Ready)   compile   (Ready)           *)
(* What the user relies on: every add_* call APPENDS to the sources given  *)
(* so far, whatever the state it is called in, and the output is the one   *)
(* that was set; compile() then works on exactly those sources.            *)
(***************************************************************************)
EXTENDS Integers, Sequences, FiniteSets

CONSTANTS NSrc,       \* the sources are numbered 1..NSrc and added in this order, each once
          MaxCalls    \* bound on the number of add_* / set_* calls

States == {"MissingParams", "SourcesSet", "OutputSet", "Ready"}
AddOps == {"add_asn_literal", "add_asn_by_path", "add_asn_sources_by_path"}
Outs == {"path_file", "mode_file", "mode_dir", "mode_none"}     \* set_output_path(file) | set_output_mode(SingleFile(file | dir) | NoOutput)
Finals == {"compile", "compile_to_string"}

\* a builder value: typestate, sources in the order given (form = how each was given), output
\* (switched: with_backend has exchanged the backend; sources and output stay as they are, and the backend that compiles is
\* the one that names generated.<ext> inside a directory destination)
Fresh == [state |-> "MissingParams", sources |-> <<>>, out |-> "unset", switched |-> FALSE]

AfterAdd(s) == IF s \in {"MissingParams", "SourcesSet"} THEN "SourcesSet" ELSE "Ready"
AfterOut(s) == IF s = "MissingParams" THEN "OutputSet" ELSE "Ready"

\* is the call available in this typestate (does the method exist on Compiler<B, S>)?
Legal(b, c) ==
    CASE c.op \in AddOps -> TRUE
      [] c.op = "with_backend" -> TRUE          \* exists in every typestate and keeps it
      [] c.op = "set_output" -> b.state \in {"MissingParams", "SourcesSet"}
      [] c.op = "compile_to_string" -> b.state \in {"SourcesSet", "Ready"}
      [] c.op = "compile" -> b.state = "Ready"

\* the sources the call hands over: the next c.n ones
NewSources(b, c) == [i \in 1..c.n |-> [id |-> Len(b.sources) + i, form |-> c.op]]

Apply(b, c) ==
    CASE c.op \in AddOps -> [b EXCEPT !.state = AfterAdd(b.state), !.sources = b.sources \o NewSources(b, c)]
      [] c.op = "set_output" -> [b EXCEPT !.state = AfterOut(b.state), !.out = c.out]
      [] c.op = "with_backend" -> [b EXCEPT !.switched = TRUE]
      [] OTHER -> b

RECURSIVE Run(_, _)
\* the builder after a sequence of calls; state "illegal" if one of them does not exist in its typestate
Illegal == [state |-> "illegal", sources |-> <<>>, out |-> "unset", switched |-> FALSE]
Run(b, calls) ==
    IF calls = <<>> THEN b
    ELSE IF ~Legal(b, Head(calls)) THEN Illegal
    ELSE Run(Apply(b, Head(calls)), Tail(calls))

--------------------------------------------------------------------------------
VARIABLES b, calls, final
vars == <<b, calls, final>>

Init == b = Fresh /\ calls = <<>> /\ final = "none"

Calls == {[op |-> o, n |-> 1, out |-> "na"] : o \in {"add_asn_literal", "add_asn_by_path"}}
         \cup {[op |-> "add_asn_sources_by_path", n |-> k, out |-> "na"] : k \in 0..NSrc}
         \cup {[op |-> "set_output", n |-> 0, out |-> o] : o \in Outs}
         \cup {[op |-> "with_backend", n |-> 0, out |-> "na"]}

Call(c) ==
    /\ final = "none" /\ Len(calls) < MaxCalls
    /\ Legal(b, c)
    /\ c.op = "with_backend" => ~b.switched        \* the model exchanges the backend at most once
    /\ Len(b.sources) + c.n <= NSrc
    /\ b' = Apply(b, c) /\ calls' = Append(calls, c) /\ UNCHANGED final

Finish(f) ==
    /\ final = "none"
    /\ Legal(b, [op |-> f])
    /\ Len(b.sources) = NSrc
    /\ final' = f /\ UNCHANGED <<b, calls>>

Next == (\E c \in Calls : Call(c)) \/ (\E f \in Finals : Finish(f))
Spec == Init /\ [][Next]_vars

--------------------------------------------------------------------------------
Done == final # "none"
Ids(srcs) == [i \in 1..Len(srcs) |-> srcs[i].id]

TypeOK == b.state \in States /\ b.out \in Outs \cup {"unset"} /\ final \in Finals \cup {"none"}
\* no add_* call loses, duplicates or reorders what was given before it
SourcesAccumulate == Ids(b.sources) = [i \in 1..Len(b.sources) |-> i]
\* the typestate says what has been set
StateMeansWhatItSays ==
    /\ (b.state \in {"SourcesSet", "Ready"}) <=> (\E i \in 1..Len(calls) : calls[i].op \in AddOps)
    /\ (b.state \in {"OutputSet", "Ready"}) <=> (b.out # "unset")
    /\ b.switched <=> (\E i \in 1..Len(calls) : calls[i].op = "with_backend")
\* compile() is only reachable with an output, and works on all the sources
CompileHasEverything == Done => Len(b.sources) = NSrc /\ (final = "compile" => b.out # "unset")
\* the step-by-step machine and the fold agree
FoldAgrees == Run(Fresh, calls) = b
=============================================================================
