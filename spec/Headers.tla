------------------------------ MODULE Headers ------------------------------
(***************************************************************************)
(* Module instances, their headers and the backend's environment           *)
(* (properties C11 and C12).                                               *)
(*                                                                         *)
(* Pipeline.tla identifies a module with its name.  The code does not: the *)
(* lexer returns, for every module it parses, a header object of its own   *)
(* (Rc<RefCell<ModuleHeader>>), and nothing forbids two parsed modules     *)
(* from carrying the same module reference -- two revisions of one module, *)
(* told apart by their definitive identifiers (X.680 13).  This module     *)
(* refines the front of the pipeline to *units* (parsed modules):          *)
(*                                                                         *)
(*   Lex(u)        in hand-over order: the unit gets a header; the tagging *)
(*                 default of that header is applied to the unit's         *)
(*                 definitions (lexenv)                                    *)
(*   Group         definitions are grouped by the *name* of their unit's   *)
(*                 header (a BTreeMap) and sorted by definition name       *)
(*   Enter(n)      the backend takes its tagging / extensibility           *)
(*                 environment for the group                               *)
(*   Gen(d)        a definition is generated under the backend's current   *)
(*                 environment (genenv)                                    *)
(*                                                                         *)
(* Design choices, as constants:                                           *)
(*   HeaderPer   "unit"  every parsed module has its own header (the code) *)
(*               "name"  the first unit seen with a name supplies the      *)
(*                       header for all units of that name                 *)
(*   EnvFrom     "head"  the backend takes the environment of the group's  *)
(*                       first definition for the whole group (the code)   *)
(*               "own"   ... of each definition's own header               *)
(*                                                                         *)
(* Each unit holds one definition, named after the unit; units are         *)
(* ordered by that name.                                                   *)
(***************************************************************************)
EXTENDS Integers, Sequences, FiniteSets

CONSTANTS Units,        \* parsed modules, a set of integers (the order of the integers is the order of the definition names)
          ModNames,     \* module references, a set of positive integers (their alphabetical rank)
          Envs,         \* <<tagging, extensibility>> environments
          HeaderPer, EnvFrom

VARIABLES nameOf,   \* unit -> module reference       (the input)
          hdr,      \* unit -> environment of its header (the input)
          order,    \* the order in which the units are handed over (the input, a permutation)
          pc, k,    \* program counter; number of units lexed
          shared,   \* HeaderPer = "name": module reference -> environment of the header all its units share
          lexenv,   \* definition (= unit) -> environment applied at lex time
          cur, benv,\* group being generated, the backend's environment
          genenv    \* definition -> environment it was generated under
vars == <<nameOf, hdr, order, pc, k, shared, lexenv, cur, benv, genenv>>

Perms == {p \in [1..Cardinality(Units) -> Units] : \A i, j \in DOMAIN p : i # j => p[i] # p[j]}
Min(S) == CHOOSE x \in S : \A y \in S : x <= y
Group(n) == {u \in Units : nameOf[u] = n}
None == <<"none", "none">>

Init == /\ nameOf \in [Units -> ModNames] /\ hdr \in [Units -> Envs] /\ order \in Perms
        /\ pc = "lex" /\ k = 0 /\ shared = [n \in ModNames |-> None]
        /\ lexenv = [u \in Units |-> None] /\ cur = 0 /\ benv = None /\ genenv = [u \in Units |-> None]

\* the header a unit works with
HeaderOf(u, sh) == IF HeaderPer = "unit" THEN hdr[u] ELSE sh[nameOf[u]]

Lex == /\ pc = "lex" /\ k < Cardinality(Units)
       /\ LET u == order[k + 1]
              sh == IF shared[nameOf[u]] = None THEN [shared EXCEPT ![nameOf[u]] = hdr[u]] ELSE shared
          IN /\ shared' = sh
             /\ lexenv' = [lexenv EXCEPT ![u] = HeaderOf(u, sh)]
       /\ k' = k + 1
       /\ UNCHANGED <<nameOf, hdr, order, pc, cur, benv, genenv>>
StartGen == /\ pc = "lex" /\ k = Cardinality(Units) /\ pc' = "gen"
            /\ UNCHANGED <<nameOf, hdr, order, k, shared, lexenv, cur, benv, genenv>>
\* groups are generated in the order of their names; inside a group, definitions in the order of theirs
Pending(n) == {u \in Group(n) : genenv[u] = None}
Enter(n) == /\ pc = "gen" /\ cur = 0 /\ Pending(n) # {}
            /\ \A m \in ModNames : (Pending(m) # {} /\ m # n) => ~(m < n)
            /\ cur' = n
            /\ benv' = HeaderOf(Min(Group(n)), shared)
            /\ UNCHANGED <<nameOf, hdr, order, pc, k, shared, lexenv, genenv>>
Gen == /\ pc = "gen" /\ cur # 0 /\ Pending(cur) # {}
       /\ LET d == Min(Pending(cur))
              e == IF EnvFrom = "head" THEN benv ELSE HeaderOf(d, shared)
          IN genenv' = [genenv EXCEPT ![d] = e]
       /\ UNCHANGED <<nameOf, hdr, order, pc, k, shared, lexenv, cur, benv>>
Leave == /\ pc = "gen" /\ cur # 0 /\ Pending(cur) = {}
         /\ cur' = 0 /\ UNCHANGED <<nameOf, hdr, order, pc, k, shared, lexenv, benv, genenv>>
Finish == /\ pc = "gen" /\ cur = 0 /\ \A n \in ModNames : Pending(n) = {}
          /\ pc' = "done" /\ UNCHANGED <<nameOf, hdr, order, k, shared, lexenv, cur, benv, genenv>>
Next == Lex \/ StartGen \/ (\E n \in ModNames : Enter(n)) \/ Gen \/ Leave \/ Finish
Spec == Init /\ [][Next]_vars /\ WF_vars(Next)

----------------------------------------------------------------------------
Done == pc = "done"
\* C12: the defaults of a header reach the definitions of its own module and no others
LexEnvIsOwn == Done => \A u \in Units : lexenv[u] = hdr[u]
GenEnvIsOwn == Done => \A u \in Units : genenv[u] = hdr[u]
\* ... which, for distinctly named modules, both designs of the code satisfy
Distinct == \A u, v \in Units : u # v => nameOf[u] # nameOf[v]
GenEnvIsOwnIfDistinct == (Done /\ Distinct) => \A u \in Units : genenv[u] = hdr[u]

\* C11: the result does not depend on the hand-over order.  The machine above as a function of the order:
RECURSIVE SharedAfter(_, _)
SharedAfter(o, i) == IF i = 0 THEN [n \in ModNames |-> None]
                     ELSE LET s == SharedAfter(o, i - 1) u == o[i] IN
                          IF s[nameOf[u]] = None THEN [s EXCEPT ![nameOf[u]] = hdr[u]] ELSE s
LexEnvOf(o) == [u \in Units |-> IF HeaderPer = "unit" THEN hdr[u] ELSE SharedAfter(o, Cardinality(Units))[nameOf[u]]]
GenEnvOf(o) == LET sh == SharedAfter(o, Cardinality(Units))
                   h(u) == IF HeaderPer = "unit" THEN hdr[u] ELSE sh[nameOf[u]]
               IN [u \in Units |-> IF EnvFrom = "head" THEN h(Min(Group(nameOf[u]))) ELSE h(u)]
\* the fold describes the machine ...
FoldAgrees == Done => lexenv = LexEnvOf(order) /\ genenv = GenEnvOf(order)
\* ... and gives the same result for every order
OrderIndependent == \A o1, o2 \in Perms : LexEnvOf(o1) = LexEnvOf(o2) /\ GenEnvOf(o1) = GenEnvOf(o2)
Terminates == <>Done
=============================================================================
