//! probe crate: see Cargo.toml
