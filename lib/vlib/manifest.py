"""Regenerates MANIFEST.json from the table below (python3 lib/vlib/manifest.py)."""
import json, os
ROOT = os.path.abspath(os.path.join(os.path.dirname(os.path.abspath(__file__)), "..", ".."))

TLC_NOTE = "Trusted: TLC, the TLA+ rule module (tied to the property by TLC-checked invariants), the harness printer and syn-based projection, rustc/rasn 0.27 where probes are compiled."

CHECKS = {
 "C14": dict(cat="model_checking", design="DESIGN.md section 5 C14",
   technique="TLA+ spec EnumNum.tla model-checked exhaustively with TLC; every TLC-generated enumeration replayed through the real compiler; recorded trace validated by TLC against the spec",
   text="TLC enumerates every legal enumeration of the bounded space the property names (thorough: <=5 root items, <=3 additions, numbers from {-1,0,1,2,5}; quick: <=3+2), checks the clause-20 invariants on the model, and validates the compiler's observed numbering (generated discriminants, IR indices, identifiers) for every one of them against the spec. Exhaustive within the bound, hence model checking rather than sampling."),
 "C06": dict(cat="model_checking", design="DESIGN.md section 5 C06",
   technique="TLA+ spec IntWidth.tla (symbolic boundary points) model-checked exhaustively with TLC; every TLC-generated bound pair replayed through the real compiler in six syntactic positions; recorded trace validated by TLC against the spec",
   text="TLC enumerates all (lower<=upper) pairs of the 53-point boundary set x extension marker x position x form x assigned value (about 2.3*10^4 cases, the whole space the property names), checks that the model's selection is allowed, and validates for every case that the Rust type chosen by the compiler can hold every permitted value, is fixed-width only for finite non-extensible ranges, and that emitted literals fit their declared type. Exhaustive, both tiers."),
 "C05": dict(cat="model_checking", design="DESIGN.md section 5 C05",
   technique="TLA+ spec Ext.tla (component-list fold as actions) model-checked exhaustively with TLC; every TLC-generated layout replayed through the real compiler; recorded trace validated by TLC against the spec",
   text="TLC enumerates every component-list layout within the bound (thorough: <=4 root components, marker at every position, <=6 components after the marker as loose additions and <=3 version groups in every interleaving, x SEQUENCE/SET/CHOICE/ENUMERATED x nested x EXTENSIBILITY IMPLIED: 95 160 layouts; quick: 3/4/2), checks the fold invariants (additions = members after the marker, groups partition their members, index = #root), and validates for every layout the compiler's observed members, roles, group contents, optionality, non_exhaustive marking and IR extension index against the spec."),
 "C03": dict(cat="model_checking", design="DESIGN.md section 5 C03",
   technique="TLA+ spec Tagging.tla (X.680 31.2.7 a-c as separate invariants) model-checked exhaustively with TLC; all 960 legal tag points + 96 automatic-tagging points replayed through the real compiler; recorded trace validated by TLC against the spec, known deviations as named TLA+ operators",
   text="TLC enumerates the complete product the property names (module default x keyword x class x position x tagged kind: 1200 points, 960 legal, plus 96 automatic-tagging points), checks the three clauses of 31.2.7 and their converse on the model, refutes each deviation model, and validates for every point the tag annotation the compiler emitted (presence, class, number, explicit/implicit marking, automatic_tags). Observation is at attribute level; the encodings rasn 0.27 produces for each marking on CHOICE / open types were measured with a probe and are built into the acceptance predicate."),
 "C04": dict(cat="model_checking", design="DESIGN.md section 5 C04",
   technique="TLA+ spec PerVisible.tla (denotational semantics Denote vs effective constraint Eff, Sound/Tight checked by TLC on the whole bounded algebra); every TLC-generated constraint series replayed through the real compiler on each constrainable type/position; recorded trace validated by TLC, known deviations as named TLA+ operators",
   text="TLC enumerates the bounded constraint algebra slice by slice (quick: all <=2-operand expressions over the 7-point endpoint alphabet x extension marker x 14 type/position targets, one serial constraint, open ends: 68 852 cases; thorough adds all 3-operand expressions and two serial constraints), proves Eff sound and tight against the set semantics on the model, and validates the annotations the compiler emitted along the delegate chain in three grades: never excludes a permitted value, extensible iff marker, equals Eff."),
 "C15": dict(cat="model_checking", design="DESIGN.md section 5 C15",
   technique="TLA+ spec Alphabet.tla (set semantics of FROM expressions over an atom abstraction of each string type's alphabet, set-algebra laws checked by TLC); every TLC-generated FROM expression replayed through the real compiler; recorded trace validated by TLC, known deviations as named TLA+ operators",
   text="TLC enumerates every FROM expression of the bounded algebra (strings, ranges, inclusion of a constrained type; | ^ EXCEPT; quick <=2 operands) x string type (known-multiplier and not) x six ways of combining with SIZE x assignment/component (53 928 cases quick), checks the set laws on the model and validates the from(...) annotation the compiler emitted, expanded back to atoms: exact for EXCEPT-free expressions, between Allowed and Allowed-with-EXCEPT-ignored otherwise, inside the base alphabet, absent for non-known-multiplier types."),
 "C16": dict(cat="model_checking", design="DESIGN.md section 5 C16",
   technique="TLA+ spec Idents.tla (names as character sequences, predicate Legal per role, keyword table from the Rust Reference); every TLC-generated name x role compiled by the real compiler; recorded trace validated by TLC against Legal",
   text="TLC enumerates every legal ASN.1 name up to 5 (thorough 6) characters over {a,b,A,B,1,-} in each of six roles and every strict/reserved Rust keyword in each spelling and role (15 564 cases quick), plus a seeded sample of 24-character names; for each, the identifier and identifier annotation found in the generated bindings are validated against Legal: legal non-keyword Rust identifier, case rule of the role, ASN.1 name recoverable, annotation present and equal to the ASN.1 spelling whenever the identifier differs."),
 "C02": dict(cat="model_checking", design="DESIGN.md section 5 C02",
   technique="TLA+ generator spec Notation.tla (node-table grammar, WF invariants) simulated by TLC + exhaustive reference-topology spec RecGraph.tla; generated module sets compiled by the real compiler; one trace event per constructed type validated by TLC against RustShape.tla (stateful trace spec: reference closure per module set)",
   text="Module sets are drawn by TLC's simulator from the grammar spec (seeded; quick about 800 sets / 1 900 constructed types) and, exhaustively, every reference topology of 2 (thorough: 3) constructed definitions comes from RecGraph.tla. For every SEQUENCE/SET/CHOICE/SEQUENCE OF/SET OF, also anonymous nested ones (the generated item is found by following field types, not names), TLC validates: one field/variant per component in source order, corresponding Rust type, Option iff OPTIONAL, default fn iff DEFAULT (exists, right type), set marking, boxes only on cycle edges, and no by-value containment cycle in the generated items. Sampling for the grammar part, exhaustive for the topology part."),
 "C10": dict(cat="model_checking", design="DESIGN.md section 5 C10",
   technique="TLA+ spec Pipeline.tla (one action per pipeline step; invariants NoSilentLoss, WarningLocal, EnvMatchesHeader; termination) model-checked with TLC, deviation models refuted; executions of the real compiler recorded through cfg(rasn_verif) hooks and validated event by event against the spec (Trace_Pipeline.tla)",
   text="TLC model-checks the pipeline design exhaustively for 2 modules x 2 names x <=2 definitions x kinds x faults (about 82 000 states, liveness included) and refutes the bare-name-map and env-leak deviation models. Every input of that bounded model is made concrete and compiled (6 204 inputs), and Notation module sets with 1..3 injected unsupported definitions are compiled with and without the faults; each compilation's hook events (lexed, insert, validate, group, enter_module, gen) plus its result are validated as a behaviour of Pipeline.tla, NoSilentLoss is evaluated on the replayed state, and bindings of definitions that do not depend on a faulted one are compared with the fault-free run."),
 "C12": dict(cat="model_checking", design="DESIGN.md section 5 C12",
   technique="TLA+ spec Pipeline.tla (EnvMatchesHeader, OutIsFunctionOfInput model-checked, env-leak deviation model refuted); multi-module executions of the real compiler recorded through cfg(rasn_verif) hooks and validated against the spec; per-module / per-definition comparison events judged by the same trace specification",
   text="At design level TLC checks over all orders of module entry that every definition is generated under its own module's environment. For the code, Notation module sets of 2..3 modules with differing defaults, imports and qualified references are compiled as a whole, in reverse order, and module by module with only the import closure; the hook trace of the whole compilation must be a behaviour of Pipeline.tla (each enter_module event must carry the module's own header environment), per-definition bindings must be equal across the compilations, use declarations must be exactly the imported symbols, and qualified references must resolve to super::<module>::<Type>."),
 "C11": dict(cat="model_checking", design="DESIGN.md section 5 C11",
   technique="TLA+ spec Pipeline.tla (OutIsFunctionOfInput model-checked over all hand-over orders and step interleavings); the same definition sets compiled by the real compiler under permutation, repetition, threads, concurrency and history; the recorded results validated by TLC with a stateful trace specification (Trace_C11.tla)",
   text="Design level: TLC checks on the bounded pipeline model that the output is a function of the input for every order of sources and every interleaving of generation steps. Code level: Notation module sets and real-world modules are each compiled many times -- repeated, sources/modules/assignments permuted (all permutations for <=4 units), on another thread, after another compilation, 2..8 times concurrently -- and TLC validates that all compilations of one definition set return the same status, byte-identical bindings and the same multiset of warnings."),
 "C09": dict(cat="model_checking", design="DESIGN.md section 5 C09",
   technique="TLA+ spec Linker.tla: the linker's single pass over a name-sorted stack modelled action by action and compared by TLC with the declarative meaning Expand for every COMPONENTS OF topology and EVERY order of the definition names; parameter product MC_C09.tla for the other notations; every case compiled as written and hand-expanded by the real compiler; traces validated by TLC (deviations = the model's predicted wrong answer on the model's deviation classes)",
   text="For COMPONENTS OF, TLC explores all topologies of 3 (thorough 4) SEQUENCE definitions under all name orders, proves that the (repaired) algorithm is name-independent and differs from Expand exactly on the position class, refutes the pre-repair algorithm, and every case is replayed: the compiler must produce Expand's component list, or exactly the model's prediction on a deviation class, with bindings equal to the hand-expanded module's. Parameterized types (1..3 type/value parameters, 1..3 instantiations), selection types, class field types, value references and named numbers in constraints are enumerated as a parameter product, each with the referenced name sorting before and after its user, and compared with their hand-expanded twin."),
 "C13": dict(cat="model_checking", design="DESIGN.md section 5 C13",
   technique="TLA+ spec Layout.tla: gap grammar as generator, X.680 12.6 comment scanner as automaton, TLC checks every generated gap is consumed exactly; plans (gap form x adjacent token classes) from the model; real compiler run on re-laid-out inputs; results validated by TLC (Trace_C13.tla)",
   text="TLC checks on all gaps of the gap grammar up to 9 symbols that the comment scanner consumes a gap completely and stops at the next token, and that each of the 16 substituted gap forms is such a gap; it emits one plan per applicable (form, left token class, right token class). For each plan up to three boundaries of that class pair in generated module sets are re-laid out one at a time; additionally every boundary at once per form and seeded random subsets, on generated module sets and on real-world modules (after a tokenizer self-check). Status and bindings (doc attributes removed) must equal the original's."),
 "C17": dict(cat="model_checking", design="DESIGN.md section 5 C17",
   technique="TLA+ spec ErrorPos.tla: the input wrapper's offset/line bookkeeping as Slice actions, inductive invariant line = 1 + #LF before offset checked by TLC over all documents and slicings; corruption plans from the model; real compiler run on corrupted documents (literal and file, LF and CRLF); reported positions validated by TLC (Trace_C17.tla)",
   text="TLC checks the bookkeeping invariant on every document up to 6 symbols over {other, LF, CR} under every slicing, and emits 1 344 corruption plans (assignment x token x delete/replace/insert x inserted material x LF/CRLF x literal/file). Each plan is applied to generated documents with and without comments; for every resulting syntax error TLC validates: offset within the input, line = 1 + line feeds before the offset, position not before the malformed assignment's first token and not after the inserted character that starts no token, Display / contextualize / ReportData name the same line, and the path is reported exactly for file sources."),
}

NOT_BUILT = "check not built yet (DESIGN.md section 13 build order)"


def main():
    props = [json.loads(l) for l in open(os.path.join(ROOT, "properties.jsonl"))]
    commits = [l.strip() for l in open(os.path.join(ROOT, "hooks_commits.txt"))] if os.path.exists(os.path.join(ROOT, "hooks_commits.txt")) else []
    m = {"version": 1,
         "setup_cmd": "bin/check setup",
         "hooks": {"guard": "rasn_verif",
                   "enable": "harness/.cargo/config.toml passes `--cfg rasn_verif` in rustflags when the harness (path dependency on /repo/rasn-compiler) is built",
                   "baseline_off_cmd": "cd /repo && cargo test --workspace --no-fail-fast --offline",
                   "source_commits": commits, "add_only": True},
         "engines": [{"name": "tlc-trace", "path": "bin/check", "serves_properties": sorted(CHECKS),
                      "kind_free_text": "TLA+ specification (spec/*.tla) model-checked with TLC; TLC-generated cases replayed into the real compiler by the Rust harness (harness/); recorded NDJSON traces validated by TLC against the trace specifications (spec/trace/)"}],
         "checks": [], "not_applicable": [],
         "notes": "See DESIGN.md. known_findings.json lists recorded and repaired defects."}
    for p in props:
        pid = p["id"]
        if pid in CHECKS:
            c = CHECKS[pid]
            m["checks"].append({"property_id": pid,
                                "quick_cmd": f"bin/check {pid} --tier quick",
                                "thorough_cmd": f"bin/check {pid} --tier thorough",
                                "evidence_file": f"evidence/{pid}.json",
                                "replay_cmd_template": f"bin/check {pid} --replay {{path}}",
                                "engine": "tlc-trace",
                                "level_claimed": {"category": c["cat"], "text": c["text"], "design_ref": c["design"]},
                                "level_note": c.get("note", TLC_NOTE),
                                "technique": c["technique"]})
        else:
            m["not_applicable"].append({"property_id": pid, "reason": NOT_BUILT})
    json.dump(m, open(os.path.join(ROOT, "MANIFEST.json"), "w"), indent=1)


if __name__ == "__main__":
    main()
