"""Shared machinery: TLC runner, harness runner, verdicts, evidence, known findings."""
import json, os, re, shutil, subprocess, sys, time, hashlib
from concurrent.futures import ThreadPoolExecutor

ROOT = os.path.abspath(os.path.join(os.path.dirname(os.path.abspath(__file__)), "..", ".."))
WORK = os.path.join(ROOT, "work")
SPEC = os.path.join(ROOT, "spec")
HARNESS = os.path.join(ROOT, "harness")
VH = os.path.join(WORK, "target", "debug", "vharness")
REPO = os.environ.get("VERIF_REPO", "/repo")


class ToolError(Exception):
    pass


def log(*a):
    print(*a, file=sys.stderr, flush=True)


def seed():
    try:
        return int(os.environ.get("VERIF_SEED", "1"))
    except ValueError:
        return 1


def clean_env():
    """environment for everything that runs the compiler: rustfmt must not be reachable through
    CARGO_HOME/CARGO so that the generated text is not an environmental variable"""
    env = dict(os.environ)
    env["CARGO_NET_OFFLINE"] = "true"
    return env


def harness_env():
    env = dict(os.environ)
    for k in ("CARGO_HOME", "CARGO", "RUSTFMT"):
        env.pop(k, None)
    return env


# ----------------------------------------------------------------------------- cargo

def cargo_build():
    """(re)build the harness against /repo's current working tree (hooks on via .cargo/config.toml)"""
    lock = os.path.join(HARNESS, "Cargo.lock")
    if not os.path.exists(lock):
        shutil.copy(os.path.join(REPO, "Cargo.lock"), lock)
    t = time.time()
    p = subprocess.run(["cargo", "build", "--offline"], cwd=HARNESS, env=clean_env(),
                       stdout=subprocess.PIPE, stderr=subprocess.STDOUT, text=True)
    if p.returncode != 0:
        log(p.stdout[-4000:])
        raise ToolError("cargo build of the harness failed")
    log(f"[cargo] harness built in {time.time()-t:.1f}s")


CLI_TARGET = os.path.join(ROOT, "work", "target-cli")


def cargo_build_cli():
    """build rasn_compiler_cli from /repo's current working tree (own target directory under work/)"""
    t = time.time()
    env = clean_env()
    env["CARGO_TARGET_DIR"] = CLI_TARGET
    p = subprocess.run(["cargo", "build", "--offline", "-p", "rasn-compiler", "--features", "cli", "--bin", "rasn_compiler_cli"], cwd=REPO, env=env,
                       stdout=subprocess.PIPE, stderr=subprocess.STDOUT, text=True)
    if p.returncode != 0:
        log(p.stdout[-4000:])
        raise ToolError("cargo build of rasn_compiler_cli failed")
    log(f"[cargo] rasn_compiler_cli built in {time.time()-t:.1f}s")
    return os.path.join(CLI_TARGET, "debug", "rasn_compiler_cli")


PROBE = os.path.join(ROOT, "probe")


def cargo_build_probe():
    """build the probe crate's dependencies (rasn, rasn-compiler-derive from /repo) offline"""
    lock = os.path.join(PROBE, "Cargo.lock")
    if not os.path.exists(lock):
        shutil.copy(os.path.join(REPO, "Cargo.lock"), lock)
    t = time.time()
    p = subprocess.run(["cargo", "build", "--offline", "--lib"], cwd=PROBE, env=clean_env(), stdout=subprocess.PIPE, stderr=subprocess.STDOUT, text=True)
    if p.returncode != 0:
        log(p.stdout[-4000:])
        raise ToolError("cargo build of the probe crate failed")
    log(f"[cargo] probe crate built in {time.time()-t:.1f}s")


def vharness(args, timeout=3600, threads=None, stdin=None):
    env = harness_env()
    if threads:
        env["VERIF_THREADS"] = str(threads)
    env["VERIF_SEED"] = str(seed())
    t = time.time()
    try:
        p = subprocess.run([VH] + args, env=env, stdout=subprocess.PIPE, stderr=subprocess.PIPE,
                           text=True, timeout=timeout, input=stdin)
    except subprocess.TimeoutExpired:
        raise ToolError(f"vharness {args[0]} timed out after {timeout}s")
    if p.returncode != 0:
        log(p.stdout[-2000:], p.stderr[-4000:])
        raise ToolError(f"vharness {args[0]} exited {p.returncode}")
    log(f"[vharness] {args[0]} {time.time()-t:.1f}s: {p.stderr.strip().splitlines()[-1] if p.stderr.strip() else ''}")
    return p.stdout


# ----------------------------------------------------------------------------- TLC

class TlcResult:
    def __init__(self, out, rc):
        self.out = out
        self.rc = rc
        m = re.search(r"(\d+) states generated, (\d+) distinct states found", out)
        self.generated = int(m.group(1)) if m else 0
        self.distinct = int(m.group(2)) if m else 0
        if not m:
            m = re.search(r"The number of states generated: (\d+)", out)    # simulation mode
            if m:
                self.generated = self.distinct = int(m.group(1))
        self.cases = None
        self.violated = re.findall(r"Invariant (\S+) is violated", out) + \
            (["<temporal>"] if "Temporal properties were violated" in out else [])
        # per-action coverage:  <Name line a, col b to line c, col d of module M>: x:y
        self.actions = {}
        for m in re.finditer(r"^<(\w+) line \d+, col \d+ to line \d+, col \d+ of module (\w+)>: (\d+):(\d+)", out, re.M):
            self.actions[m.group(2) + "!" + m.group(1)] = int(m.group(4))

    def printed(self, tag):
        """JSON payloads of PrintT(<<tag, ToJson(x)>>) lines"""
        res = []
        pre = '<<"%s", "' % tag
        for line in self.out.splitlines():
            if line.startswith(pre) and line.endswith('">>'):
                s = line[len(pre):-3]
                s = s.replace('\\"', '"').replace("\\\\", "\\")
                res.append(json.loads(s))
        return res

    def tuples(self, tag):
        """PrintT(<<tag, a, b, ...>>) lines as python lists (ints and strings only)"""
        res = []
        pre = '<<"%s", ' % tag
        for line in self.out.splitlines():
            if line.startswith(pre) and line.endswith(">>"):
                body = "[" + line[2:-2] + "]"
                try:
                    res.append(json.loads(body)[1:])
                except Exception:
                    res.append([line])
        return res


def tlc(tla, cfg=None, workers=8, timeout=900, env=None, simulate=None, depth=None, coverage=False,
        deque=False, xmx="8g", tlcseed=None, expect_violation=False, tag="mc", extra=None):
    """run TLC on spec/<tla>. Returns TlcResult. Raises ToolError on tool failure or (unless
    expect_violation) when TLC reports a property violation of the *model*."""
    tla_path = os.path.join(SPEC, tla)
    cfg_path = os.path.join(SPEC, cfg) if cfg else tla_path[:-4] + ".cfg"
    meta = os.path.join(WORK, "tlc", f"{tag}-{os.getpid()}-{abs(hash((tla, cfg, time.time()))) % 10**8}")
    os.makedirs(meta, exist_ok=True)
    jopts = f"-Xss1g -Xmx{xmx} -DTLA-Library={SPEC}"
    if deque:
        jopts += " -Dtlc2.tool.queue.IStateQueue=StateDeque"
    e = dict(os.environ)
    e["JAVA_TOOL_OPTIONS"] = jopts
    if env:
        e.update(env)
    cmd = ["timeout", str(timeout), "tlc", "-workers", str(workers), "-metadir", meta, "-cleanup",
           "-noGenerateSpecTE", "-config", cfg_path]
    if coverage:
        cmd += ["-coverage", "1"]
    if simulate:
        cmd += ["-simulate", simulate]
    if depth:
        cmd += ["-depth", str(depth)]
    if tlcseed is not None:
        cmd += ["-seed", str(tlcseed)]
    if extra:
        cmd += extra
    cmd.append(tla_path)
    t = time.time()
    p = subprocess.run(cmd, cwd=os.path.dirname(tla_path), env=e, stdout=subprocess.PIPE,
                       stderr=subprocess.STDOUT, text=True)
    shutil.rmtree(meta, ignore_errors=True)
    res = TlcResult(p.stdout, p.returncode)
    res.wall = time.time() - t
    if p.returncode == 124:
        raise ToolError(f"TLC timed out after {timeout}s on {tla}")
    if expect_violation:
        if not res.violated:
            raise ToolError(f"TLC was expected to refute {tla}/{cfg} but did not (rc={p.returncode})\n" + tail(p.stdout))
        return res
    if p.returncode != 0:
        raise ToolError(f"TLC failed on {tla} (rc={p.returncode}):\n" + tail(p.stdout))
    return res


def tail(s, n=40):
    lines = [l for l in s.splitlines() if not l.startswith('<<"CASE"')]
    return "\n".join(lines[-n:])


def check_coverage(res, ignore=()):
    zero = [a for a, n in res.actions.items() if n == 0 and a.split("!")[1] not in ignore]
    if zero:
        raise ToolError("vacuity guard: actions never taken in the model: " + ", ".join(zero))


def validate_trace(trace_tla, trace_cfg, trace_path, shards=1, timeout=1800, group_start=None):
    """TLC trace validation. Returns (consumed_events, verdict tuples [(line, kind, what)])."""
    with open(trace_path) as f:
        lines = f.readlines()
    n = len(lines)
    if n == 0:
        return 0, []
    shards = max(1, min(shards, (n + 199) // 200))
    per = (n + shards - 1) // shards
    # cut points; with group_start (a predicate on a line) a shard only starts where a group starts
    cuts = [0]
    for i in range(1, shards):
        c = i * per
        if group_start:
            while c < n and not group_start(lines[c]):
                c += 1
        if cuts[-1] < c < n:
            cuts.append(c)
    cuts.append(n)
    parts = []
    for i in range(len(cuts) - 1):
        chunk = lines[cuts[i]:cuts[i + 1]]
        if not chunk:
            continue
        pth = f"{trace_path}.shard{i}"
        with open(pth, "w") as f:
            f.writelines(chunk)
        parts.append((cuts[i], pth, len(chunk)))

    def one(part):
        off, pth, cnt = part
        r = tlc(trace_tla, trace_cfg, workers=1, timeout=timeout, env={"TRACE": pth}, deque=True,
                xmx="3g", tag="trace")
        cons = r.tuples("CONSUMED")
        if not cons or cons[0][0] != cnt:
            raise ToolError(f"trace validation did not consume the whole trace {pth}:\n" + tail(r.out))
        vs = [(off + v["l"], v["kind"], v["what"]) for v in r.printed("VERDICT")]
        os.remove(pth)
        return cnt, vs, r

    total, verdicts, gen = 0, [], 0
    with ThreadPoolExecutor(max_workers=min(len(parts), 16)) as ex:
        for cnt, vs, r in ex.map(one, parts):
            total += cnt
            verdicts += vs
            gen += r.generated
    return total, sorted(verdicts)


# ----------------------------------------------------------------------------- verdicts

def load_known():
    p = os.path.join(ROOT, "known_findings.json")
    if not os.path.exists(p):
        return []
    return json.load(open(p))["findings"]


class Run:
    """one check run of one property"""

    def __init__(self, pid, tier):
        self.pid = pid
        self.tier = tier
        self.t0 = time.time()
        self.dir = os.path.join(WORK, "run", pid)
        shutil.rmtree(self.dir, ignore_errors=True)
        os.makedirs(self.dir, exist_ok=True)
        os.makedirs(os.path.join(WORK, "replay"), exist_ok=True)
        self.cov = {"states": 0, "transitions": 0, "traces_validated_against_impl": 0, "evaluations": 0,
                    "distinct_nontrivial": 0, "samples": [], "exhaustive": False, "rule": "",
                    "skipped_no_bindings": 0, "deviations_seen": {}, "tlc_runs": []}
        self.assumptions = []
        self.violations = []   # (what, replay_payload)
        self.deviations = {}   # id -> [payload]
        self.skip_key = None      # event fields that identify the case (checks with a TLC-enumerated case space)
        self.skipped = {}
        self.skip_filter = None   # restricts the baseline to the exhaustively enumerated part of the cases
        self.known = {k["deviation"]: k for k in load_known() if k["property"] == pid and k["status"] == "known"}
        self.case_of = None    # optional: event -> the generated case it belongs to (stored in replay files)

    def path(self, name):
        return os.path.join(self.dir, name)

    def add_tlc(self, res, what):
        self.cov["states"] += res.distinct
        self.cov["transitions"] += res.generated
        self.cov["tlc_runs"].append({"what": what, "distinct_states": res.distinct, "states_generated": res.generated,
                                     "wall_s": round(getattr(res, "wall", 0), 1)})

    def judge(self, events, verdicts, consumed, describe=lambda e: e):
        """fold TLC's verdict lines over the events of a validated trace"""
        self.cov["traces_validated_against_impl"] += consumed
        for (line, kind, what) in verdicts:
            ev = events[line - 1] if 0 < line <= len(events) else {}
            if kind == "SKIP":
                self.cov["skipped_no_bindings"] += 1
                if self.skip_key and (self.skip_filter is None or self.skip_filter(ev)):
                    k = hashlib.sha1(json.dumps({f: ev.get(f) for f in self.skip_key if f in ev}, sort_keys=True).encode()).hexdigest()[:16]
                    self.skipped.setdefault(k, (what, ev))
            elif kind == "DEVIATION":
                self.deviations.setdefault(what, []).append(ev)
            elif kind == "MISMATCH":
                self.violations.append((what, ev))
            else:
                raise ToolError(f"unknown verdict kind {kind}")

    def finish(self, level="model_checking"):
        out_lines = []
        n_viol = 0
        # Cases that are skipped (Err, warning, nothing generated) are not judged.  For the checks whose case space is enumerated
        # by TLC, the skipped cases of the reference tree are committed (baselines/<ID>.skips, by hash of the case): a case that is
        # skipped now but was judged on the reference tree means the compiler newly rejects, or newly drops, a legal input.
        if self.skip_key:
            bpath = os.path.join(ROOT, "baselines", f"{self.pid}.skips")
            base = set(open(bpath).read().split()) if os.path.exists(bpath) else None
            if os.environ.get("VERIF_WRITE_BASELINE") == "1":
                os.makedirs(os.path.dirname(bpath), exist_ok=True)
                open(bpath, "w").write("\n".join(sorted((base or set()) | set(self.skipped))) + "\n")
                log(f"[baseline] {bpath}: {len((base or set()) | set(self.skipped))} skipped cases recorded")
            elif base is None:
                raise ToolError(f"no skip baseline {bpath}; create it with VERIF_WRITE_BASELINE=1")
            else:
                for k, (what, ev) in self.skipped.items():
                    if k not in base:
                        self.violations.append((f"a case that is judged on the reference tree is no longer judged ({what}): the compiler newly rejects or drops a legal input", ev))
            self.cov["skipped_cases_known_to_the_baseline"] = len(self.skipped) if base is None else len([k for k in self.skipped if k in base])
        for d, evs in sorted(self.deviations.items()):
            self.cov["deviations_seen"][d] = len(evs)
            if d in self.known:
                k = self.known[d]
                out_lines.append(f"KNOWN-FINDING: property={self.pid} {d}: {k['what_fails']} ({len(evs)} cases, e.g. {brief(evs[0])})")
            else:
                for ev in evs[:3]:
                    self.violations.append((f"deviation {d} is not a listed known finding for {self.pid}", ev))
                n_viol += max(0, len(evs) - 3)
        seen_what = {}
        for what, ev in self.violations:
            seen_what.setdefault(what, []).append(ev)
        write_ndjson(self.path("violations.ndjson"), [{"what": w, "event": e} for w, e in self.violations])
        write_ndjson(self.path("deviations.ndjson"), [{"deviation": d, "event": e} for d, es in self.deviations.items() for e in es])
        shown = 0
        for what, evs in seen_what.items():
            n_viol += len(evs)
            if shown >= 12:      # every violation is counted and stored in violations.ndjson; print the first dozen
                continue
            shown += min(3, len(evs))
            for ev in evs[:3]:
                payload = {"property": self.pid, "what": what, "event": ev}
                if self.case_of:
                    payload["case"] = self.case_of(ev)
                h = hashlib.sha1(json.dumps(payload, sort_keys=True).encode()).hexdigest()[:10]
                rp = os.path.join(WORK, "replay", f"{self.pid}-{h}.json")
                json.dump(payload, open(rp, "w"), indent=1)
                out_lines.append(f"VIOLATION property={self.pid} replay={rp}")
                out_lines.append(f"  {what}: {brief(ev)}")
            if len(evs) > 3:
                out_lines.append(f"  ... and {len(evs)-3} more events with: {what}")
        ev = {"property_id": self.pid, "tier": self.tier, "seed": seed(), "level": level,
              "coverage": self.cov, "assumptions": self.assumptions,
              "wall_s": round(time.time() - self.t0, 1), "violations": n_viol}
        os.makedirs(os.path.join(ROOT, "evidence"), exist_ok=True)
        json.dump(ev, open(os.path.join(ROOT, "evidence", f"{self.pid}.json"), "w"), indent=1)
        for l in out_lines:
            print(l)
        print(f"[{self.pid}] tier={self.tier} states={self.cov['states']} events_validated={self.cov['traces_validated_against_impl']} "
              f"nontrivial={self.cov['distinct_nontrivial']} skipped={self.cov['skipped_no_bindings']} violations={n_viol} "
              f"wall={ev['wall_s']}s", flush=True)
        return 1 if n_viol else 0


def brief(ev, n=300):
    if isinstance(ev, dict):
        for k in ("asn", "input", "src"):
            if k in ev:
                s = ev[k] if isinstance(ev[k], str) else json.dumps(ev[k])
                return s.replace("\n", " | ")[:n]
    s = json.dumps(ev)
    return s[:n]


def write_ndjson(path, rows):
    with open(path, "w") as f:
        for r in rows:
            f.write(json.dumps(r) + "\n")


def read_ndjson(path):
    with open(path) as f:
        return [json.loads(l) for l in f if l.strip()]


def distinct_count(rows, key=lambda r: json.dumps(r, sort_keys=True)):
    return len({key(r) for r in rows})


def replay_by_rerun(pid, check, payload, keys=("asn",)):
    """Replay for checks whose cases are drawn by the seeded, single-worker simulation of the quick tier: the quick check is run
    again (same VERIF_SEED, same inputs) and the event of the replay file is looked up among the violations of that run."""
    import contextlib, io
    want = payload.get("event") or {}
    buf = io.StringIO()
    with contextlib.redirect_stdout(buf):
        rc = check("quick")
    path = os.path.join(WORK, "run", pid, "violations.ndjson")
    found = []
    if os.path.exists(path):
        for v in read_ndjson(path):
            e = v.get("event") or {}
            if v.get("what") == payload.get("what") and all(e.get(k) == want.get(k) for k in keys):
                found.append(v)
    print(f"re-ran bin/check {pid} --tier quick (exit {rc}); the event of the replay file "
          + ("is reported again:" if found else "is not among its violations"))
    for v in found[:1]:
        print("  " + v["what"] + ": " + brief(v["event"]))
    return 1 if found else 0
