import argparse, importlib, json, os, subprocess, sys, glob
from . import core
from .core import ToolError, log

PROPS = ["C%02d" % i for i in range(1, 21)]


def setup():
    # 1. every specification module parses (SANY)
    files = sorted(glob.glob(os.path.join(core.SPEC, "*.tla")) + glob.glob(os.path.join(core.SPEC, "mc", "*.tla")) +
                   glob.glob(os.path.join(core.SPEC, "trace", "*.tla")))
    env = dict(os.environ)
    env["JAVA_TOOL_OPTIONS"] = f"-DTLA-Library={core.SPEC}"
    for f in files:
        p = subprocess.run(["tla-sany", f], cwd=os.path.dirname(f), env=env, stdout=subprocess.PIPE,
                           stderr=subprocess.STDOUT, text=True)
        if p.returncode != 0 or "Semantic errors" in p.stdout or "Fatal errors" in p.stdout or "*** Errors" in p.stdout:
            log(p.stdout[-3000:])
            raise ToolError(f"SANY rejects {f}")
    log(f"[setup] SANY accepted {len(files)} modules")
    # 2. harness builds offline against /repo's working tree
    core.cargo_build()
    # 3. the command-line tool and the probe crate (rasn + asn1!) build offline as well
    core.cargo_build_cli()
    core.cargo_build_probe()
    return 0


def main(argv):
    ap = argparse.ArgumentParser(prog="bin/check")
    ap.add_argument("what")
    ap.add_argument("--tier", default=os.environ.get("VERIF_TIER", "quick"), choices=["quick", "thorough"])
    ap.add_argument("--replay")
    ap.add_argument("--no-build", action="store_true")
    a = ap.parse_args(argv)
    try:
        if a.what == "setup":
            return setup()
        pid = a.what.upper()
        if pid not in PROPS:
            log(f"unknown property {pid}")
            return 2
        try:
            mod = importlib.import_module(f"vlib.props.{pid.lower()}")
        except ModuleNotFoundError:
            log(f"no check built for {pid}")
            return 2
        os.makedirs(core.WORK, exist_ok=True)
        if not a.no_build:
            core.cargo_build()
        if a.replay:
            return mod.replay(json.load(open(a.replay)))
        return mod.check(a.tier)
    except ToolError as e:
        log(f"TOOL-ERROR: {e}")
        return 2
