"""C18 -- TypeScript declarations have the JER shape (spec/TsShape.tla)."""
import json, os
from .. import core
from ..core import Run, ToolError
from . import c02

NC_TIMEOUT = 600
SIM = {"quick": dict(num=200, workers=4, maxnodes=30, minnodes=12), "thorough": dict(num=2000, workers=16, maxnodes=45, minnodes=16)}


def trace_cfg(run):
    cfg = run.path("Trace_C18.cfg")
    known = ", ".join('"%s"' % d for d in sorted(run.known))
    open(cfg, "w").write(f"SPECIFICATION Spec\nCONSTANT KnownDevs = {{{known}}}\nPOSTCONDITION Accepted\nCHECK_DEADLOCK FALSE\n")
    return cfg


def drive_and_validate(run, cases, shards):
    cases_p, trace_p = run.path("cases.ndjson"), run.path("trace.ndjson")
    core.write_ndjson(cases_p, cases)
    core.vharness(["c18", "--cases", cases_p, "--trace", trace_p], threads=12)
    events = core.read_ndjson(trace_p)
    consumed, verdicts = core.validate_trace("trace/Trace_C18.tla", trace_cfg(run), trace_p, shards=shards, timeout=3000,
                                             group_start=lambda line: '"ev":"tsbegin"' in line)
    run.judge(events, verdicts, consumed)
    return events


def check(tier):
    run = Run("C18", tier)
    cases = c02.generate(run, tier, **SIM[tier])
    # the exhaustive name families of MC_NestChains: every name shape as a definition with required / DEFAULT / nested optional
    # components, and every name shape -- also the ones spelled like a class reference -- defined in one module, imported and used in another
    nc_cfg = run.path("MC_NestChains_names.cfg")
    open(nc_cfg, "w").write("SPECIFICATION Spec\nCONSTANT MaxChain = 1\nINVARIANTS EmitNames EmitImported\nCHECK_DEADLOCK FALSE\n")
    nc = core.tlc("mc/MC_NestChains.tla", nc_cfg, workers=1, timeout=NC_TIMEOUT, xmx="4g")
    run.add_tlc(nc, "name shapes and imported name shapes x outer kind (MC_NestChains EmitNames, EmitImported)")
    seen = set()
    for c in nc.printed("CASE"):
        k = json.dumps(c, sort_keys=True)
        if k not in seen:
            seen.add(k)
            cases.append(c)
    if len(seen) < 50:
        raise ToolError(f"expected 60 name-family tables, got {len(seen)}")
    run.case_of = lambda ev: cases[ev["case"]] if "case" in ev and ev["case"] < len(cases) else None
    events = drive_and_validate(run, cases, shards=4 if tier == "quick" else 16)
    run.cov["evaluations"] = len(cases)
    run.cov["declarations_checked"] = len([e for e in events if e["ev"] == "tsdecl"])
    run.cov["constructed_types_checked"] = len([e for e in events if e["ev"] == "tsnode"])
    run.cov["namespaces_checked"] = len([e for e in events if e["ev"] == "tsns"])
    run.cov["distinct_nontrivial"] = len({e["asn"] for e in events if e["ev"] in ("tsdecl", "tsnode")})
    run.cov["exhaustive"] = False
    run.cov["rule"] = ("module sets from Notation.tla (TLC simulation, seeded; the C02 generator) compiled with the TypeScript backend; one "
                       "event per namespace, per type assignment and per constructed type (nested anonymous ones included); non-trivial "
                       "= distinct declaration / type text")
    nodes = [e for e in events if e["ev"] == "tsnode"]
    step = max(1, len(nodes) // 5)
    run.cov["samples"] = [{k: e.get(k) for k in ("asn", "obs_cls", "obs", "index")} for e in nodes[::step][:5]]
    run.assumptions = ["a small structural parser (harness/src/tsproj.rs) projects the TypeScript text; leaf types are only classified "
                       "(number / string / boolean / null / any / {value,length}), not pinned further",
                       "for EXTENSIBILITY IMPLIED modules without a marker an index signature is accepted either way"]
    return run.finish()


def replay(payload):
    run = Run("C18", "quick")
    case = payload.get("case")
    if case is None:
        print("replay file carries no case")
        return 2
    events = drive_and_validate(run, [case], shards=1)
    print(events[0]["asn"])
    for what, e in run.violations:
        print("MISMATCH:", what, "--", e.get("asn", "")[:200])
    return 1 if run.violations or run.deviations else 0
