"""C19 -- backend options change only what they document (spec/Options.tla)."""
import json, os
from .. import core
from ..core import Run, ToolError
from . import c02

TIERS = {"quick": dict(maxalts=4, per_set=8, sim=dict(num=60, workers=4, maxnodes=30, minnodes=12)),
         "thorough": dict(maxalts=5, per_set=384, sim=dict(num=30, workers=8, maxnodes=40, minnodes=14))}


def trace_cfg(run):
    cfg = run.path("Trace_C19.cfg")
    open(cfg, "w").write("SPECIFICATION Spec\nPOSTCONDITION Accepted\nCHECK_DEADLOCK FALSE\n")
    return cfg


def model(run, maxalts):
    cfg = run.path("MC_C19.cfg")
    open(cfg, "w").write(f"SPECIFICATION Spec\nCONSTANTS\n  NTypes = 3\n  MaxAlts = {maxalts}\n"
                         "INVARIANTS Coherent Derive Identity Orthogonal EmitCfg EmitPat\nCHECK_DEADLOCK FALSE\n")
    res = core.tlc("mc/MC_C19.tla", cfg, workers=8, coverage=True, timeout=1800, xmx="8g")
    core.check_coverage(res)
    run.add_tlc(res, f"Options.tla: every configuration x every CHOICE payload pattern up to {maxalts} alternatives over 3 types")
    cases = res.printed("CASE")
    cfgs = [c for c in cases if c["kind"] == "cfg"]
    pats = [c for c in cases if c["kind"] == "pat"]
    if len(cfgs) != 384 or not pats:
        raise ToolError(f"expected 384 configurations, got {len(cfgs)}; {len(pats)} patterns")
    return cfgs, pats


def drive_and_validate(run, cfgs, pats, sets, per_set, shards):
    paths = {k: run.path(k + ".ndjson") for k in ("cfgs", "patterns", "sets", "trace")}
    core.write_ndjson(paths["cfgs"], cfgs)
    core.write_ndjson(paths["patterns"], pats)
    core.write_ndjson(paths["sets"], sets)
    core.vharness(["c19", "--cfgs", paths["cfgs"], "--patterns", paths["patterns"], "--sets", paths["sets"], "--per-set", str(per_set),
                   "--trace", paths["trace"]], threads=12)
    events = core.read_ndjson(paths["trace"])
    consumed, verdicts = core.validate_trace("trace/Trace_C19.tla", trace_cfg(run), paths["trace"], shards=shards, timeout=3000)
    run.judge(events, verdicts, consumed)
    return events


def check(tier):
    run = Run("C19", tier)
    t = TIERS[tier]
    cfgs, pats = model(run, t["maxalts"])
    sets = c02.generate(run, tier, **t["sim"])
    run.case_of = lambda ev: {"cfg": ev.get("cfg"), "asn": ev.get("asn")}
    events = drive_and_validate(run, cfgs, pats, sets, t["per_set"], shards=4 if tier == "quick" else 16)
    mods = [e for e in events if e["ev"] == "cfgmod"]
    run.cov["evaluations"] = len([e for e in events if e["ev"] == "cfgrun"])
    run.cov["configurations"] = len(cfgs)
    run.cov["choice_patterns"] = len(pats)
    run.cov["generated_module_sets"] = len(sets)
    run.cov["module_diffs_checked"] = len(mods)
    run.cov["types_differenced"] = sum(e["n_types"] for e in mods)
    run.cov["choices_differenced"] = sum(c["n"] for e in mods for c in e["choices"])
    run.cov["values_differenced"] = sum(p["n"] for e in mods for p in e["form_pairs"])
    run.cov["import_lines_differenced"] = sum(len(e["super_base"]) for e in mods)
    run.cov["distinct_nontrivial"] = len({(json.dumps(e["cfg"], sort_keys=True), e["asn"]) for e in mods})
    run.cov["exhaustive"] = False
    run.cov["rule"] = ("TLC enumerates all 384 configurations (2^4 booleans x {0,1,3 fixed, one per imported symbol with a path ending in its name} custom imports x 5 type-annotation choices: the four the property names and one that lists Copy) and all CHOICE "
                       "payload patterns; the pattern module and an information-object module are compiled under every configuration, generated "
                       "module sets (Notation.tla) under per_set configurations each; every output is differenced against the default "
                       "configuration's; non-trivial = distinct (configuration, module text)")
    run.cov["samples"] = [{"cfg": e["cfg"], "module": e["module"], "derive_pairs": e["derive_pairs"][:1], "choices": e["choices"][:1]} for e in mods[:: max(1, len(mods) // 4)][:4]]
    run.assumptions = ["payload type of an alternative = the Rust type of its variant in the default configuration's output",
                       "derives are compared as sets and must not repeat; their order is not part of the property",
                       "opaque_open_types = false may add items (decode helpers, object-set enums) but change nothing else"]
    return run.finish()


def replay(payload):
    return core.replay_by_rerun("C19", check, payload, keys=("cfg", "module", "asn"))
