"""C04 -- PER-visible effective constraints (spec/PerVisible.tla)."""
import json, os
from .. import core
from ..core import Run, ToolError

# slices of the space: (name, MaxOperands, MaxSerial, AllowOpen, Ends, Targets)
SLICES = {
    "quick": [("two-operands", 2, 0, "FALSE", "MCEnds", "TargetsAll"),
              ("serial", 1, 1, "FALSE", "MCEnds", "TargetsAll"),
              ("open-ends", 2, 0, "TRUE", "MCEndsSmall", "TargetsTwo")],
    "thorough": [("two-operands", 2, 0, "FALSE", "MCEnds", "TargetsAll"),
                 ("three-operands", 3, 0, "FALSE", "MCEnds", "TargetsTwo"),
                 ("serial2", 1, 2, "FALSE", "MCEnds", "TargetsTwo"),
                 ("serial", 1, 1, "FALSE", "MCEnds", "TargetsAll"),
                 ("open-ends", 2, 1, "TRUE", "MCEnds", "TargetsTwo")],
}


def mc_cfg(run, sl):
    name, mo, ms, ao, ends, targets = sl
    cfg = run.path(f"MC_C04_{name}.cfg")
    open(cfg, "w").write(f"""SPECIFICATION Spec
CONSTANTS
  Ends <- {ends}
  MaxOperands = {mo}
  MaxSerial = {ms}
  AllowOpen = {ao}
  Targets <- {targets}
INVARIANTS TypeOK Sound Tight Emit
CHECK_DEADLOCK FALSE
""")
    return cfg


def trace_cfg(run):
    cfg = run.path("Trace_C04.cfg")
    known = ", ".join('"%s"' % d for d in sorted(run.known))
    open(cfg, "w").write("SPECIFICATION Spec\nCONSTANTS\n  Ends = {}\n  MaxOperands = 9\n  MaxSerial = 9\n  AllowOpen = TRUE\n"
                         f"  Targets = {{}}\n  KnownDevs = {{{known}}}\nPOSTCONDITION Accepted\nCHECK_DEADLOCK FALSE\n")
    return cfg


def drive_and_validate(run, cases, shards):
    cases_p, trace_p = run.path("cases.ndjson"), run.path("trace.ndjson")
    core.write_ndjson(cases_p, cases)
    core.vharness(["c04", "--cases", cases_p, "--trace", trace_p], threads=12)
    events = core.read_ndjson(trace_p)
    consumed, verdicts = core.validate_trace("trace/Trace_C04.tla", trace_cfg(run), trace_p, shards=shards, timeout=3000)
    run.judge(events, verdicts, consumed)
    return events


def check(tier):
    run = Run("C04", tier)
    run.skip_key = ['os', 'ps', 'ext', 'extout', 'pos', 'ser', 'ty']
    seen, cases = set(), []
    for sl in SLICES[tier]:
        res = core.tlc("mc/MC_C04.tla", mc_cfg(run, sl), workers=8 if tier == "quick" else 16, coverage=True, timeout=3000, xmx="16g")
        core.check_coverage(res, ignore=("AddSerial", "AddOperand") if sl[2] == 0 or sl[1] == 1 else ())
        run.add_tlc(res, f"PerVisible Sound/Tight, slice {sl[0]}: MaxOperands={sl[1]} MaxSerial={sl[2]} AllowOpen={sl[3]} {sl[4]} {sl[5]}")
        for c in res.printed("CASE"):
            key = json.dumps(c, sort_keys=True)
            if key not in seen:
                seen.add(key)
                cases.append(c)
    if not cases:
        raise ToolError("model produced no cases")
    events = drive_and_validate(run, cases, shards=8 if tier == "quick" else 16)
    run.cov["evaluations"] = len(cases)
    run.cov["distinct_nontrivial"] = len({e["asn"].split("::=", 1)[1] for e in events if e["status"] == "ok" and e["chain"]})
    run.cov["exhaustive"] = True
    run.cov["rule"] = ("TLC enumerates, slice by slice, every constraint series of the bounded algebra (operands: single values and "
                       "ranges over the 7-point endpoint alphabet {MIN,-3,0,2,5,9,MAX}, operators | ^ EXCEPT with ASN.1 precedence, "
                       "outer extension marker, serial constraints, open range ends) x constrained type x position "
                       "(assignment, component, via type reference, via value reference, via named number); slices: "
                       + "; ".join(f"{s[0]} (<= {s[1]} operands, <= {s[2]} serial, open ends {s[3]}, {s[5]})" for s in SLICES[tier])
                       + ". non-trivial = compiled Ok and some bound annotation was emitted; distinct by ASN.1 text")
    step = max(1, len(events) // 6)
    run.cov["samples"] = [{"asn": e["asn"], "status": e["status"], "observed_annotations": e["chain"]} for e in events[::step][:8]]
    run.assumptions = ["integers are modelled by the finite window -6..13 around the endpoint alphabet",
                       "a compilation that answers Err or a warning is counted as skipped",
                       "printer and syn-based projection of the harness are trusted"]
    return run.finish()


def replay(payload):
    run = Run("C04", "quick")
    ev = payload["event"]
    case = {k: ev[k] for k in ("os", "ps", "ext", "ser", "extout", "ty", "pos")}
    events = drive_and_validate(run, [case], shards=1)
    print("input:   ", events[0]["asn"])
    print("observed:", events[0]["status"], events[0]["chain"], events[0]["detail"])
    for what, e in run.violations:
        print("MISMATCH:", what)
    return 1 if run.violations or run.deviations else 0
