"""C12 -- modules compile independently; IMPORTS become use lines (spec/Pipeline.tla, hooks)."""
import json, os
from .. import core
from ..core import Run, ToolError
from . import c02, c10

SIM = {"quick": dict(num=200, workers=4, maxnodes=26, minnodes=10), "thorough": dict(num=2000, workers=16, maxnodes=40, minnodes=12)}


def headers_model(run):
    """spec/Headers.tla: parsed modules (units) with headers of their own, grouping by module name, the backend's environment.
    The code's design is order independent (C11) and applies every unit's own tagging default at lex time; what C12 demands of
    the generated environment in full is refuted for it (D_C12_same_name_env); the ideal design passes; one header per module
    name is refuted for C11."""
    res = core.tlc("mc/MC_Headers.tla", "mc/MC_Headers_code.cfg", workers=4, coverage=True, timeout=900, xmx="4g")
    core.check_coverage(res)
    run.add_tlc(res, "Headers.tla, the code's design (header per parsed module, environment of the group head): LexEnvIsOwn, GenEnvIsOwnIfDistinct, FoldAgrees, OrderIndependent, termination; 3 units x 2 names x 3 environments, every order")
    ideal = core.tlc("mc/MC_Headers.tla", "mc/MC_Headers_ideal.cfg", workers=4, timeout=900, xmx="4g")
    run.add_tlc(ideal, "Headers.tla, environment per definition: GenEnvIsOwn as well")
    for cfg in ("code_leak", "pername"):
        neg = core.tlc("mc/MC_Headers.tla", f"mc/MC_Headers_{cfg}.cfg", workers=2, timeout=900, xmx="4g", expect_violation=True)
        run.cov.setdefault("header_design_variants_refuted", {})[cfg] = neg.violated
    # spec/Scope.tla: the instantiation scope of a parameterized type; dummies are bound last and hide same-named declarations
    sc = core.tlc("Scope.tla", "mc/MC_Scope.cfg", workers=2, timeout=300)
    run.add_tlc(sc, "Scope.tla: dummy references are local (DummiesAreLocal, NeighboursDoNotMatter, GlobalsStillVisible) for every set of neighbour declarations")
    neg = core.tlc("Scope.tla", "mc/MC_Scope_globals_last.cfg", workers=2, timeout=300, expect_violation=True)
    run.cov.setdefault("negative_models_refuted", {})["scope_globals_bound_last"] = neg.violated


def check(tier):
    run = Run("C12", tier)
    c10.model_check(run, tier)
    headers_model(run)
    cases = [c for c in c02.generate(run, tier, **SIM[tier]) if len(c["mods"]) >= 2]
    run.case_of = lambda ev: cases[ev["case"]] if "case" in ev and ev["case"] < len(cases) else None
    events = c10.drive_and_validate(run, cases, shards=4 if tier == "quick" else 16, mode="c12", prefix="C12:")
    # A tag written in one module and copied into another (COMPONENTS OF an imported type, instance of an imported parameterized
    # type) keeps the environment of the module it is written in: the cross-module points of the C03 model, judged by Trace_C03
    from . import c03
    xres = core.tlc("mc/MC_C03.tla", "mc/MC_C03.cfg", workers=2, timeout=600)
    xcases = [c for c in xres.printed("CASE") if c["t"] == "xtag"]
    if len(xcases) != 108:
        raise ToolError(f"expected 108 cross-module points, got {len(xcases)}")
    xc_p, xt_p = run.path("xcases.ndjson"), run.path("xtrace.ndjson")
    core.write_ndjson(xc_p, xcases)
    core.vharness(["c03", "--cases", xc_p, "--trace", xt_p], threads=8)
    xevents = core.read_ndjson(xt_p)
    c03_known = {k["deviation"] for k in core.load_known() if k["property"] == "C03" and k["status"] == "known"}
    xcfg = run.path("Trace_C03.cfg")
    open(xcfg, "w").write("SPECIFICATION Spec\nCONSTANT KnownDevs = {%s}\nPOSTCONDITION Accepted\nCHECK_DEADLOCK FALSE\n" % ", ".join('"%s"' % d for d in sorted(c03_known)))
    xconsumed, xverdicts = core.validate_trace("trace/Trace_C03.tla", xcfg, xt_p, shards=1)
    run.cov["traces_validated_against_impl"] += xconsumed
    run.cov["cross_module_tag_points"] = len(xevents)
    for (line, kind, what) in xverdicts:
        ev = xevents[line - 1] if 0 < line <= len(xevents) else {}
        if kind == "MISMATCH":
            run.violations.append(("a tag copied into another module does not keep the tagging environment of the module it is written in: " + what, ev))
        elif kind == "DEVIATION" and what not in c03_known:
            run.violations.append((f"cross-module tag point explained only by deviation {what}", ev))
    ins = [e for e in events if e["ev"] == "input"]
    run.cov["evaluations"] = len(cases)
    run.cov["module_comparisons"] = len([e for e in events if e["ev"] == "modcmp"])
    run.cov["use_line_checks"] = len([e for e in events if e["ev"] == "uses"])
    run.cov["enter_module_events"] = len([e for e in events if e["ev"] == "enter_module"])
    run.cov["qualified_references"] = len([e for e in events if e["ev"] == "qualref"])
    run.cov["distinct_nontrivial"] = len({e["asn"] for e in ins if len(e["order"]) >= 2})
    run.cov["exhaustive"] = False
    run.cov["rule"] = ("module sets of 2..3 modules from Notation.tla (TLC simulation, seeded) with differing tagging / extensibility "
                       "defaults, imports and module-qualified references; each is compiled as a whole (hook trace validated against "
                       "Pipeline.tla: every enter_module event must carry the module's own header environment), with the modules in "
                       "reverse order, and every module with only its import closure; per-module bindings compared; non-trivial = "
                       "at least two modules; distinct by text. Fixed families rotate with the case number: value imports, two revisions of one module "
                       "(Headers.tla), an order-sensitive module next to 40 unrelated definitions, and a module instantiating parameterized types next to a "
                       "neighbour that declares names spelled like the dummies (Scope.tla)")
    run.cov["samples"] = [{"asn": e["asn"][:500]} for e in ins[:3]]
    run.assumptions = ["import cycles are not generated (references point to earlier definitions except on optional edges)",
                       "module sets the compiler rejects or warns about are traced but not compared"]
    return run.finish()


def replay(payload):
    run = Run("C12", "quick")
    case = payload.get("case")
    if case is None:
        print("replay file carries no case")
        return 2
    events = c10.drive_and_validate(run, [case], shards=1, mode="c12", prefix="C12:")
    print(events[0]["asn"])
    for e in events[1:]:
        if e["ev"] in ("enter_module", "modcmp", "uses", "qualref"):
            print("  ", {k: v for k, v in e.items() if k not in ("asn", "case", "seq", "hook")})
    for what, e in run.violations:
        print("MISMATCH:", what)
    return 1 if run.violations or run.deviations else 0
