"""C09 -- notations defined by expansion (spec/Linker.tla, spec/mc/MC_C09.tla)."""
import json, os
from .. import core
from ..core import Run, ToolError
from . import compof

LINK = {"quick": (3, 1), "thorough": (4, 1)}


def linker_cfg(run, n, maxown, neg=False):
    cfg = run.path("MC_Linker%s.cfg" % ("_neg" if neg else ""))
    inv = "AlwaysAgree" if neg else "TypeOK AgreeOutsideClasses NoInvention NameIndependent Emit"
    open(cfg, "w").write(f"SPECIFICATION Spec\nCONSTANTS\n  N = {n}\n  MaxOwn = {maxown}\n  Recursive = TRUE\nINVARIANTS {inv}\nCHECK_DEADLOCK FALSE\n")
    return cfg


def trace_cfg(run):
    cfg = run.path("Trace_C09.cfg")
    known = ", ".join('"%s"' % d for d in sorted(run.known))
    open(cfg, "w").write(f"SPECIFICATION Spec\nCONSTANT KnownDevs = {{{known}}}\nPOSTCONDITION Accepted\nCHECK_DEADLOCK FALSE\n")
    return cfg


def drive_and_validate(run, cases, shards):
    cases_p, trace_p = run.path("cases.ndjson"), run.path("trace.ndjson")
    core.write_ndjson(cases_p, cases)
    core.vharness(["c09", "--cases", cases_p, "--trace", trace_p], threads=12)
    events = core.read_ndjson(trace_p)
    consumed, verdicts = core.validate_trace("trace/Trace_C09.tla", trace_cfg(run), trace_p, shards=shards, timeout=3000)
    run.judge(events, verdicts, consumed)
    return events


def cases_for(run, tier):
    n, mo = LINK[tier]
    res = core.tlc("mc/MC_Linker.tla", linker_cfg(run, n, mo), workers=8 if tier == "quick" else 16, coverage=True, timeout=3000, xmx="12g")
    core.check_coverage(res)
    run.add_tlc(res, f"Linker: algorithm vs Expand for every COMPONENTS OF topology and name order, N={n}, MaxOwn={mo}")
    neg = core.tlc("mc/MC_Linker.tla", linker_cfg(run, 3, 1, neg=True), workers=4, expect_violation=True, timeout=600)
    run.cov["linker_differs_from_expand_somewhere"] = neg.violated
    # the algorithm before the repair (copies members as they are at that moment) depends on the names
    old = core.tlc("mc/MC_Linker.tla", "mc/MC_Linker_old.cfg", workers=4, expect_violation=True, timeout=600)
    run.cov["old_algorithm_name_dependence_refuted"] = old.violated
    cases = res.printed("CASE")
    pts = core.tlc("mc/MC_C09.tla", "mc/MC_C09.cfg", workers=1, timeout=300)
    run.add_tlc(pts, "parameter product of the other notations")
    return cases, pts.printed("CASE")


def check(tier):
    run = Run("C09", tier)
    run.skip_key = ['fam', 'early', 'kinds', 'ninst', 'nalts', 'sel', 'ascomp', 'where', 'n', 'rank', 'own', 'ref', 'def']
    linker_cases, points = cases_for(run, tier)
    cases = linker_cases + points
    run.case_of = lambda ev: cases[ev["case"]] if "case" in ev and ev["case"] < len(cases) else None
    events = drive_and_validate(run, cases, shards=4 if tier == "quick" else 16)
    # several clauses, clauses inside inner SEQUENCEs, one type reached along several paths (CompOf.tla)
    co_cases, co_events = compof.family(run, tier, "expansion")
    plain_case_of = run.case_of
    run.case_of = lambda ev: (co_cases[ev["case"]] if ev.get("case", -1) < len(co_cases) else None) if ev.get("ev") == "compof2" else plain_case_of(ev)
    run.cov["evaluations"] = len(cases) + len(co_cases)
    run.cov["components_of_cases"] = len(linker_cases)
    run.cov["other_notation_points"] = len(points)
    run.cov["distinct_nontrivial"] = len({e["asn"] for e in events if e.get("uses_compof") or e["ev"] == "sugar"})
    run.cov["exhaustive"] = True
    n, mo = LINK[tier]
    run.cov["rule"] = (f"(a) every COMPONENTS OF topology of {n} SEQUENCE definitions (each 0..{mo} own components, COMPONENTS OF at "
                       "any position, acyclic) under EVERY order of the definition names (Linker.tla); (b) the parameter product of "
                       "MC_C09.tla for parameterized types, selection types, class field types and value references, each with the "
                       "referenced name sorting before and after its user; every case compiled as written and hand-expanded; "
                       "non-trivial = the definition uses the notation; distinct by sugared text; (c) CompOf.tla: every topology of 3 definitions with up to two "
                       "COMPONENTS OF clauses each, a clause inside an anonymous inner SEQUENCE, a marker behind the clauses, under every order of the names")
    step = max(1, len(events) // 6)
    run.cov["samples"] = [{"asn": e["asn"], "expanded": e["expanded_asn"], "def": e["def"]} for e in events[::step][:6]]
    run.assumptions = ["value references and named numbers inside constraints are also covered, against literal semantics, by C04 "
                       "(positions valref, namednum, nnref)",
                       "the hand-expanded text is produced by the harness printer from the model's Expand / from the point's parameters"]
    return run.finish()


def replay(payload):
    run = Run("C09", "quick")
    case = payload.get("case")
    if payload.get("event", {}).get("ev") == "compof2" and case is not None:
        compof.replay_one(run, case, "expansion")
        for what, e in run.violations:
            print("MISMATCH:", what)
        return 1 if run.violations else 0
    if case is None:
        print("replay file carries no case")
        return 2
    events = drive_and_validate(run, [case], shards=1)
    for e in events:
        print(e["asn"]); print("expanded:"); print(e["expanded_asn"])
        print({k: v for k, v in e.items() if k in ("def", "sugared", "expanded", "expected", "predicted", "same", "sugared_status", "expanded_status")})
    for what, e in run.violations:
        print("MISMATCH:", what)
    return 1 if run.violations or run.deviations else 0
