"""The cases of CompOf.tla (several COMPONENTS OF clauses, clause inside an inner SEQUENCE, marker behind the clauses), shared by C09 and C05."""
from .. import core
from ..core import ToolError

MAXOWN = {"quick": 2, "thorough": 2}


def family(run, tier, aspect):
    cfg = run.path("MC_CompOf.cfg")
    ext_only_last = "TRUE" if tier == "quick" else "FALSE"
    open(cfg, "w").write(f'SPECIFICATION Spec\nCONSTANTS\n  MaxOwn = {MAXOWN[tier]}\n  Design = "depth"\n  ExtOnlyLast = {ext_only_last}\n'
                         "INVARIANTS TypeOK MembersAreMeaning RootsAreAll Emit\nPROPERTIES Stable\nCHECK_DEADLOCK FALSE\n")
    res = core.tlc("mc/MC_CompOf.tla", cfg, workers=8, coverage=True, timeout=1800, xmx="12g", tag="compof")
    core.check_coverage(res)
    run.add_tlc(res, "CompOf.tla: the linker pass (resolve on the fly, depth guard) computes Expand for every topology of 3 definitions with several "
                     "clauses / inner clauses and every order of the names")
    neg = core.tlc("mc/MC_CompOf.tla", "mc/MC_CompOf_visited.cfg", workers=4, expect_violation=True, timeout=600, tag="compof_visited")
    run.cov.setdefault("negative_models_refuted", {})["compof_visited_set_never_unwound"] = neg.violated
    cases = res.printed("CASE")
    if len(cases) < 5000:
        raise ToolError(f"expected every CompOf.tla case, got {len(cases)}")
    cases_p, trace_p = run.path("compof_cases.ndjson"), run.path("compof_trace.ndjson")
    core.write_ndjson(cases_p, cases)
    core.vharness(["c09", "--cases", cases_p, "--trace", trace_p], threads=12)
    events = core.read_ndjson(trace_p)
    tcfg = run.path("Trace_CompOf.cfg")
    open(tcfg, "w").write(f'SPECIFICATION Spec\nCONSTANT Aspect = "{aspect}"\nPOSTCONDITION Accepted\nCHECK_DEADLOCK FALSE\n')
    consumed, verdicts = core.validate_trace("trace/Trace_CompOf.tla", tcfg, trace_p, shards=8, timeout=1800)
    run.judge(events, verdicts, consumed)
    run.cov["compof_family"] = {"cases": len(cases), "definitions": len(events), "using_components_of": sum(1 for e in events if e["uses_compof"]),
                                "with_two_clauses": sum(1 for e in events if e["clauses"] == 2), "extensible": sum(1 for e in events if e["ext"]),
                                "aspect": aspect}
    return cases, events


def replay_one(run, case, aspect):
    cases_p, trace_p = run.path("compof_cases.ndjson"), run.path("compof_trace.ndjson")
    core.write_ndjson(cases_p, [case])
    core.vharness(["c09", "--cases", cases_p, "--trace", trace_p], threads=1)
    events = core.read_ndjson(trace_p)
    tcfg = run.path("Trace_CompOf.cfg")
    open(tcfg, "w").write(f'SPECIFICATION Spec\nCONSTANT Aspect = "{aspect}"\nPOSTCONDITION Accepted\nCHECK_DEADLOCK FALSE\n')
    consumed, verdicts = core.validate_trace("trace/Trace_CompOf.tla", tcfg, trace_p, shards=1, timeout=300)
    run.judge(events, verdicts, consumed)
    print(events[0]["asn"]); print("expanded:"); print(events[0]["expanded_asn"])
    for e in events:
        print({k: e[k] for k in ("def", "sugared", "expected", "same_items", "additions", "ext", "extensible_item", "sugared_status")})
    return events
