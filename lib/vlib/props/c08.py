"""C08 -- compilation and error rendering are total (spec/Totality.tla)."""
import json, os
from .. import core
from ..core import Run, ToolError
from . import c02

TIERS = {"quick": dict(npos=6, ndefs=2, scale=1, sim=dict(num=40, workers=4, maxnodes=30, minnodes=12)),
         "thorough": dict(npos=12, ndefs=2, scale=6, sim=dict(num=300, workers=16, maxnodes=45, minnodes=16))}
CORPUS = os.path.join(core.REPO, "rasn-compiler-tests", "tests", "modules")
SNIPPETS = os.path.join(core.ROOT, "harness", "corpus", "c08_snippets.ndjson")


def trace_cfg(run):
    cfg = run.path("Trace_C08.cfg")
    known = ", ".join('"%s"' % d for d in sorted(run.known))
    open(cfg, "w").write(f"SPECIFICATION Spec\nCONSTANT KnownDevs = {{{known}}}\nPOSTCONDITION Accepted\nCHECK_DEADLOCK FALSE\n")
    return cfg


def model(run, npos, ndefs):
    cfg = run.path("MC_C08.cfg")
    open(cfg, "w").write(f"SPECIFICATION TotalSpec\nCONSTANTS\n  NPos = {npos}\n  NDefs = {ndefs}\nINVARIANTS FinishedIsTotal EmitPlans EmitCycles\nPROPERTIES Finishes\nCHECK_DEADLOCK FALSE\n")
    res = core.tlc("mc/MC_C08.tla", cfg, workers=1, timeout=1800, xmx="8g")
    run.add_tlc(res, f"Totality.tla: worker under TotalSpec (FinishedIsTotal, Finishes); edit plans over {npos} positions, cycle topologies over {ndefs} definitions")
    # the unconstrained worker must be able to violate the property, or the invariant says nothing
    neg = core.tlc("mc/MC_C08.tla", "mc/MC_C08_any.cfg", workers=1, timeout=600, xmx="4g", expect_violation=True)
    if "FinishedIsTotal" not in neg.violated:
        raise ToolError("the unconstrained worker does not violate FinishedIsTotal: the invariant is vacuous")
    cases = res.printed("CASE")
    plans = [c for c in cases if c["kind"] == "plan"]
    cycles = [c for c in cases if c["kind"] == "cycle"]
    if len(plans) < 500 or len(cycles) < 2000:
        raise ToolError(f"model emitted {len(plans)} plans and {len(cycles)} cycle topologies")
    return plans, cycles


def fmt_model(run):
    """FmtPipe.tla: the code's design (writer thread, drain then wait) returns for all sizes, also with a streaming child; the two
    variants deadlock. Returns the output sizes (quarters of the pipe capacity) to run the real code with."""
    res = None
    for v in ("code", "code_streaming"):
        res = core.tlc("mc/MC_FmtPipe.tla", f"mc/MC_FmtPipe_{v}.cfg", workers=2, timeout=600, xmx="4g")
        run.add_tlc(res, f"FmtPipe.tla ({v}): TypeOK, Conservation, Complete, NoDeadlock, liveness Returns for all sizes <= 3 x capacity")
    for v in ("waitfirst", "nowriter"):
        neg = core.tlc("mc/MC_FmtPipe.tla", f"mc/MC_FmtPipe_{v}.cfg", workers=2, timeout=600, xmx="4g", expect_violation=True)
        if "NoDeadlock" not in neg.violated:
            raise ToolError(f"the design variant {v} does not deadlock in the model: NoDeadlock says nothing")
        run.cov.setdefault("fmt_design_variants_refuted", []).append(v)
    plans = [c for c in res.printed("CASE") if c.get("kind") == "fmtsize"]
    if len(plans) != 4:
        raise ToolError(f"FmtPipe emitted {len(plans)} size plans")
    return plans


def rustfmt_home():
    import shutil
    exe = shutil.which("rustfmt")
    for home in ([os.path.dirname(os.path.dirname(exe))] if exe else []) + [os.path.expanduser("~/.cargo")]:
        if os.path.exists(os.path.join(home, "bin", "rustfmt")):
            return home
    return ""


def known_by_key(run):
    """site / class -> deviation id, from the committed known findings"""
    m = {}
    for d, k in run.known.items():
        if "site" in k:
            m[("site", k["site"])] = d
        if "class" in k:
            m[("class", k["class"])] = d
    return m


def drive_and_validate(run, plans, cycles, sets, scale, shards, fmt_plans=()):
    paths = {k: run.path(k + ".ndjson") for k in ("plans", "cycles", "sets", "trace", "fmtplans")}
    core.write_ndjson(paths["fmtplans"], list(fmt_plans))
    home = rustfmt_home()
    run.cov["rustfmt"] = home or "not found: the formatting step is not exercised"
    core.write_ndjson(paths["plans"], plans)
    core.write_ndjson(paths["cycles"], cycles)
    core.write_ndjson(paths["sets"], sets)
    core.vharness(["c08", "--plans", paths["plans"], "--cycles", paths["cycles"], "--sets", paths["sets"], "--extra", SNIPPETS, "--corpus", CORPUS,
                   "--scale", str(scale), "--timeout-s", "60", "--trace", paths["trace"], "--fmt-plans", paths["fmtplans"], "--rustfmt-home", home], threads=14)
    events = core.read_ndjson(paths["trace"])
    keys = known_by_key(run)
    for e in events:
        e["dev"] = ""
        if e["outcome"] == "panicked":
            e["dev"] = keys.get(("site", e["site"]), "")
        elif e["outcome"] in ("aborted", "hung"):
            e["dev"] = keys.get(("class", e["class"]), "")
    core.write_ndjson(paths["trace"], events)
    consumed, verdicts = core.validate_trace("trace/Trace_C08.tla", trace_cfg(run), paths["trace"], shards=shards, timeout=3000)
    run.judge(events, verdicts, consumed)
    return events


def check(tier):
    run = Run("C08", tier)
    t = TIERS[tier]
    plans, cycles = model(run, t["npos"], t["ndefs"])
    sets = c02.generate(run, tier, **t["sim"])
    events_holder = []
    run.case_of = lambda ev: {"backend": ev.get("backend"), "what": ev.get("what"), "text": ev.get("text") or ev.get("asn"), "fmt": bool(ev.get("fmt"))}
    fmt_plans = fmt_model(run)
    events = drive_and_validate(run, plans, cycles, sets, t["scale"], shards=8 if tier == "quick" else 16, fmt_plans=fmt_plans)
    run.cov["formatted_jobs"] = len([e for e in events if e.get("fmt")])
    run.cov["evaluations"] = len(events)
    by = {}
    for e in events:
        by.setdefault(e["kind"], {}).setdefault(e["outcome"], 0)
        by[e["kind"]][e["outcome"]] += 1
    run.cov["by_kind_and_outcome"] = by
    run.cov["distinct_nontrivial"] = len({(e["backend"], e["asn"], e["bytes"]) for e in events})
    run.cov["exhaustive"] = False
    run.cov["rule"] = ("TLC checks the worker machine under TotalSpec and emits edit plans (operator x relative position x material class) and reference-cycle "
                       "topologies (edge kind per definition x target x outside entry); plans are applied to real-world modules of the repository, generated module sets "
                       "and notation snippets; plus every prefix and a multi-byte character at every position of small inputs, seeded token soup, deep nesting; every "
                       "input runs in a worker process (8 MiB stack, watchdog); the formatting step of the rasn backend (bindings piped through a rustfmt child, FmtPipe.tla) is exercised with "
                       "outputs of 1/2, 1, 3/2 and 3 times the pipe capacity and with seeds, rustfmt in reach as in a build script; every job runs through compile_to_string, Display and contextualize of every error and warning; "
                       "non-trivial = distinct (backend, input)")
    bad = [e for e in events if e["outcome"] not in ("ok", "err")]
    run.cov["samples"] = [{"kind": e["kind"], "what": e["what"], "backend": e["backend"], "outcome": e["outcome"]} for e in events[:: max(1, len(events) // 5)][:5]]
    run.cov["not_total_but_recorded"] = len(bad)
    run.assumptions = ["a panic is identified by the innermost rasn_compiler function on its backtrace and its message with numbers and quoted text masked",
                       "an abort (stack exhaustion) or hang has no site and is identified by the input class (cycle with a parameterized edge, nesting depth)",
                       "worker threads run with the 8 MiB stack of a main thread; the watchdog fires after 60 s"]
    return run.finish()


def replay(payload):
    """the stored input is run again in a worker process"""
    import subprocess
    run = Run("C08", "quick")
    case = payload.get("case") or {}
    text = case.get("text") or ""
    job = json.dumps({"id": 0, "text": text, "backend": case.get("backend") or "rasn", "fmt_home": rustfmt_home() if case.get("fmt") else ""})
    try:
        p = subprocess.run([core.VH, "c08worker"], input=job + "\n", env=core.harness_env(), stdout=subprocess.PIPE, stderr=subprocess.DEVNULL, text=True, timeout=120)
        done = [l for l in p.stdout.splitlines() if l.startswith("DONE ")]
        res = json.loads(done[0][5:])["res"] if done else {"outcome": "aborted", "at": "compile", "site": f"worker exit status {p.returncode}"}
    except subprocess.TimeoutExpired:
        res = {"outcome": "hung", "at": "compile", "site": "no return within 120 s"}
    print(f"input: {len(text)} bytes, backend {case.get('backend')}, {case.get('what')}")
    print("outcome:", json.dumps(res))
    if res["outcome"] in ("ok", "err") and res.get("at", "") == "":
        return 0
    keys = known_by_key(run)
    dev = keys.get(("site", res.get("site")), "") if res["outcome"] == "panicked" else ""
    if dev:
        print("KNOWN-FINDING: property=C08", dev)
        return 0
    print("MISMATCH: compilation or error rendering does not return normally")
    return 1
