"""The cstring family (spec/CString.tla, X.680 12.14.1), shared by C15 (FROM strings) and C07 (string values and DEFAULTs)."""
from .. import core
from ..core import ToolError

MAXLEN = {"quick": 4, "thorough": 5}


def family(run, tier, aspect):
    """model-check CString.tla, refute the two designs that are not the clause, replay every spelling, validate with Trace_CStr"""
    n = MAXLEN[tier]
    cfg = run.path("MC_CString.cfg")
    open(cfg, "w").write(f"SPECIFICATION Spec\nCONSTANTS\n  MaxLen = {n}\nINVARIANTS TypeOK Inductive ScanAgrees OneLineVerbatim OuterSpacingKept "
                         "GraphicsKept PaddingInsignificant NewlineKindInsignificant ByLinesIsClause Emit\nCHECK_DEADLOCK FALSE\n")
    res = core.tlc("mc/MC_CString.tla", cfg, workers=4, coverage=True, timeout=1200, tag="cstr")
    core.check_coverage(res)
    run.add_tlc(res, f"CString.tla: scanner = declarative reading of X.680 12.14.1 on every spelling of <= {n} symbols; layout laws")
    for neg in ("verbatim", "trimall"):
        r = core.tlc("mc/MC_CString.tla", f"mc/MC_CString_{neg}.cfg", workers=2, expect_violation=True, timeout=300, tag=f"cstr_{neg}")
        run.cov.setdefault("negative_models_refuted", {})[f"cstring_{neg}"] = r.violated
    cases = res.printed("CASE")
    if len(cases) < 2000:
        raise ToolError(f"expected every spelling up to {n} symbols, got {len(cases)}")
    cases_p, trace_p = run.path("cstr_cases.ndjson"), run.path("cstr_trace.ndjson")
    core.write_ndjson(cases_p, cases)
    core.vharness(["cstr", "--cases", cases_p, "--trace", trace_p], threads=12)
    events = core.read_ndjson(trace_p)
    tcfg = run.path("Trace_CStr.cfg")
    open(tcfg, "w").write(f'SPECIFICATION Spec\nCONSTANTS\n  Aspect = "{aspect}"\n  MaxLen = 9\nPOSTCONDITION Accepted\nCHECK_DEADLOCK FALSE\n')
    consumed, verdicts = core.validate_trace("trace/Trace_CStr.tla", tcfg, trace_p, shards=4, timeout=1200)
    run.judge(events, verdicts, consumed)
    multi = [e for e in events if any(s in ("lf", "crlf") for s in e["syms"])]
    run.cov["cstring_family"] = {"spellings": len(events), "spanning_lines": len(multi), "compiled_ok": sum(1 for e in events if e["status"] == "ok"),
                                 "max_symbols": n, "aspect": aspect}
    return events


def replay_one(run, ev, aspect):
    cases_p, trace_p = run.path("cstr_cases.ndjson"), run.path("cstr_trace.ndjson")
    core.write_ndjson(cases_p, [{"syms": ev["syms"], "empty": ev["empty"]}])
    core.vharness(["cstr", "--cases", cases_p, "--trace", trace_p], threads=1)
    events = core.read_ndjson(trace_p)
    tcfg = run.path("Trace_CStr.cfg")
    open(tcfg, "w").write(f'SPECIFICATION Spec\nCONSTANTS\n  Aspect = "{aspect}"\n  MaxLen = 9\nPOSTCONDITION Accepted\nCHECK_DEADLOCK FALSE\n')
    consumed, verdicts = core.validate_trace("trace/Trace_CStr.tla", tcfg, trace_p, shards=1, timeout=300)
    run.judge(events, verdicts, consumed)
    e = events[0]
    print("input:\n" + e["asn"])
    print("observed:", {k: e[k] for k in ("status", "alpha_has", "raw", "alpha", "value", "dflt", "detail")})
    return events
