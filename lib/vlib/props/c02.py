"""C02 -- constructed types keep every component (spec/Notation.tla generator, spec/RustShape.tla)."""
import json, os
from .. import core
from ..core import Run, ToolError

SIM = {  # maxfaults: injected faults (C10 only)
       "quick": dict(num=250, workers=4, maxnodes=30, minnodes=12), "thorough": dict(num=200, workers=16, maxnodes=45, minnodes=16)}


def sim_cfg(run, p):
    p = dict(maxfaults=0, **p) if "maxfaults" not in p else p
    cfg = run.path("MC_Notation_sim.cfg")
    open(cfg, "w").write(f"""SPECIFICATION SpecSim
CONSTANTS
  MaxModules = 3
  MaxNodes = {p['maxnodes']}
  MaxDepth = 4
  MinNodes = {p['minnodes']}
  MaxFaults = {p['maxfaults']}
  MaxComps = 12
INVARIANTS TypeOK WF MandatoryEdgesGoBack Emit
CHECK_DEADLOCK FALSE
""")
    return cfg


def generate(run, tier, tag="notation", **override):
    """module sets from TLC's simulator (seeded); returns the list of distinct node tables"""
    p = dict(SIM[tier], **override)
    if tier == "quick":
        # one simulator thread: the same VERIF_SEED then draws the same module sets in every run
        p["num"], p["workers"] = p["num"] * p["workers"], 1
    res = core.tlc("mc/MC_Notation.tla", sim_cfg(run, p), workers=p["workers"], simulate=f"num={p['num']}", depth=120,
                   tlcseed=core.seed(), timeout=1800, xmx="8g")
    run.add_tlc(res, f"Notation simulation num={p['num']} x {p['workers']} workers (states generated, simulation mode)")
    seen, cases = set(), []
    for c in res.printed("CASE"):
        key = json.dumps(c, sort_keys=True)
        if key not in seen:
            seen.add(key)
            cases.append(c)
    if not cases:
        raise ToolError("Notation simulation produced no module sets")
    return cases


def trace_cfg(run):
    cfg = run.path("Trace_C02.cfg")
    known = ", ".join('"%s"' % d for d in sorted(run.known))
    open(cfg, "w").write(f"SPECIFICATION Spec\nCONSTANT KnownDevs = {{{known}}}\nPOSTCONDITION Accepted\nCHECK_DEADLOCK FALSE\n")
    return cfg


def drive_and_validate(run, cases, shards):
    cases_p, trace_p = run.path("cases.ndjson"), run.path("trace.ndjson")
    core.write_ndjson(cases_p, cases)
    core.vharness(["c02", "--cases", cases_p, "--trace", trace_p], threads=12)
    events = core.read_ndjson(trace_p)
    consumed, verdicts = core.validate_trace("trace/Trace_C02.tla", trace_cfg(run), trace_p, shards=shards, timeout=3000,
                                             group_start=lambda line: '"ev":"begin"' in line)
    run.judge(events, verdicts, consumed)
    return events


def check(tier):
    run = Run("C02", tier)
    # the generator's own well-formedness, exhaustively for tiny tables (thorough only: minutes)
    if tier == "thorough":
        bfs = core.tlc("mc/MC_Notation.tla", "mc/MC_Notation_bfs.cfg", workers=16, timeout=3000, xmx="16g")
        run.add_tlc(bfs, "Notation breadth-first MaxNodes=2: WF of every reachable table")
    cases = generate(run, tier)
    # exhaustive reference topologies (RecGraph.tla): every way 2 (thorough: also 3) constructed
    # definitions can refer to each other, as Notation tables
    import random
    for cfg, what in (("mc/MC_RecGraph2.cfg", "2 definitions x {none, req, opt, list} edges"),
                      ("mc/MC_RecGraph3.cfg", "3 definitions x {none, opt} edges")):
        rg = core.tlc("mc/MC_RecGraph.tla", cfg, workers=8, coverage=True, timeout=1800, xmx="8g")
        core.check_coverage(rg)
        run.add_tlc(rg, "RecGraph exhaustive: " + what)
        topo = rg.printed("CASE")
        if "RecGraph3" in cfg and tier == "quick":
            random.Random(core.seed()).shuffle(topo)
            topo = topo[:1500]
        run.cov.setdefault("reference_topologies", 0)
        run.cov["reference_topologies"] += len(topo)
        cases += topo
    # exhaustive nesting chains (MC_NestChains.tla): a component reached through every chain of <= 3 anonymous
    # wrappers (SEQUENCE OF, SET OF, SEQUENCE, SET, CHOICE in any order) ending in each kind of leaf
    nc_cfg = run.path("MC_NestChains.cfg")
    open(nc_cfg, "w").write(f"SPECIFICATION Spec\nCONSTANT MaxChain = {3 if tier == 'quick' else 4}\nINVARIANTS PathShaped Emit EmitNames EmitImported EmitClassHosts\nCHECK_DEADLOCK FALSE\n")
    nc = core.tlc("mc/MC_NestChains.tla", nc_cfg, workers=1, timeout=1800, xmx="8g")
    run.add_tlc(nc, "NestChains exhaustive: outer kind x wrapper chains x leaf kind")
    chains = nc.printed("CASE")
    if len(chains) < 2000:
        raise ToolError(f"nesting chains: expected 2325 tables, got {len(chains)}")
    run.cov["nesting_chains"] = len(chains)
    cases += chains
    run.case_of = lambda ev: cases[ev["case"]] if "case" in ev and ev["case"] < len(cases) else None
    events = drive_and_validate(run, cases, shards=4 if tier == "quick" else 16)
    ct = [e for e in events if e["ev"] == "ctype"]
    run.cov["evaluations"] = len(cases)
    run.cov["constructed_types_checked"] = len(ct)
    run.cov["distinct_nontrivial"] = len({e["asn"] for e in ct if e["found"] and (e["src"] or e["src_elem"])})
    run.cov["exhaustive"] = False
    run.cov["rule"] = ("module sets drawn by TLC's simulator from Notation.tla (1..3 modules, all tagging/extensibility defaults, "
                       "every builtin type, constraints, tags, markers, nesting to depth 4, recursion, forward and cross-module "
                       "references, values, DEFAULTs), seeded by VERIF_SEED; one trace event per constructed type (also anonymous "
                       "nested ones); plus every reference topology of RecGraph.tla (2 definitions exhaustively; 3 definitions "
                       "exhaustively in the thorough tier, a seeded sample of 1500 in the quick tier) and every nesting chain of MC_NestChains.tla (outer kind x <= 3 anonymous wrappers x leaf kind); non-trivial = the type has at least one component / an element type and an item was "
                       "generated; distinct by printed ASN.1 of the type")
    step = max(1, len(ct) // 6)
    run.cov["samples"] = [{"asn": e["asn"], "observed_members": [{k: m[k] for k in ("name", "cls", "optional", "boxed", "has_default")} for m in e["obs"]]}
                          for e in ct[::step][:6]]
    run.assumptions = ["a hoisted anonymous type is found by following the Rust type of the field that refers to it",
                       "printer and syn-based projection of the harness are trusted",
                       "module sets the compiler rejects or warns about are skipped (counted)"]
    return run.finish()


def replay(payload):
    run = Run("C02", "quick")
    ev = payload["event"]
    # the failing module set is identified by its printed text; re-run it from the stored case
    case = payload.get("case")
    if case is None:
        print("replay file carries no case (event only):", ev.get("asn"))
        return 2
    events = drive_and_validate(run, [case], shards=1)
    for e in events:
        if e["ev"] == "begin":
            print(e["asn"])
    for what, e in run.violations:
        print("MISMATCH:", what, "--", e.get("asn", "")[:200])
    return 1 if run.violations else 0
