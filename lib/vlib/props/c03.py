"""C03 -- tags and tagging mode (spec/Tagging.tla)."""
import json, os
from .. import core
from ..core import Run, ToolError

ALL_DEVS = ["D_C03_no_tags_clause", "D_C03_nested_env", "D_C03_element_tag", "D_C03_open_implicit"]


def trace_cfg(run):
    cfg = run.path("Trace_C03.cfg")
    known = ", ".join('"%s"' % d for d in sorted(run.known))
    open(cfg, "w").write(f"SPECIFICATION Spec\nCONSTANT KnownDevs = {{{known}}}\nPOSTCONDITION Accepted\nCHECK_DEADLOCK FALSE\n")
    return cfg


def drive_and_validate(run, cases, shards, extra=(), more_events=()):
    cases_p, trace_p = run.path("cases.ndjson"), run.path("trace.ndjson")
    core.write_ndjson(cases_p, cases)
    core.vharness(["c03", "--cases", cases_p, "--trace", trace_p] + list(extra), threads=8)
    events = core.read_ndjson(trace_p) + list(more_events)
    core.write_ndjson(trace_p, events)
    consumed, verdicts = core.validate_trace("trace/Trace_C03.tla", trace_cfg(run), trace_p, shards=shards)
    run.judge(events, verdicts, consumed)
    return events


DER_TOML = """[package]
name = "c03der"
version = "0.1.0"
edition = "2021"
publish = false
[workspace]
[dependencies]
rasn = "0.27"
"""


def tlv(data):
    """DER bytes -> list of nodes {cls, num, cons, kids}"""
    out, i = [], 0
    while i < len(data):
        b = data[i]
        cls = ["universal", "application", "context", "private"][b >> 6]
        cons = bool(b & 0x20)
        num = b & 0x1F
        i += 1
        if num == 0x1F:
            num = 0
            while True:
                num = (num << 7) | (data[i] & 0x7F)
                i += 1
                if not data[i - 1] & 0x80:
                    break
        ln = data[i]
        i += 1
        if ln & 0x80:
            n = ln & 0x7F
            ln = int.from_bytes(data[i:i + n], "big")
            i += n
        body = data[i:i + ln]
        i += ln
        out.append({"cls": cls, "num": num, "cons": cons, "kids": tlv(body) if cons else []})
    return out


def shallow(n):
    return {"cls": n["cls"], "num": n["num"], "cons": n["cons"]} if n else {"cls": "", "num": -1, "cons": False}


def der_probe(run, cases, stride):
    """the DER encoding rasn produces for a value of every tag point's type (built and run in a scratch crate)"""
    import shutil, subprocess, time
    crate = run.path("der")
    shutil.rmtree(crate, ignore_errors=True)
    os.makedirs(os.path.join(crate, "src"))
    os.makedirs(os.path.join(crate, ".cargo"))
    open(os.path.join(crate, "Cargo.toml"), "w").write(DER_TOML)
    shutil.copy(os.path.join(core.REPO, "Cargo.lock"), os.path.join(crate, "Cargo.lock"))
    open(os.path.join(crate, ".cargo", "config.toml"), "w").write(f'[net]\noffline = true\n[build]\ntarget-dir = "{os.path.join(core.ROOT, "work", "target-probe")}"\n')
    cases_p, plan_p = run.path("der_cases.ndjson"), run.path("der_plan.json")
    core.write_ndjson(cases_p, cases)
    core.vharness(["c03der", "--cases", cases_p, "--stride", str(stride), "--crate", crate, "--plan", plan_p], threads=8)
    plan = json.load(open(plan_p))
    live = [e for e in plan if e["file"]]
    rustc_errors = {}
    t = time.time()
    for rnd in range(6):
        main = "#![allow(warnings)]\n" + "".join(f'#[path = "{e["file"]}"]\nmod c_{e["k"]};\n' for e in live)
        main += "fn main() {\n" + "".join(
            f'    match c_{e["k"]}::run() {{ Ok(b) => println!("{e["k"]} OK {{}}", b.iter().map(|x| format!("{{:02x}}", x)).collect::<String>()), Err(m) => println!("{e["k"]} ERR {{}}", m.replace(\'\\n\', " ")) }}\n'
            for e in live) + "}\n"
        open(os.path.join(crate, "src", "main.rs"), "w").write(main)
        p = subprocess.run(["cargo", "run", "--offline", "--message-format=json", "-q"], cwd=crate, env=core.clean_env(), stdout=subprocess.PIPE,
                           stderr=subprocess.PIPE, text=True, timeout=3600)
        bad = {}
        lines = []
        for line in p.stdout.splitlines():
            if line.startswith("{"):
                try:
                    m = json.loads(line)
                except ValueError:
                    continue
                if m.get("reason") == "compiler-message" and m["message"].get("level") == "error":
                    for sp in [s for s in m["message"].get("spans", []) if s.get("is_primary")][:1]:
                        bad.setdefault(os.path.basename(sp["file_name"]), []).append(((m["message"].get("code") or {}).get("code") or "") + " " + m["message"]["message"][:200])
            else:
                lines.append(line)
        if not bad:
            if p.returncode != 0:
                core.log(p.stderr[-2000:])
                raise ToolError("the DER probe does not build or run")
            break
        stray = [f for f in bad if not f.startswith("c_")]
        if stray:
            raise ToolError(f"the DER probe has errors outside the case files: {bad[stray[0]][:2]}")
        rustc_errors.update(bad)
        live = [e for e in live if e["file"] not in rustc_errors]
    else:
        raise ToolError("the DER probe did not build in 6 rounds")
    core.log(f"[cargo] DER probe: {len(live)} points encoded, {len(rustc_errors)} files rejected by rustc, {time.time()-t:.1f}s")
    got = {}
    for line in lines:
        parts = line.split(" ", 2)
        if len(parts) >= 2 and parts[0].isdigit():
            got[int(parts[0])] = (parts[1], parts[2] if len(parts) > 2 else "")
    events = []
    for e in plan:
        e = dict(e)
        e["der_status"], e["outer"], e["inner"], e["hex"] = "none", shallow(None), shallow(None), ""
        if e["file"] in rustc_errors:
            e["der_status"] = "rustc"
            e["detail"] = rustc_errors[e["file"]][0]
        elif e["file"] and e["k"] in got:
            st, payload = got[e["k"]]
            if st == "OK":
                nodes = tlv(bytes.fromhex(payload))
                # the TLV of the tagged element, by position
                top = nodes[0] if nodes else None
                path = {"assignment": 0, "alternative": 0, "component": 1, "element": 1, "nested": 2}[e["pos"]]
                node = top
                for _ in range(path):
                    node = node["kids"][0] if node and node["kids"] else None
                e["der_status"] = "ok" if node else "short"
                e["outer"] = shallow(node)
                e["inner"] = shallow(node["kids"][0]) if node and node["kids"] else shallow(None)
                e["hex"] = payload
            else:
                e["der_status"] = "encode_error"
                e["detail"] = payload[:200]
        events.append(e)
    return events


def check(tier):
    run = Run("C03", tier)
    run.skip_key = ['t', 'md', 'md2', 'via', 'kw', 'cls', 'pos', 'kind', 'pat', 'cont', 'nested', 'ev']
    res = core.tlc("mc/MC_C03.tla", "mc/MC_C03.cfg", workers=4, coverage=True, timeout=600)
    core.check_coverage(res)
    run.add_tlc(res, "Tagging exhaustive: 4 defaults x 3 keywords x 4 classes x 5 positions x 5 kinds, + 192 automatic-tagging points")
    cases = res.printed("CASE")
    if len([c for c in cases if c["t"] == "tag"]) != 960 or len([c for c in cases if c["t"] == "auto"]) != 192 or len([c for c in cases if c["t"] == "xtag"]) != 108:
        raise ToolError(f"expected 960 legal tag points, 192 automatic-tagging points and 108 cross-module points, model gave {len(cases)}")
    run.cov["cross_module_points"] = 108
    # each listed deviation must be refuted by the model's invariants (non-vacuity): the
    # deviation models live in MC_C03_dev.tla
    for d in ALL_DEVS:
        neg = core.tlc("mc/MC_C03_dev.tla", f"mc/MC_C03_{d}.cfg", workers=2, expect_violation=True, timeout=300)
        run.cov.setdefault("deviation_models_refuted", {})[d] = neg.violated
    # mix the module defaults within every batch (TLC emits the cases grouped by module default); cross-module points last
    import random
    random.Random(core.seed()).shuffle(cases)
    cases.sort(key=lambda c: c["t"] == "xtag")
    # encoding level: rasn's DER bytes for a value of every (quick: every 6th) tag point's type
    der_events = der_probe(run, cases, 6 if tier == "quick" else 1)
    events = drive_and_validate(run, cases, shards=4, more_events=der_events)
    run.cov["evaluations"] = len(cases)
    run.cov["der_points_encoded"] = len([e for e in der_events if e["der_status"] == "ok"])
    run.cov["der_points_not_encoded"] = len([e for e in der_events if e["der_status"] != "ok"])
    run.cov["distinct_nontrivial"] = len({(e["asn"].split("::=", 1)[1], e["md"]) for e in events if e["status"] == "ok"})
    run.cov["exhaustive"] = True
    run.cov["rule"] = ("TLC enumerates the full product module default {EXPLICIT, IMPLICIT, AUTOMATIC, none} x keyword x class x "
                       "position {assignment, component, alternative, nested component, SEQUENCE OF element} x kind {primitive, "
                       "referenced SEQUENCE, referenced CHOICE, inline CHOICE, open type}: 960 legal points (240 illegal "
                       "IMPLICIT-on-CHOICE points excluded by 31.2.9) + 192 automatic-tagging points; non-trivial = compiled Ok; "
                       "distinct by (ASN.1 text, module default)")
    step = max(1, len(events) // 6)
    run.cov["samples"] = [{"asn": e["asn"], "module_default": e["md"], "observed": e.get("obs"), "status": e["status"]}
                          for e in events[::step][:8]]
    run.assumptions = ["encoding level: a value of each tag point's type is synthesised from the projected items, encoded by rasn 0.27's DER codec in a scratch crate and the TLV of the tagged element compared with Tagging.tla (class, number, constructed bit, inner tag of an explicit tag); points whose bindings rustc rejects (C01's findings) are skipped",
                       "observed at attribute level (rasn annotations); rasn 0.27 encodes a tagged CHOICE-typed field explicitly "
                       "whatever the annotation says, so an implicit marking on CHOICE kinds is accepted",
                       "printer and syn-based projection of the harness are trusted"]
    return run.finish()


def replay(payload):
    run = Run("C03", "quick")
    ev = payload["event"]
    keys = ("t", "md", "pat", "cont", "nested", "automatic") if ev.get("ev") == "auto" else ("t", "md", "md2", "via", "kw", "cls", "pos", "kind", "explicit")
    case = {k: ev[k] for k in keys if k in ev}
    case["t"] = "auto" if ev.get("ev") == "auto" else ("xtag" if "via" in ev else "tag")
    # the tag number is derived from the case index: replay the case at the same index
    cases = [dict(case) for _ in range(ev["k"] + 1)]
    events = drive_and_validate(run, cases[-1:] if ev.get("ev") == "auto" else cases, shards=1)
    e = events[-1]
    print("input:   ", e["asn"], "module default:", e["md"])
    print("observed:", e.get("obs"), e.get("obs_automatic"), e["status"])
    for what, x in run.violations[-1:]:
        print("MISMATCH:", what)
    return 1 if run.violations else 0
