"""C03 -- tags and tagging mode (spec/Tagging.tla)."""
import json, os
from .. import core
from ..core import Run, ToolError

ALL_DEVS = ["D_C03_no_tags_clause", "D_C03_nested_env", "D_C03_element_tag", "D_C03_open_implicit"]


def trace_cfg(run):
    cfg = run.path("Trace_C03.cfg")
    known = ", ".join('"%s"' % d for d in sorted(run.known))
    open(cfg, "w").write(f"SPECIFICATION Spec\nCONSTANT KnownDevs = {{{known}}}\nPOSTCONDITION Accepted\nCHECK_DEADLOCK FALSE\n")
    return cfg


def drive_and_validate(run, cases, shards, extra=()):
    cases_p, trace_p = run.path("cases.ndjson"), run.path("trace.ndjson")
    core.write_ndjson(cases_p, cases)
    core.vharness(["c03", "--cases", cases_p, "--trace", trace_p] + list(extra), threads=8)
    events = core.read_ndjson(trace_p)
    consumed, verdicts = core.validate_trace("trace/Trace_C03.tla", trace_cfg(run), trace_p, shards=shards)
    run.judge(events, verdicts, consumed)
    return events


def check(tier):
    run = Run("C03", tier)
    res = core.tlc("mc/MC_C03.tla", "mc/MC_C03.cfg", workers=4, coverage=True, timeout=600)
    core.check_coverage(res)
    run.add_tlc(res, "Tagging exhaustive: 4 defaults x 3 keywords x 4 classes x 5 positions x 5 kinds, + 96 automatic-tagging points")
    cases = res.printed("CASE")
    if len([c for c in cases if c["t"] == "tag"]) != 960 or len([c for c in cases if c["t"] == "auto"]) != 96:
        raise ToolError(f"expected 960 legal tag points and 96 automatic-tagging points, model gave {len(cases)}")
    # each listed deviation must be refuted by the model's invariants (non-vacuity): the
    # deviation models live in MC_C03_dev.tla
    for d in ALL_DEVS:
        neg = core.tlc("mc/MC_C03_dev.tla", f"mc/MC_C03_{d}.cfg", workers=2, expect_violation=True, timeout=300)
        run.cov.setdefault("deviation_models_refuted", {})[d] = neg.violated
    # mix the module defaults within every batch (TLC emits the cases grouped by module default)
    import random
    random.Random(core.seed()).shuffle(cases)
    events = drive_and_validate(run, cases, shards=4)
    run.cov["evaluations"] = len(cases)
    run.cov["distinct_nontrivial"] = len({(e["asn"].split("::=", 1)[1], e["md"]) for e in events if e["status"] == "ok"})
    run.cov["exhaustive"] = True
    run.cov["rule"] = ("TLC enumerates the full product module default {EXPLICIT, IMPLICIT, AUTOMATIC, none} x keyword x class x "
                       "position {assignment, component, alternative, nested component, SEQUENCE OF element} x kind {primitive, "
                       "referenced SEQUENCE, referenced CHOICE, inline CHOICE, open type}: 960 legal points (240 illegal "
                       "IMPLICIT-on-CHOICE points excluded by 31.2.9) + 96 automatic-tagging points; non-trivial = compiled Ok; "
                       "distinct by (ASN.1 text, module default)")
    step = max(1, len(events) // 6)
    run.cov["samples"] = [{"asn": e["asn"], "module_default": e["md"], "observed": e.get("obs"), "status": e["status"]}
                          for e in events[::step][:8]]
    run.assumptions = ["observed at attribute level (rasn annotations); rasn 0.27 encodes a tagged CHOICE-typed field explicitly "
                       "whatever the annotation says, so an implicit marking on CHOICE kinds is accepted",
                       "printer and syn-based projection of the harness are trusted"]
    return run.finish()


def replay(payload):
    run = Run("C03", "quick")
    ev = payload["event"]
    keys = ("t", "md", "pat", "cont", "nested", "automatic") if ev.get("ev") == "auto" else ("t", "md", "kw", "cls", "pos", "kind", "explicit")
    case = {k: ev[k] for k in keys}
    case["t"] = "auto" if ev.get("ev") == "auto" else "tag"
    # the tag number is derived from the case index: replay the case at the same index
    cases = [dict(case) for _ in range(ev["k"] + 1)]
    events = drive_and_validate(run, cases[-1:] if ev.get("ev") == "auto" else cases, shards=1)
    e = events[-1]
    print("input:   ", e["asn"], "module default:", e["md"])
    print("observed:", e.get("obs"), e.get("obs_automatic"), e["status"])
    for what, x in run.violations[-1:]:
        print("MISMATCH:", what)
    return 1 if run.violations else 0
