"""C14 -- ENUMERATED numbering (spec/EnumNum.tla)."""
import json, os
from .. import core
from ..core import Run, ToolError

BOUNDS = {"quick": (3, 2), "thorough": (5, 3)}


SPARSE = {"quick": (2, 3), "thorough": (2, 4)}


def gen_cfg(run, maxroot, maxext, emit=True, nums="MCNums"):
    cfg = run.path(f"MC_C14_{nums}.cfg")
    with open(cfg, "w") as f:
        f.write(f"""SPECIFICATION Spec
CONSTANTS
  MaxRoot = {maxroot}
  MaxExt = {maxext}
  Nums <- {nums}
INVARIANTS TypeOK ExplicitKept Distinct RootSuccessive AdditionsFresh AdditionsIncreasing {'Emit' if emit else ''}
CHECK_DEADLOCK FALSE
""")
    return cfg


def drive_and_validate(run, cases, shards):
    cases_p, trace_p = run.path("cases.ndjson"), run.path("trace.ndjson")
    core.write_ndjson(cases_p, cases)
    core.vharness(["c14", "--cases", cases_p, "--trace", trace_p], threads=12 if run.tier == "thorough" else 8)
    events = core.read_ndjson(trace_p)
    consumed, verdicts = core.validate_trace("trace/Trace_C14.tla", "trace/Trace_C14.cfg", trace_p, shards=shards)
    run.judge(events, verdicts, consumed)
    return events


def check(tier):
    run = Run("C14", tier)
    run.skip_key = ['root', 'ext', 'marker']
    mr, me = BOUNDS[tier]
    # 1+2. model check the numbering rule against the clause-by-clause invariants and emit every
    #      legal enumeration of the bounded space as a case
    res = core.tlc("mc/MC_C14.tla", gen_cfg(run, mr, me), workers=8 if tier == "quick" else 16, coverage=True,
                   timeout=3000, xmx="12g")
    core.check_coverage(res)
    run.add_tlc(res, f"EnumNum exhaustive MaxRoot={mr} MaxExt={me}")
    cases = res.printed("CASE")
    if not cases:
        raise ToolError("model produced no cases")
    # the sparse slice: few items, numbers from {3, 4, 9}, more additions
    sr, se = SPARSE[tier]
    res2 = core.tlc("mc/MC_C14.tla", gen_cfg(run, sr, se, nums="MCNumsSparse"), workers=8, coverage=True, timeout=3000, xmx="12g")
    core.check_coverage(res2)
    run.add_tlc(res2, f"EnumNum exhaustive, sparse numbers {{3, 4, 9}}, MaxRoot={sr} MaxExt={se}")
    seen = {json.dumps(c, sort_keys=True) for c in cases}
    cases += [c for c in res2.printed("CASE") if json.dumps(c, sort_keys=True) not in seen]
    # non-vacuity of the oracle: the positional numbering (the defect that was repaired) must be
    # refuted by the same invariants
    neg = core.tlc("mc/MC_C14_positional.tla", "mc/MC_C14_positional.cfg", workers=4, expect_violation=True, timeout=300)
    run.cov["negative_model_refuted"] = neg.violated
    # 3+4. drive the implementation, validate its trace
    events = drive_and_validate(run, cases, shards=4 if tier == "quick" else 16)
    run.cov["evaluations"] = len(cases)
    run.cov["distinct_nontrivial"] = len({e["asn"].split("::=", 1)[1] for e in events
                                         if e["status"] == "ok" and len(e["root"]) + len(e["ext"]) >= 2})
    run.cov["exhaustive"] = True
    run.cov["rule"] = (f"TLC enumerates every legal ENUMERATED with <= {mr} root items and <= {me} additions, each item "
                       "identifier-only or numbered from {-1,0,1,2,5}, and a sparse slice (<= 2 root items, <= 3 / 4 additions, numbers from {3,4,9}); one case per completed behaviour; non-trivial = "
                       "compiled Ok with at least two enumerals; distinct by rendered ASN.1 text")
    run.cov["samples"] = [{"asn": e["asn"], "observed_discriminants": e["discs"], "model_numbers": c["out"]}
                          for e, c in list(zip(events, cases))[:: max(1, len(events) // 5)][:6]]
    run.assumptions = ["printer and syn-based projection of the harness are trusted",
                       "illegal enumerations (duplicate or non-increasing numbers) are outside the quantifier"]
    return run.finish()


def replay(payload):
    run = Run("C14", "quick")
    ev = payload["event"]
    case = {"root": ev["root"], "ext": ev["ext"], "marker": ev["marker"]}
    events = drive_and_validate(run, [case], shards=1)
    print("input:   ", events[0]["asn"])
    print("observed:", events[0]["discs"], events[0]["out_ids"], events[0]["status"])
    for what, e in run.violations:
        print("MISMATCH:", what)
    return 1 if run.violations else 0
