"""C07 -- value assignments and DEFAULTs denote the source abstract value (spec/Values.tla)."""
import json, os, random
from .. import core
from ..core import Run, ToolError
from . import cstr


def trace_cfg(run):
    cfg = run.path("Trace_C07.cfg")
    known = ", ".join('"%s"' % d for d in sorted(run.known))
    open(cfg, "w").write(f"SPECIFICATION Spec\nCONSTANT KnownDevs = {{{known}}}\nPOSTCONDITION Accepted\nCHECK_DEADLOCK FALSE\n")
    return cfg


def model(run):
    res = core.tlc("mc/MC_C07.tla", "mc/MC_C07.cfg", workers=1, timeout=1200, xmx="8g")
    run.add_tlc(res, "Values.tla: Denote defined on every case family; hex table, octet padding, well-known arc placement")
    cases = res.printed("CASE")
    if len(cases) < 5000:
        raise ToolError(f"expected about 6800 cases, got {len(cases)}")
    return cases


def drive_and_validate(run, cases, shards):
    cases_p, trace_p = run.path("cases.ndjson"), run.path("trace.ndjson")
    core.write_ndjson(cases_p, cases)
    core.vharness(["c07", "--cases", cases_p, "--trace", trace_p], threads=12)
    events = core.read_ndjson(trace_p)
    consumed, verdicts = core.validate_trace("trace/Trace_C07.tla", trace_cfg(run), trace_p, shards=shards, timeout=3000)
    run.judge(events, verdicts, consumed)
    return events


def check(tier):
    run = Run("C07", tier)
    run.skip_key = ['fam', 'pos', 'via', 'chain', 'ty', 'term']
    cases = model(run)
    if tier == "quick":
        # every case of the small families, a seeded half of the exhaustive bit / named-bit / OID families
        rnd = random.Random(core.seed())
        big = {"bstring", "hstring", "namedbits", "oid"}
        cases = [c for c in cases if c["fam"] not in big or c["via"] == "ref" or rnd.random() < 0.5]
    run.case_of = lambda ev: cases[ev["case"]] if "case" in ev and ev["case"] < len(cases) else None
    events = drive_and_validate(run, cases, shards=8 if tier == "quick" else 16)
    # character string values as lexical items: every spelling with doubled quotes, spacing and line breaks (CString.tla)
    cs_events = cstr.family(run, tier, "value")
    run.cov["evaluations"] = len(cases) + len(cs_events)
    by = {}
    for e in events:
        k = f"{e['fam']}/{e['pos']}"
        d = by.setdefault(k, {"cases": 0, "judged": 0})
        d["cases"] += 1
        d["judged"] += 1 if e["generated"] and e["status"] in ("ok", "warn") else 0
    run.cov["by_family"] = by
    run.cov["distinct_nontrivial"] = len({e["asn"] for e in events if e["generated"]})
    run.cov["exhaustive"] = tier == "thorough"
    run.cov["rule"] = ("MC_C07 enumerates value notation terms per family (integers at every width boundary up to +-2^127, strings with doubled quotes and "
                       "multi-byte characters, every bstring up to 5 bits and selected up to 64, every 1-2 digit hstring, named-bit lists over every declaration "
                       "order of 3 positions, OIDs in number / name / name(number) form incl. well-known names re-used deeper, CHOICE / SEQUENCE / SEQUENCE OF "
                       "values) x {assignment, DEFAULT} x {direct, value reference} x type-reference chains 0..2; each is compiled alone and the generated "
                       "initialiser evaluated symbolically; non-trivial = distinct module text with a generated binding")
    gen = [e for e in events if e["generated"]]
    run.cov["samples"] = [{"asn": e["asn"], "rust": e["rust"], "obs": e["obs"]} for e in gen[:: max(1, len(gen) // 5)][:5]]
    run.assumptions = ["the abstract value of the bindings is obtained by symbolic evaluation of the generated initialiser tokens (harness/src/rseval.rs); an "
                       "expression it cannot evaluate counts as not denoting the value",
                       "values for which no binding is generated are not judged here (the property speaks about generated bindings; C10 covers silent drops)",
                       "named-bit lists are compared as sets of one-positions: trailing zero bits are not significant (X.680 22.7)"]
    return run.finish()


def replay(payload):
    run = Run("C07", "quick")
    case = payload.get("case")
    if payload.get("event", {}).get("ev") == "cstr":
        cstr.replay_one(run, payload["event"], "value")
        for what, e in run.violations:
            print("MISMATCH:", what)
        return 1 if run.violations else 0
    if case is None:
        print("replay file carries no case")
        return 2
    events = drive_and_validate(run, [case], shards=1)
    e = events[0]
    print(e["asn"])
    print("generated:", e["rust"])
    print("evaluates to:", json.dumps(e["obs"]))
    for what, ev in run.violations:
        print("MISMATCH:", what)
    return 1 if run.violations or run.deviations else 0
