"""C15 -- permitted-alphabet annotations (spec/Alphabet.tla)."""
import json, os
from .. import core
from ..core import Run, ToolError
from . import cstr

KM = ["NumericString", "PrintableString", "VisibleString", "IA5String", "BMPString", "UniversalString"]
# slices: (name, MaxOperands, MaxStrLen, KMTypes, OtherTypes)
SLICES = {
    "quick": [("two-operands", 2, 1, "KMquick", "OtherQuick"), ("long-strings", 1, 3, "KMgap", "NoOther")],
    "thorough": [("two-operands-all-types", 2, 1, "KM", "Other"), ("three-operands", 3, 1, "KMquick", "OtherQuick"), ("long-strings", 1, 3, "KMgap", "NoOther")],
}


def mc_cfg(run, sl):
    cfg = run.path(f"MC_C15_{sl[0]}.cfg")
    open(cfg, "w").write(f"""SPECIFICATION Spec
CONSTANTS
  MaxOperands = {sl[1]}
  MaxStrLen = {sl[2]}
  KMTypes <- {sl[3]}
  OtherTypes <- {sl[4]}
INVARIANTS ExceptMonotone InsideBase NoExceptSame Laws Emit
CHECK_DEADLOCK FALSE
""")
    return cfg


def trace_cfg(run):
    cfg = run.path("Trace_C15.cfg")
    known = ", ".join('"%s"' % d for d in sorted(run.known))
    km = ", ".join('"%s"' % t for t in KM)
    open(cfg, "w").write(f"SPECIFICATION Spec\nCONSTANTS\n  MaxOperands = 9\n  MaxStrLen = 9\n  KMTypes = {{{km}}}\n  OtherTypes = {{}}\n"
                         f"  KnownDevs = {{{known}}}\nPOSTCONDITION Accepted\nCHECK_DEADLOCK FALSE\n")
    return cfg


def drive_and_validate(run, cases, shards):
    cases_p, trace_p = run.path("cases.ndjson"), run.path("trace.ndjson")
    core.write_ndjson(cases_p, cases)
    core.vharness(["c15", "--cases", cases_p, "--trace", trace_p], threads=12)
    events = core.read_ndjson(trace_p)
    consumed, verdicts = core.validate_trace("trace/Trace_C15.tla", trace_cfg(run), trace_p, shards=shards, timeout=3000)
    run.judge(events, verdicts, consumed)
    return events


def check(tier):
    run = Run("C15", tier)
    run.skip_key = ['os', 'ps', 'ty', 'sizepos', 'pos']
    run.skip_filter = lambda ev: len(ev.get("os", [])) <= 2      # three-operand cases are sampled in the thorough tier
    seen, cases = set(), []
    for sl in SLICES[tier]:
        res = core.tlc("mc/MC_C15.tla", mc_cfg(run, sl), workers=8 if tier == "quick" else 16, coverage=True, timeout=3000, xmx="16g")
        core.check_coverage(res, ignore=("AddOperand",) if sl[1] == 1 else ())
        run.add_tlc(res, f"Alphabet laws, slice {sl[0]}: MaxOperands={sl[1]} MaxStrLen={sl[2]} {sl[3]} {sl[4]}")
        for c in res.printed("CASE"):
            key = json.dumps(c, sort_keys=True)
            if key not in seen:
                seen.add(key)
                cases.append(c)
    if len(cases) > 400000:
        # the three-operand slice is millions of cases: every case of up to two operands plus a seeded sample of the rest
        import random
        two = [c for c in cases if len(c["os"]) <= 2]
        rest = [c for c in cases if len(c["os"]) > 2]
        if len(two) > 400000:
            two, rest = [], cases
        random.Random(core.seed()).shuffle(rest)
        cases = two + rest[: 400000 - len(two)]
        run.cov["sampled_from_enumerated"] = True
    events = drive_and_validate(run, cases, shards=8 if tier == "quick" else 16)
    # the single strings themselves: every spelling of the lexical item (doubled quotes, spacing, line breaks), X.680 12.14.1
    cs_events = cstr.family(run, tier, "alphabet")
    run.cov["evaluations"] = len(cases) + len(cs_events)
    run.cov["distinct_nontrivial"] = len({e["asn"].split("::=", 1)[1] for e in events if e["status"] == "ok" and e["has_from"]})
    run.cov["exhaustive"] = True
    run.cov["rule"] = ("TLC enumerates every FROM expression of the bounded algebra (operands: strings over the single-character atoms, "
                       "ranges between them, inclusion of a constrained string type; operators | ^ EXCEPT) x string type x SIZE "
                       "combination {none, before, after, serial} x {assignment, component}; slices: "
                       + "; ".join(f"{s[0]} (<= {s[1]} operands, strings <= {s[2]} chars, {s[3]}+{s[4]})" for s in SLICES[tier])
                       + ". non-trivial = compiled Ok and a from(...) annotation was emitted; distinct by ASN.1 text. "
                       "Plus the cstring family (CString.tla): every spelling of a single FROM string of up to 4 / 5 symbols over graphic characters, "
                       "spacing, line breaks (LF, CRLF) and doubled quotation marks; the annotation must name exactly the characters X.680 12.14.1 makes part of the string")
    step = max(1, len(events) // 6)
    run.cov["samples"] = [{"asn": e["asn"], "status": e["status"], "from": e["raw"], "atoms_covered": e["obs"]} for e in events[::step][:8]]
    run.assumptions = ["each string type's alphabet is abstracted to 9 ordered atoms (B c c B c c B c B); the harness maps atoms to "
                       "characters and expands the emitted annotation back to atoms",
                       "character ranges are interpreted in code point order (X.680 clause 41, X.691 30.5)",
                       "a compilation that answers Err or a warning is counted as skipped"]
    return run.finish()


def replay(payload):
    run = Run("C15", "quick")
    ev = payload["event"]
    if ev.get("ev") == "cstr":
        cstr.replay_one(run, ev, "alphabet")
        for what, e in run.violations:
            print("MISMATCH:", what)
        return 1 if run.violations else 0
    case = {k: ev[k] for k in ("os", "ps", "ty", "sizepos", "pos")}
    events = drive_and_validate(run, [case], shards=1)
    print("input:   ", events[0]["asn"])
    print("observed:", {k: events[0][k] for k in ("status", "has_from", "raw", "obs", "partial", "outside", "has_size", "detail")})
    for what, e in run.violations:
        print("MISMATCH:", what)
    return 1 if run.violations or run.deviations else 0
