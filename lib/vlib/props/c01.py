"""C01 -- warning-free compilations yield Rust bindings that type-check against rasn."""
import json, os, re, shutil, subprocess, time
from .. import core
from ..core import Run, ToolError
from . import c02, c19

TIERS = {"quick": dict(per_set=1, maxalts=3, sim=dict(num=40, workers=4, maxnodes=30, minnodes=12)),
         "thorough": dict(per_set=6, maxalts=4, sim=dict(num=400, workers=16, maxnodes=45, minnodes=16))}

CARGO_TOML = """[package]
name = "c01scratch"
version = "0.1.0"
edition = "2021"
publish = false
[workspace]
[dependencies]
rasn = "0.27"
lazy_static = "1"
"""


def trace_cfg(run):
    cfg = run.path("Trace_C01.cfg")
    known = ", ".join('"%s"' % d for d in sorted(run.known))
    open(cfg, "w").write(f"SPECIFICATION Spec\nCONSTANT KnownDevs = {{{known}}}\nPOSTCONDITION Accepted\nCHECK_DEADLOCK FALSE\n")
    return cfg


def cargo_check(crate):
    """rustc's verdict per file of the scratch crate: {file: [error code + message, ...]}"""
    t = time.time()
    p = subprocess.run(["cargo", "check", "--offline", "--message-format=json", "--lib"], cwd=crate, env=core.clean_env(),
                       stdout=subprocess.PIPE, stderr=subprocess.PIPE, text=True, timeout=7200)
    errors, other = {}, []
    for line in p.stdout.splitlines():
        try:
            m = json.loads(line)
        except ValueError:
            continue
        if m.get("reason") != "compiler-message" or m["message"].get("level") != "error":
            continue
        msg = m["message"]
        code = (msg.get("code") or {}).get("code") or ""
        spans = [s for s in msg.get("spans", []) if s.get("is_primary")] or msg.get("spans", [])
        files = {os.path.basename(s["file_name"]) for s in spans}
        text = f"{code} {msg.get('message', '')}"[:300]
        if not files:
            other.append(text)
        for sp in spans[:1]:
            # the item the diagnostic is about: the line of the case file (one item per line)
            item = ""
            try:
                with open(os.path.join(crate, sp["file_name"])) as fh:
                    for n, line in enumerate(fh, 1):
                        if n == sp["line_start"]:
                            item = " ".join(line.split())
                            break
            except OSError:
                pass
            errors.setdefault(os.path.basename(sp["file_name"]), []).append(text + " @ " + item[:3000])
    core.log(f"[cargo] check of the scratch crate {time.time()-t:.1f}s rc={p.returncode}, {sum(len(v) for v in errors.values())} errors in {len(errors)} files")
    if p.returncode != 0 and not errors and not any("aborting" in o or "could not compile" in o for o in other):
        core.log(p.stderr[-3000:])
        raise ToolError("cargo check failed without a diagnostic that names a file")
    return errors, other


def drive_and_validate(run, sets, cfgs, pats, per_set, shards):
    crate = run.path("crate")
    shutil.rmtree(crate, ignore_errors=True)
    os.makedirs(os.path.join(crate, "src"))
    os.makedirs(os.path.join(crate, ".cargo"))
    open(os.path.join(crate, "Cargo.toml"), "w").write(CARGO_TOML)
    shutil.copy(os.path.join(core.REPO, "Cargo.lock"), os.path.join(crate, "Cargo.lock"))
    open(os.path.join(crate, ".cargo", "config.toml"), "w").write(f'[net]\noffline = true\n[build]\ntarget-dir = "{os.path.join(core.ROOT, "work", "target-probe")}"\n')
    paths = {k: run.path(k + ".ndjson") for k in ("sets", "cfgs", "patterns", "trace")}
    core.write_ndjson(paths["sets"], sets)
    core.write_ndjson(paths["cfgs"], cfgs)
    core.write_ndjson(paths["patterns"], pats)
    plan_p = run.path("plan.json")
    core.vharness(["c01", "--sets", paths["sets"], "--cfgs", paths["cfgs"], "--patterns", paths["patterns"], "--per-set", str(per_set),
                   "--crate", crate, "--plan", plan_p], threads=12)
    plan = json.load(open(plan_p))
    errors, other = cargo_check(crate)
    events = []
    sigs = [(k["deviation"], re.compile(k["signature"]["error"]), re.compile(k["signature"]["item"])) for k in core.load_known()
            if k["property"] == "C01" and k["status"] == "known" and "signature" in k]
    for e in plan:
        errs = errors.get(e["file"], []) if e["file"] else []
        explained, unexplained, failed_types, pending = set(), [], set(), []
        for m in errs:
            msg, _, item = m.partition(" @ ")
            hit = next((d for d, er, ir in sigs if er.search(msg) and ir.search(item)), None)
            if hit:
                explained.add(hit)
                failed_types.update(re.findall(r"pub (?:struct|enum) (\w+)", item))
            else:
                pending.append((msg, item))
        # follow-on errors: a type whose derive failed does not implement rasn's traits, and whatever contains it fails in turn
        changed = True
        while changed:
            changed = False
            for msg, item in list(pending):
                names = {x for q in re.findall(r"`([^`]*)`", msg) for x in re.findall(r"\w+", q)}
                if re.match(r"E0(277|599) ", msg) and names & failed_types:
                    pending.remove((msg, item))
                    failed_types.update(re.findall(r"pub (?:struct|enum) (\w+)", item))
                    changed = True
        unexplained = [f"{m} @ {i}" for m, i in pending]
        e["rustc_errors"] = [x[:500] for x in errs[:6]]
        e["rustc_error_count"] = len(errs)
        e["rustc_ok"] = not errs
        e["explained_by"] = sorted(explained)
        e["unexplained"] = [x[:600] for x in unexplained[:4]]
        events.append(e)
    # an error that names no case file (e.g. in lib.rs) cannot be attributed: the run is not trustworthy
    stray = [f for f in errors if not f.startswith("case_")]
    if stray:
        raise ToolError(f"rustc reports errors outside the case files: {stray} {errors[stray[0]][:2]}")
    core.write_ndjson(paths["trace"], events)
    consumed, verdicts = core.validate_trace("trace/Trace_C01.tla", trace_cfg(run), paths["trace"], shards=shards, timeout=3000)
    run.judge(events, verdicts, consumed)
    return events


def check(tier):
    run = Run("C01", tier)
    t = TIERS[tier]
    cfgs, pats = c19.model(run, t["maxalts"])
    sets = c02.generate(run, tier, **t["sim"])
    run.case_of = lambda ev: {"cfg": ev.get("cfg"), "input": ev.get("input"), "asn": ev.get("asn")}
    events = drive_and_validate(run, sets, cfgs, pats, t["per_set"], shards=2 if tier == "quick" else 8)
    checked = [e for e in events if e["file"]]
    run.cov["evaluations"] = len(events)
    run.cov["type_checked"] = len(checked)
    run.cov["types_type_checked"] = sum(e["types"] for e in checked)
    run.cov["skipped_with_warnings_or_err"] = len([e for e in events if e["status"] != "ok"])
    run.cov["by_input"] = {k: len([e for e in checked if e["input"] == k]) for k in ("generated", "patterns", "widths")}
    run.cov["distinct_nontrivial"] = len({(json.dumps(e["cfg"], sort_keys=True), e["asn"]) for e in checked})
    run.cov["exhaustive"] = False
    run.cov["rule"] = ("module sets from Notation.tla (TLC simulation), the CHOICE payload pattern module and an integer width boundary module are "
                       "compiled under configurations from Options.tla; every warning-free output is written as one file of a scratch crate depending "
                       "on rasn 0.27 and lazy_static only, and `cargo check` decides; non-trivial = distinct (configuration, input) that was type-checked")
    run.cov["samples"] = [{"cfg": e["cfg"], "input": e["input"], "types": e["types"], "rustc_ok": e["rustc_ok"]} for e in checked[:: max(1, len(checked) // 5)][:5]]
    run.assumptions = ["rustc's verdict is attributed to a case by the file a diagnostic's primary span lies in",
                       "type_annotations that add derives (PartialOrd, Ord) are not type-checked: whether every generated type can derive a user-chosen trait is not the compiler's promise",
                       "custom imports are given as crate::verif_* paths that exist in the scratch crate"]
    return run.finish()


def replay(payload):
    print("configuration:", json.dumps((payload.get("case") or {}).get("cfg")))
    print((payload.get("case") or {}).get("asn", "")[:3000])
    print("rustc:", json.dumps((payload.get("event") or {}).get("rustc_errors")))
    return 1
