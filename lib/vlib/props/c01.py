"""C01 -- warning-free compilations yield Rust bindings that type-check against rasn."""
import json, os, re, shutil, subprocess, time
from .. import core
from ..core import Run, ToolError
from . import c02, c19

TIERS = {"quick": dict(stride=6, per_set=1, maxalts=3, sim=dict(num=40, workers=4, maxnodes=30, minnodes=12)),
         "thorough": dict(stride=1, per_set=3, maxalts=4, sim=dict(num=60, workers=8, maxnodes=40, minnodes=14))}

WORKSPACE_TOML = """[workspace]
members = ["main", "m/*", "q/*"]
resolver = "2"
"""
CHUNKS = 14

def package_toml(name):
    return f"""[package]
name = "{name}"
version = "0.1.0"
edition = "2021"
publish = false
[dependencies]
rasn = "0.27"
lazy_static = "1"
"""


STUBS = ("#![allow(warnings)]\npub mod verif_a { pub struct Alpha; }\npub mod verif_b { pub struct Anything; }\n"
         "pub mod verif_c { pub mod inner { pub struct Beta; pub struct Gamma; } }\n")


def trace_cfg(run):
    cfg = run.path("Trace_C01.cfg")
    known = ", ".join('"%s"' % d for d in sorted(run.known))
    open(cfg, "w").write(f"SPECIFICATION Spec\nCONSTANT KnownDevs = {{{known}}}\nPOSTCONDITION Accepted\nCHECK_DEADLOCK FALSE\n")
    return cfg


def cargo_check(ws):
    """rustc's verdict per case file of the scratch workspace: {file: [error code + message @ item, ...]}"""
    t = time.time()
    p = subprocess.run(["cargo", "check", "--offline", "--workspace", "--keep-going", "--message-format=json", "--lib"], cwd=ws, env=core.clean_env(),
                       stdout=subprocess.PIPE, stderr=subprocess.PIPE, text=True, timeout=7200)
    errors = {}
    for line in p.stdout.splitlines():
        try:
            m = json.loads(line)
        except ValueError:
            continue
        if m.get("reason") != "compiler-message" or m["message"].get("level") != "error":
            continue
        msg = m["message"]
        code = (msg.get("code") or {}).get("code") or ""
        spans = [s for s in msg.get("spans", []) if s.get("is_primary")] or msg.get("spans", [])
        text = f"{code} {msg.get('message', '')}"[:300]
        for sp in spans[:1]:
            path = os.path.join(ws, sp["file_name"])
            if not os.path.exists(path):
                path = os.path.join(os.path.dirname(m.get("target", {}).get("src_path", "")), os.path.basename(sp["file_name"]))
            # the item the diagnostic is about: the line of the case file (one item per line)
            item = ""
            try:
                with open(path) as fh:
                    for n, line2 in enumerate(fh, 1):
                        if n == sp["line_start"]:
                            item = " ".join(line2.split())
                            break
            except OSError:
                pass
            errors.setdefault(os.path.basename(sp["file_name"]), []).append(text + " @ " + item[:40000])
    core.log(f"[cargo] check of the scratch workspace {time.time()-t:.1f}s rc={p.returncode}, {sum(len(v) for v in errors.values())} errors in {len(errors)} files")
    if p.returncode != 0 and not errors:
        core.log(p.stderr[-3000:])
        raise ToolError("cargo check failed without a diagnostic that names a file")
    return errors


CORPUS = os.path.join(core.REPO, "rasn-compiler-tests", "tests", "modules")
MAX_ISOLATED = {"quick": 24, "thorough": 96}


def drive_and_validate(run, sets, cfgs, pats, per_set, shards, corpus_stride=6, isolated=24, named=()):
    ws = run.path("crate")
    shutil.rmtree(ws, ignore_errors=True)
    main = os.path.join(ws, "main")
    os.makedirs(os.path.join(main, "src"))
    os.makedirs(os.path.join(ws, ".cargo"))
    os.makedirs(os.path.join(ws, "q"))
    open(os.path.join(ws, "Cargo.toml"), "w").write(WORKSPACE_TOML)
    open(os.path.join(main, "Cargo.toml"), "w").write(package_toml("c01main"))
    shutil.copy(os.path.join(core.REPO, "Cargo.lock"), os.path.join(ws, "Cargo.lock"))
    open(os.path.join(ws, ".cargo", "config.toml"), "w").write(f'[net]\noffline = true\n[build]\ntarget-dir = "{os.path.join(core.ROOT, "work", "target-probe")}"\n')
    paths = {k: run.path(k + ".ndjson") for k in ("sets", "cfgs", "patterns", "trace")}
    core.write_ndjson(paths["sets"], sets)
    core.write_ndjson(paths["cfgs"], cfgs)
    core.write_ndjson(paths["patterns"], pats)
    named_p = run.path("named.ndjson")
    core.write_ndjson(named_p, list(named))
    plan_p = run.path("plan.json")
    core.vharness(["c01", "--sets", paths["sets"], "--cfgs", paths["cfgs"], "--patterns", paths["patterns"], "--per-set", str(per_set),
                   "--crate", main, "--plan", plan_p, "--corpus", CORPUS, "--corpus-stride", str(corpus_stride), "--named", named_p], threads=12)
    plan = json.load(open(plan_p))
    known = [k for k in core.load_known() if k["property"] == "C01" and k["status"] == "known" and "signature" in k]
    sigs = [(k["deviation"], re.compile(k["signature"]["error"]), re.compile(k["signature"]["item"])) for k in known]
    # Findings whose derive output does not even parse stop rustc at the first such file.  Files that contain an item with
    # the shape of such a finding are kept out of the main crate; a sample of them is checked alone, one crate per file.
    fatal = [(k["deviation"], re.compile(k["signature"]["item"])) for k in known if k.get("stops_rustc")]
    quarantined, alone = {}, {}
    for e in plan:
        if not e["file"]:
            continue
        text = open(os.path.join(main, "src", e["file"])).read()
        hit = next((d for d, ir in fatal if any(ir.search(" ".join(l.split())) for l in text.split("\n"))), None)
        if hit:
            quarantined[e["file"]] = hit
    lib_path = os.path.join(main, "src", "lib.rs")

    def drop_from_main(files):
        keep, skip_next = [], False
        for ln in open(lib_path).read().split("\n"):
            if skip_next:
                skip_next = False
                continue
            m = re.match(r'#\[path = "(case_\d+\.rs)"\]', ln)
            if m and m.group(1) in files:
                skip_next = True
                continue
            keep.append(ln)
        open(lib_path, "w").write("\n".join(keep))

    drop_from_main(quarantined)
    for k, f in enumerate(sorted(quarantined)[:: max(1, len(quarantined) // isolated)][:isolated]):
        d = os.path.join(ws, "q", f"q{k}")
        os.makedirs(os.path.join(d, "src"))
        open(os.path.join(d, "Cargo.toml"), "w").write(package_toml(f"c01q{k}"))
        shutil.move(os.path.join(main, "src", f), os.path.join(d, "src", f))
        open(os.path.join(d, "src", "lib.rs"), "w").write(STUBS + f'#[path = "{f}"]\npub mod {f[:-3]};\n')
        alone[f] = d
    # the remaining files are dealt round-robin to CHUNKS crates, so that rustc runs in parallel and an error that
    # stops rustc hides the rest of one chunk only
    rest = [e["file"] for e in plan if e["file"] and e["file"] not in quarantined]
    os.makedirs(os.path.join(ws, "m"))
    chunk_of = {}
    for k in range(CHUNKS):
        mine = rest[k::CHUNKS]
        if not mine:
            continue
        d = os.path.join(ws, "m", f"m{k}")
        os.makedirs(os.path.join(d, "src"))
        open(os.path.join(d, "Cargo.toml"), "w").write(package_toml(f"c01m{k}"))
        for f in mine:
            shutil.move(os.path.join(main, "src", f), os.path.join(d, "src", f))
            chunk_of[f] = d
    open(lib_path, "w").write(STUBS)

    def write_chunk_libs(dropped):
        for k in range(CHUNKS):
            d = os.path.join(ws, "m", f"m{k}")
            if os.path.isdir(d):
                mine = [f for f in rest[k::CHUNKS] if f not in dropped]
                open(os.path.join(d, "src", "lib.rs"), "w").write(STUBS + "".join(f'#[path = "{f}"]\npub mod {f[:-3]};\n' for f in mine))

    # errors are collected until a round adds nothing (an unknown rustc-stopping error would hide the rest of its chunk)
    errors = {}
    write_chunk_libs(errors)
    for rnd in range(8):
        errs = cargo_check(ws)
        # an error reported against a crate root is attributed to the case whose module it names
        for f in [f for f in errs if not f.startswith("case_")]:
            for msg in errs.pop(f):
                names = set(re.findall(r"`(?:\w+::)*(\w+)::\w+`", msg))
                owners = [c for c, d in chunk_of.items() if c not in errors and any(re.search(rf"^pub mod {n} \{{", open(os.path.join(d, "src", c)).read(), re.M) for n in names)] if names else []
                if not owners:
                    raise ToolError(f"rustc reports an error outside the case files that names no case: {msg[:300]}")
                for c in owners[:1]:
                    errs.setdefault(c, []).append(msg)
        new = {f: v for f, v in errs.items() if f not in errors}
        errors.update(new)
        if not [f for f in new if f not in alone]:
            break
        write_chunk_libs(errors)
    else:
        raise ToolError("cargo check did not reach a fixpoint in 8 rounds")
    events = []
    for e in plan:
        errs = errors.get(e["file"], []) if e["file"] else []
        explained, failed_types, pending = set(), set(), []
        for m in errs:
            msg, _, item = m.partition(" @ ")
            hit = next((d for d, er, ir in sigs if er.search(msg) and ir.search(item)), None)
            if hit:
                explained.add(hit)
                failed_types.update(re.findall(r"pub (?:struct|enum) (\w+)", item))
            else:
                pending.append((msg, item))
        # follow-on errors: a type whose derive failed does not implement rasn's traits, and whatever contains it fails in turn
        changed = True
        while changed:
            changed = False
            for msg, item in list(pending):
                names = {x for q in re.findall(r"`([^`]*)`", msg) for x in re.findall(r"\w+", q)}
                if re.match(r"E0(277|599) ", msg) and names & failed_types:
                    pending.remove((msg, item))
                    failed_types.update(re.findall(r"pub (?:struct|enum) (\w+)", item))
                    changed = True
        e["submitted"] = bool(e["file"]) and (e["file"] not in quarantined or e["file"] in alone)
        e["quarantined_for"] = quarantined.get(e["file"], "")
        e["rustc_errors"] = [x[:500] for x in errs[:6]]
        e["rustc_error_count"] = len(errs)
        e["rustc_ok"] = not errs
        e["explained_by"] = sorted(explained)
        e["unexplained"] = [f"{m} @ {i}"[:600] for m, i in pending[:4]]
        events.append(e)
    core.write_ndjson(paths["trace"], events)
    consumed, verdicts = core.validate_trace("trace/Trace_C01.tla", trace_cfg(run), paths["trace"], shards=shards, timeout=3000)
    run.judge(events, verdicts, consumed)
    return events


def check(tier):
    run = Run("C01", tier)
    t = TIERS[tier]
    cfgs, pats = c19.model(run, t["maxalts"])
    sets = c02.generate(run, tier, **t["sim"])
    # imported names: every name shape (also the ones that look like a class reference) defined in one module, imported and used in another
    nc_cfg = run.path("MC_NestChains_imported.cfg")
    open(nc_cfg, "w").write("SPECIFICATION Spec\nCONSTANT MaxChain = 1\nINVARIANTS EmitImported\nCHECK_DEADLOCK FALSE\n")
    nc = core.tlc("mc/MC_NestChains.tla", nc_cfg, workers=1, timeout=600, xmx="4g")
    run.add_tlc(nc, "imported name shapes x outer kind (MC_NestChains EmitImported)")
    named = nc.printed("CASE")
    if len(named) != 36:
        raise ToolError(f"expected 36 imported-name tables, got {len(named)}")
    run.case_of = lambda ev: {"cfg": ev.get("cfg"), "input": ev.get("input"), "asn": ev.get("asn")}
    events = drive_and_validate(run, sets, cfgs, pats, t["per_set"], shards=2 if tier == "quick" else 8, corpus_stride=t["stride"], isolated=MAX_ISOLATED[tier], named=named)
    checked = [e for e in events if e["file"] and e["submitted"]]
    run.cov["not_submitted_shape_of_a_rustc_stopping_finding"] = len([e for e in events if e["file"] and not e["submitted"]])
    run.cov["evaluations"] = len(events)
    run.cov["type_checked"] = len(checked)
    run.cov["types_type_checked"] = sum(e["types"] for e in checked)
    run.cov["skipped_with_warnings_or_err"] = len([e for e in events if e["status"] != "ok"])
    run.cov["by_input"] = {k: len([e for e in checked if e["input"] == k]) for k in ("generated", "patterns", "widths", "corpus", "imported-names")}
    run.cov["distinct_nontrivial"] = len({(json.dumps(e["cfg"], sort_keys=True), e["asn"]) for e in checked})
    run.cov["exhaustive"] = False
    run.cov["rule"] = ("module sets from Notation.tla (TLC simulation), the CHOICE payload pattern module and an integer width boundary module are "
                       "compiled under configurations from Options.tla, stand-alone real-world modules of the repository under the default configuration; every warning-free output is written as one file of a scratch crate depending "
                       "on rasn 0.27 and lazy_static only, and `cargo check` decides; non-trivial = distinct (configuration, input) that was type-checked")
    run.cov["samples"] = [{"cfg": e["cfg"], "input": e["input"], "types": e["types"], "rustc_ok": e["rustc_ok"]} for e in checked[:: max(1, len(checked) // 5)][:5]]
    run.assumptions = ["rustc's verdict is attributed to a case by the file a diagnostic's primary span lies in",
                       "type_annotations that add derives (PartialOrd, Ord) are not type-checked: whether every generated type can derive a user-chosen trait is not the compiler's promise",
                       "custom imports are given as crate::verif_* paths that exist in the scratch crate"]
    return run.finish()


def replay(payload):
    print("configuration:", json.dumps((payload.get("case") or {}).get("cfg")))
    print((payload.get("case") or {}).get("asn", "")[:3000])
    print("rustc:", json.dumps((payload.get("event") or {}).get("rustc_errors")))
    return 1
