"""C06 -- integer width selection (spec/IntWidth.tla)."""
import json, os, random
from .. import core
from ..core import Run, ToolError


def drive_and_validate(run, cases, shards):
    cases_p, trace_p = run.path("cases.ndjson"), run.path("trace.ndjson")
    core.write_ndjson(cases_p, cases)
    core.vharness(["c06", "--cases", cases_p, "--trace", trace_p], threads=12)
    events = core.read_ndjson(trace_p)
    consumed, verdicts = core.validate_trace("trace/Trace_C06.tla", "trace/Trace_C06.cfg", trace_p, shards=shards)
    run.judge(events, verdicts, consumed)
    return events


def check(tier):
    run = Run("C06", tier)
    run.skip_key = ['lo', 'hi', 'lo2', 'hi2', 'op', 'ext', 'form', 'pos', 'val']
    res = core.tlc("mc/MC_C06.tla", "mc/MC_C06.cfg", workers=8, coverage=True, timeout=1200)
    core.check_coverage(res)
    run.add_tlc(res, "IntWidth exhaustive: 53 boundary points x ext x 6 positions x form x assigned value")
    cases = res.printed("CASE")
    if not cases:
        raise ToolError("model produced no cases")
    # random union / intersection / serial combinations of two ranges (TLC simulation mode)
    n = 1500 if tier == "quick" else 20000
    sim = core.tlc("mc/MC_C06.tla", "mc/MC_C06_sim.cfg", workers=4 if tier == "quick" else 16, simulate=f"num={n}", depth=10,
                   tlcseed=core.seed(), timeout=1800)
    seen, simcases = set(), []
    for c in sim.printed("CASE"):
        key = json.dumps(c, sort_keys=True)
        if key not in seen:
            seen.add(key)
            simcases.append(c)
    run.cov["simulated_set_operation_cases"] = len(simcases)
    n_exhaustive = len(cases)
    cases = cases + simcases
    # the exhaustive space is small (about 2*10^4 cases): both tiers replay all of it
    events = drive_and_validate(run, cases, shards=8 if tier == "quick" else 16)
    run.cov["evaluations"] = len(cases)
    run.cov["exhaustive_cases"] = n_exhaustive
    run.cov["distinct_nontrivial"] = len({e["asn"].split("::=", 1)[1] for e in events if e["status"] == "ok"})
    run.cov["exhaustive"] = True
    run.cov["rule"] = ("TLC enumerates every (lower, upper) pair with lower <= upper from the 53-point boundary set x extension "
                       "marker x position {assignment, component, SEQUENCE OF element, constrained reference, value assignment, "
                       "DEFAULT} x {range, single-value form} x assigned value {lower, upper} (exhaustive), plus TLC-simulated "
                       "union / intersection / serial combinations of two such ranges (seeded by VERIF_SEED); non-trivial = compiled Ok without "
                       "warning for the definition; distinct by rendered ASN.1")
    step = max(1, len(events) // 6)
    run.cov["samples"] = [{"asn": e["asn"], "observed_type": e["ty"], "literal_type": e["lit_ty"], "model_type": c["ty"]}
                          for e, c in list(zip(events, cases))[::step][:8]]
    run.cov["observed_type_histogram"] = {}
    for e in events:
        if e["status"] == "ok":
            run.cov["observed_type_histogram"][e["ty"]] = run.cov["observed_type_histogram"].get(e["ty"], 0) + 1
    run.assumptions = ["printer and syn-based projection of the harness are trusted",
                       "decimal literals of boundary points are materialised by the harness with i128 arithmetic",
                       "the narrowest type is not demanded, only a type that can hold every permitted value"]
    return run.finish()


def replay(payload):
    run = Run("C06", "quick")
    ev = payload["event"]
    case = {k: ev[k] for k in ("lo", "hi", "ext", "pos", "form", "val", "op", "lo2", "hi2")}
    events = drive_and_validate(run, [case], shards=1)
    print("input:   ", events[0]["asn"])
    print("observed:", {k: events[0][k] for k in ("status", "ty", "haslit", "lit_pt", "lit_ty")})
    for what, e in run.violations:
        print("MISMATCH:", what)
    return 1 if run.violations else 0
