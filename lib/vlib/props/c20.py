"""C20 -- compile() delivers exactly the compiled text, and nothing on failure (spec/Delivery.tla)."""
import json, os, shutil
from .. import core
from ..core import Run, ToolError
from . import c02

TIERS = {"quick": dict(n_macro=4, per_plan=2, sim=dict(num=30, workers=4, maxnodes=24, minnodes=10)),
         "thorough": dict(n_macro=24, per_plan=25, sim=dict(num=300, workers=16, maxnodes=40, minnodes=14))}


def trace_cfg(run):
    cfg = run.path("Trace_C20.cfg")
    open(cfg, "w").write("SPECIFICATION Spec\nPOSTCONDITION Accepted\nCHECK_DEADLOCK FALSE\n")
    return cfg


def model(run):
    res = core.tlc("mc/MC_C20.tla", "mc/MC_C20.cfg", workers=1, coverage=True, timeout=600, xmx="4g")
    core.check_coverage(res, ignore=("SkipUpToDate",))   # enabled only in the refuted design SkipWhenSame
    run.add_tlc(res, "Delivery.tla: compile() as internal_compile / open / write over every mode x destination state x input class")
    plans = res.printed("CASE")
    if len(plans) < 600:
        raise ToolError(f"expected 620 plans, got {len(plans)}")
    # the design without a flush before output_generated returns must be refuted: Ok although the unterminated last
    # line is still in the stream's buffer, lost on a full device or a broken pipe
    neg = core.tlc("mc/MC_C20.tla", "mc/MC_C20_noflush.cfg", workers=1, timeout=600, xmx="4g", expect_violation=True)
    run.cov["design_variant_refuted"] = {"no flush of standard output before compile() returns": neg.violated}
    # ... and the design that reports a failing formatter as Err after the text has been delivered
    neg3 = core.tlc("mc/MC_C20.tla", "mc/MC_C20_skipsame.cfg", workers=1, timeout=600, xmx="4g", expect_violation=True)
    run.cov.setdefault("negative_models_refuted", {})["delivery_skipped_when_destination_reads_as_the_text"] = neg3.violated
    neg = core.tlc("mc/MC_C20.tla", "mc/MC_C20_fmterr.cfg", workers=1, timeout=600, xmx="4g", expect_violation=True)
    run.cov["design_variant_refuted"]["a failing rustfmt reported as Err after delivery"] = neg.violated
    return plans


def builder_model(run, tier):
    cfg = run.path("MC_Builder.cfg")
    open(cfg, "w").write("SPECIFICATION Spec\nCONSTANTS\n  NSrc = 3\n  MaxCalls = %d\nINVARIANTS TypeOK SourcesAccumulate StateMeansWhatItSays "
                         "CompileHasEverything FoldAgrees Emit\nCHECK_DEADLOCK FALSE\n" % (4 if tier == "quick" else 5))
    res = core.tlc("mc/MC_Builder.tla", cfg, workers=1, coverage=True, timeout=900, xmx="4g")
    core.check_coverage(res)
    run.add_tlc(res, "Builder.tla: the typestate builder over every sequence of add_* / set_output calls for 3 sources")
    seen, cases = set(), []
    for c in res.printed("CASE"):
        k = json.dumps(c, sort_keys=True)
        if k not in seen:
            seen.add(k)
            cases.append(c)
    if len(cases) < 500:
        raise ToolError(f"builder model emitted only {len(cases)} call sequences")
    return cases


PROBE = core.PROBE


def macro_part(run, paths, n):
    """asn1!: one probe binary per snippet, expanded with rustc -Zunpretty=expanded (RUSTC_BOOTSTRAP), compared with the library's output"""
    import subprocess, time
    bins, manifest, expdir = os.path.join(PROBE, "src", "bin"), run.path("macro_manifest.json"), run.path("expanded")
    shutil.rmtree(expdir, ignore_errors=True)
    os.makedirs(expdir)
    core.cargo_build_probe()
    core.vharness(["c20macro-gen", "--sets", paths["sets"], "--n", str(n), "--bins", bins, "--manifest", manifest])
    env = core.clean_env()
    env["RUSTC_BOOTSTRAP"] = "1"
    t = time.time()
    for it in json.load(open(manifest)):
        p = subprocess.run(["cargo", "rustc", "--offline", "--bin", it["bin"], "--", "-Zunpretty=expanded"], cwd=PROBE, env=env,
                           stdout=subprocess.PIPE, stderr=subprocess.PIPE, text=True, timeout=1800)
        if p.returncode == 0:
            open(os.path.join(expdir, it["bin"] + ".expanded"), "w").write(p.stdout)
        elif "error: proc macro panicked" in p.stderr:
            open(os.path.join(expdir, it["bin"] + ".failed"), "w").write(p.stderr)
        elif "error" in p.stderr and "could not compile `vprobe`" in p.stderr:
            # asn1! expanded, a derive macro of rasn rejected the bindings (C01 decides about that): nothing to compare
            open(os.path.join(expdir, it["bin"] + ".derive"), "w").write(p.stderr)
        else:
            core.log(p.stderr[-3000:])
            raise ToolError("building the asn1! probe failed for a reason other than the macro")
    core.log(f"[cargo] {n} asn1! probes expanded in {time.time()-t:.1f}s")
    core.vharness(["c20macro-cmp", "--manifest", manifest, "--expanded", expdir, "--trace", paths["trace"]])
    for f in os.listdir(bins):
        if f.startswith("mac"):
            os.remove(os.path.join(bins, f))


def drive_and_validate(run, plans, sets, per_plan, shards, n_macro, builder_cases=()):
    cli = core.cargo_build_cli()
    paths = {k: run.path(k + ".ndjson") for k in ("plans", "sets", "trace")}
    core.write_ndjson(paths["plans"], plans)
    core.write_ndjson(paths["sets"], sets)
    scratch = run.path("fs")
    shutil.rmtree(scratch, ignore_errors=True)
    # the children run without root's permission override: the path down to the scratch area must be searchable
    core.vharness(["c20", "--cases", paths["plans"], "--sets", paths["sets"], "--per-plan", str(per_plan), "--dir", scratch, "--cli", cli,
                   "--trace", paths["trace"]], threads=12)
    shutil.rmtree(scratch, ignore_errors=True)
    macro_part(run, paths, n_macro)
    events = core.read_ndjson(paths["trace"])
    if builder_cases:
        bc, bt = run.path("builder_cases.ndjson"), run.path("builder_trace.ndjson")
        core.write_ndjson(bc, list(builder_cases))
        core.vharness(["c20builder", "--cases", bc, "--dir", scratch, "--trace", bt], threads=12)
        shutil.rmtree(scratch, ignore_errors=True)
        events += core.read_ndjson(bt)
        core.write_ndjson(paths["trace"], events)
    consumed, verdicts = core.validate_trace("trace/Trace_C20.tla", trace_cfg(run), paths["trace"], shards=shards, timeout=3000)
    run.judge(events, verdicts, consumed)
    return events


def check(tier):
    run = Run("C20", tier)
    t = TIERS[tier]
    plans = model(run)
    sets = c02.generate(run, tier, **t["sim"])
    run.case_of = lambda ev: {k: ev.get(k) for k in ("api", "backend", "srcform", "mode", "dest", "input", "fmt", "asn")}
    bcases = builder_model(run, tier)
    run.case_of = lambda ev: ({k: ev.get(k) for k in ("backend", "calls", "final", "out", "forms", "state")} if ev.get("ev") == "builder"
                              else {k: ev.get(k) for k in ("api", "backend", "srcform", "mode", "dest", "input", "fmt", "asn")})
    events = drive_and_validate(run, plans, sets, t["per_plan"], shards=2 if tier == "quick" else 8, n_macro=t["n_macro"], builder_cases=bcases)
    builders = [e for e in events if e["ev"] == "builder"]
    run.cov["builder_call_sequences"] = len(bcases)
    run.cov["builder_events"] = len(builders)
    run.cov["builder_by_final_state"] = {}
    for e in builders:
        k = e["state"] + "/" + e["final"]
        run.cov["builder_by_final_state"][k] = run.cov["builder_by_final_state"].get(k, 0) + 1
    macros = [e for e in events if e["ev"] == "macro"]
    events = [e for e in events if e["ev"] == "deliver"]
    run.cov["macro_expansions_compared"] = len([e for e in macros if e["expands"]])
    run.cov["macro_failures_expected_and_seen"] = len([e for e in macros if not e["expands"] and e["lib_status"] != "ok"])
    run.cov["evaluations"] = len(events) + len(macros) + len(builders)
    run.cov["plans"] = len(plans)
    run.cov["module_sets"] = len(sets)
    for k in ("api", "backend", "srcform", "mode", "dest", "input", "fmt", "result", "target_after", "stdout", "shape"):
        c = {}
        for e in events:
            c[e.get(k)] = c.get(e.get(k), 0) + 1
        run.cov["by_" + k] = c
    run.cov["distinct_nontrivial"] = len({(e["api"], e["backend"], e["srcform"], e["mode"], e["dest"], e["input"], e["asn"]) for e in events})
    run.cov["exhaustive"] = False
    run.cov["rule"] = ("TLC checks the delivery machine and emits every scenario (mode x destination state x input class x {library, CLI} x backend "
                       "x source form); each scenario is staged in a scratch directory for per_plan generated module sets and executed in a child "
                       "process (uid 65534 when the harness runs as root, so that read-only destinations are read-only); the file system is "
                       "snapshotted before and after; non-trivial = distinct (scenario, sources)")
    run.cov["samples"] = [{k: e.get(k) for k in ("api", "backend", "srcform", "mode", "dest", "input", "compiled", "result", "target_after", "stdout")} for e in events[:: max(1, len(events) // 5)][:5]]
    run.assumptions = ["contents are compared byte for byte with compile_to_string() on the same sources in the same process environment (no rustfmt on PATH variables)",
                       "for the CLI's recursive directory search the reference is the library on the same files in sorted order (output is grouped by module name)",
                       "an empty directory given to the CLI counts as failed compilation (the tool reports 'No modules')",
                       "asn1!: the expansion printed by rustc -Zunpretty=expanded (stable rustc with RUSTC_BOOTSTRAP=1) is compared item by item with the "
                       "library's output for the same snippet wrapped in an AUTOMATIC TAGS module; derive output is ignored"]
    return run.finish()


def replay(payload):
    return core.replay_by_rerun("C20", check, payload, keys=("api", "backend", "srcform", "mode", "dest", "input", "fmt", "asn"))
