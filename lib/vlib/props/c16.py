"""C16 -- generated identifiers (spec/Idents.tla)."""
import json, os, random
from .. import core
from ..core import Run, ToolError

MAXLEN = {"quick": 5, "thorough": 6}


def mc_cfg(run, maxlen):
    cfg = run.path("MC_C16.cfg")
    open(cfg, "w").write(f"SPECIFICATION Spec\nCONSTANTS\n  MaxLen = {maxlen}\n  Alphabet <- MCAlphabet\n  KeywordSample <- AllKeywords\n"
                         "INVARIANTS RefSatisfiable NameWF SitesAgreeCode Emit\nCHECK_DEADLOCK FALSE\n")
    return cfg


def trace_cfg(run):
    cfg = run.path("Trace_C16.cfg")
    known = ", ".join('"%s"' % d for d in sorted(run.known))
    open(cfg, "w").write("SPECIFICATION Spec\nCONSTANTS\n  MaxLen = 99\n  Alphabet = {}\n  KeywordSample = {}\n"
                         f"  KnownDevs = {{{known}}}\nPOSTCONDITION Accepted\nCHECK_DEADLOCK FALSE\n")
    return cfg


def long_names(n, rng):
    """24-character names from a seeded sample (letters, digits, single hyphens; digits next to case changes)"""
    out = []
    pool = "abxyzABXYZ019-"
    for _ in range(n):
        for role in ("module", "type", "component", "alternative", "enumeral", "value"):
            first = rng.choice("ABXYZ" if role in ("module", "type") else "abxyz")
            s = [first]
            while len(s) < 24:
                c = rng.choice(pool)
                if c == "-" and (s[-1] == "-" or len(s) == 23):
                    continue
                s.append(c)
            out.append({"name": s, "kw": "", "spell": "", "role": role})
    return out


def drive_and_validate(run, cases, shards):
    cases_p, trace_p = run.path("cases.ndjson"), run.path("trace.ndjson")
    core.write_ndjson(cases_p, cases)
    core.vharness(["c16", "--cases", cases_p, "--trace", trace_p], threads=12)
    events = core.read_ndjson(trace_p)
    consumed, verdicts = core.validate_trace("trace/Trace_C16.tla", trace_cfg(run), trace_p, shards=shards, timeout=3000)
    run.judge(events, verdicts, consumed)
    return events


def check(tier):
    run = Run("C16", tier)
    run.skip_key = ['name', 'kw', 'spell', 'role', 'variant']
    res = core.tlc("mc/MC_C16.tla", mc_cfg(run, MAXLEN[tier]), workers=8, coverage=True, timeout=3000, xmx="12g")
    # derived identifiers: definition and uses of a component's default function agree iff they start from the same name of the parent
    negd = core.tlc("mc/MC_C16.tla", "mc/MC_C16_defaultfn.cfg", workers=4, timeout=600, expect_violation=True)
    run.cov.setdefault("negative_models_refuted", {})["default_fn_named_from_two_spellings"] = negd.violated
    core.check_coverage(res)
    run.add_tlc(res, f"Idents: all names up to {MAXLEN[tier]} characters over {{a,b,A,B,1,-}} x roles, every keyword x spelling x role")
    cases = res.printed("CASE")
    rng = random.Random(core.seed())
    extra = long_names(50 if tier == "quick" else 2000, rng)
    run.cov["exhaustive_cases"] = len(cases)
    run.cov["sampled_long_names"] = len(extra)
    cases = cases + extra
    events = drive_and_validate(run, cases, shards=8 if tier == "quick" else 16)
    derived = [e for e in events if e["ev"] == "derived"]
    events = [e for e in events if e["ev"] == "ident"]
    run.cov["derived_identifier_cases"] = len(derived)
    run.cov["derived_identifiers_judged"] = sum(len(e["idents"]) for e in derived if e["status"] == "ok")
    run.cov["evaluations"] = len(cases) + len(derived)
    run.cov["distinct_nontrivial"] = len({(e["asn"], e["role"]) for e in events if e["status"] == "ok" and e["rust"] != e["asn"]})
    run.cov["exhaustive"] = True
    run.cov["rule"] = (f"TLC enumerates every legal ASN.1 name of up to {MAXLEN[tier]} characters over {{a,b,A,B,1,-}} in each role "
                       "{module, type, component, alternative, enumeral, value} and every Rust strict/reserved keyword (plus union, "
                       "macro_rules, gen) in lower/upper/title spelling in each role it can be written in; plus a seeded sample of "
                       "24-character names; non-trivial = compiled Ok and the Rust identifier differs from the ASN.1 name; distinct "
                       "by (name, role). For the roles type, component and alternative each name is also used as parent resp. member of an inline "
                       "SEQUENCE with a DEFAULT, compiled with generate_from_impls: every identifier of that output (inner type items, default "
                       "functions, From payload types) must be legal, and the inner item must carry the name. Named numbers and named bits "
                       "generate no identifier and are not covered.")
    step = max(1, len(events) // 8)
    run.cov["samples"] = [{"role": e["role"], "asn": e["asn"], "rust": e["rust"], "annotation": e["annot"], "status": e["status"]}
                          for e in events[::step][:10]]
    run.assumptions = ["keyword table: strict + reserved keywords of the Rust Reference up to edition 2021 (gen, reserved from edition "
                       "2024, is generated as a case but not demanded to be escaped)",
                       "syn's parser is the oracle for 'parses as Rust'", "printer and projection of the harness are trusted"]
    return run.finish()


def replay(payload):
    run = Run("C16", "quick")
    ev = payload["event"]
    case = {k: ev[k] for k in ("name", "kw", "spell", "role")}
    events = drive_and_validate(run, [case], shards=1)
    for e in events:
        print("input:   ", e["role"], e["asn"], "(derived identifiers)" if e["ev"] == "derived" else "")
        print("observed:", {k: e[k] for k in ("status", "rust", "has_annot", "annot", "parsed_ok", "detail", "idents", "inner", "src") if k in e})
    for what, x in run.violations:
        print("MISMATCH:", what)
    return 1 if run.violations else 0
