"""C11 -- the result is a deterministic function of the set of definitions (Pipeline.tla; Trace_C11)."""
import glob, json, os, random
from .. import core
from ..core import Run, ToolError
from . import c02, c10

SIM = {"quick": dict(num=60, workers=4, maxnodes=24, minnodes=8), "thorough": dict(num=600, workers=16, maxnodes=40, minnodes=10)}
NFILES = {"quick": 60, "thorough": 892}


def drive_and_validate(run, cases, files, shards):
    cases_p, trace_p, files_p = run.path("cases.ndjson"), run.path("trace.ndjson"), run.path("files.txt")
    core.write_ndjson(cases_p, cases)
    open(files_p, "w").write("\n".join(files) + "\n")
    core.vharness(["c11", "--cases", cases_p, "--trace", trace_p, "--files", files_p], threads=6, timeout=5000)
    events = core.read_ndjson(trace_p)
    # all events of one defset must be validated by the same TLC process: shard at defset changes
    state = {"last": None}

    def starts_group(line):
        d = json.loads(line)["defset"]
        new = d != state["last"]
        state["last"] = d
        return new
    cfg = run.path("Trace_C11.cfg")
    open(cfg, "w").write("SPECIFICATION Spec\nCONSTANT KnownDevs = {%s}\nPOSTCONDITION Accepted\nCHECK_DEADLOCK FALSE\n" % ", ".join('"%s"' % d for d in sorted(run.known)))
    consumed, verdicts = core.validate_trace("trace/Trace_C11.tla", cfg, trace_p, shards=shards, timeout=3000,
                                             group_start=lambda line: '"variant":"base' in line)
    run.judge(events, verdicts, consumed)
    return events


def headers_model(run):
    """spec/Headers.tla: parsed modules (units) with headers of their own, grouping by module name, the backend's environment.
    The code's design is order independent (C11) and applies every unit's own tagging default at lex time; what C12 demands of
    the generated environment in full is refuted for it (D_C12_same_name_env); the ideal design passes; one header per module
    name is refuted for C11."""
    res = core.tlc("mc/MC_Headers.tla", "mc/MC_Headers_code.cfg", workers=4, coverage=True, timeout=900, xmx="4g")
    core.check_coverage(res)
    run.add_tlc(res, "Headers.tla, the code's design (header per parsed module, environment of the group head): LexEnvIsOwn, GenEnvIsOwnIfDistinct, FoldAgrees, OrderIndependent, termination; 3 units x 2 names x 3 environments, every order")
    ideal = core.tlc("mc/MC_Headers.tla", "mc/MC_Headers_ideal.cfg", workers=4, timeout=900, xmx="4g")
    run.add_tlc(ideal, "Headers.tla, environment per definition: GenEnvIsOwn as well")
    for cfg in ("code_leak", "pername"):
        neg = core.tlc("mc/MC_Headers.tla", f"mc/MC_Headers_{cfg}.cfg", workers=2, timeout=900, xmx="4g", expect_violation=True)
        run.cov.setdefault("header_design_variants_refuted", {})[cfg] = neg.violated
    # spec/Histories.tla: where state that outlives a compilation may live; only "per_call" makes the output a function of the input
    h = core.tlc("Histories.tla", "mc/MC_Histories_per_call.cfg", workers=2, timeout=300)
    run.add_tlc(h, "Histories.tla: OutIsFunctionOfInput for every history of 3 compilations on 2 threads, resources built per call")
    for d in ("process_once", "thread_memo"):
        n = core.tlc("Histories.tla", f"mc/MC_Histories_{d}.cfg", workers=2, timeout=300, expect_violation=True)
        run.cov.setdefault("negative_models_refuted", {})[f"histories_{d}"] = n.violated
    # ... and repeating an input inside one process cannot show a write-once table: hence the fresh-process histories of the harness
    core.tlc("Histories.tla", "mc/MC_Histories_process_once_repeat.cfg", workers=2, timeout=300)


def check(tier):
    run = Run("C11", tier)
    headers_model(run)
    # design level: the output of the pipeline is a function of the input whatever the order of the
    # sources and of the generate steps (Pipeline!OutIsFunctionOfInput, all interleavings)
    res = core.tlc("mc/MC_Pipeline.tla", "mc/MC_Pipeline_ideal.cfg", workers=8, coverage=True, timeout=1800, xmx="8g")
    core.check_coverage(res)
    run.add_tlc(res, "Pipeline: OutIsFunctionOfInput over all hand-over orders and step interleavings")
    cases = c02.generate(run, tier, **SIM[tier])
    allfiles = sorted(glob.glob(os.path.join(core.REPO, "rasn-compiler-tests/tests/modules/*")))
    small = [f for f in allfiles if os.path.getsize(f) < 60000]
    random.Random(core.seed()).shuffle(small)
    files = small[:NFILES[tier]]
    run.case_of = lambda ev: None
    events = drive_and_validate(run, cases, files, shards=4 if tier == "quick" else 16)
    run.cov["evaluations"] = len(events)
    run.cov["definition_sets"] = len({e["defset"] for e in events})
    run.cov["real_world_files"] = len({e["defset"] for e in events if e["defset"].startswith("file:")})
    run.cov["distinct_nontrivial"] = len({e["defset"] for e in events if e["status"] == "ok"})
    run.cov["variants_per_kind"] = {}
    for e in events:
        k = e["variant"].split(" [")[0].split(" {")[0].rstrip("0123456789/, []")
        run.cov["variants_per_kind"][k] = run.cov["variants_per_kind"].get(k, 0) + 1
    run.cov["exhaustive"] = False
    run.cov["rule"] = ("definition sets: Notation module sets (TLC simulation, seeded) and real-world modules of the repository; each "
                       "is compiled repeatedly, with sources / modules / assignments permuted (every permutation for <= 4 units, else "
                       "reversal + random ones), on another thread, after another compilation, and 2..8 times concurrently; one event "
                       "per compilation; non-trivial = definition sets that compile Ok")
    run.cov["samples"] = [{"defset": e["defset"], "variant": e["variant"], "hash": e["hash"], "warnings": e["nwarnings"]} for e in events[:6]]
    run.assumptions = ["rustfmt is unreachable for the harness (CARGO_HOME/CARGO unset), so formatting is not an environmental variable",
                       "bindings are compared through a 64-bit SipHash with fixed keys plus the length",
                       "real-world files whose compilation panics are left to C08"]
    return run.finish()


def replay(payload):
    print("C11 replays by re-running the check with the same VERIF_SEED; event:", json.dumps(payload.get("event"))[:600])
    return 2
