"""C13 -- whitespace, line endings and comments between tokens (spec/Layout.tla)."""
import glob, json, os, random
from .. import core
from ..core import Run, ToolError
from . import c02

SIM = {"quick": dict(num=60, workers=4, maxnodes=26, minnodes=10), "thorough": dict(num=400, workers=16, maxnodes=40, minnodes=12)}
NFILES = {"quick": 12, "thorough": 120}


def trace_cfg(run):
    cfg = run.path("Trace_C13.cfg")
    known = ", ".join('"%s"' % d for d in sorted(run.known))
    open(cfg, "w").write(f"SPECIFICATION Spec\nCONSTANTS\n  MaxGap = 0\n  KnownDevs = {{{known}}}\nPOSTCONDITION Accepted\nCHECK_DEADLOCK FALSE\n")
    return cfg


def check(tier):
    run = Run("C13", tier)
    res = core.tlc("mc/MC_C13.tla", "mc/MC_C13.cfg", workers=8, coverage=True, timeout=1800, xmx="8g")
    core.check_coverage(res)
    run.add_tlc(res, "Layout: the comment scanner consumes every gap of the gap grammar up to 9 symbols (slashes and asterisks as body characters included: the overlaps /*/ **/ */* //*); plans = forms x token-class pairs; every complete gap is emitted")
    plans = res.printed("CASE")
    gaps = res.printed("GAP")
    if len(gaps) < 10000:
        raise ToolError(f"the gap grammar emitted only {len(gaps)} gaps")
    sets = c02.generate(run, tier, **SIM[tier])
    files = sorted(glob.glob(os.path.join(core.REPO, "rasn-compiler-tests/tests/modules/*")))
    files = [f for f in files if os.path.getsize(f) < 12000]
    random.Random(core.seed()).shuffle(files)
    files = files[:NFILES[tier]]
    # the notation snippets of harness/corpus (MACRO, CLASS / objects / sets, parameterization, constraints, CHOICE values, strings)
    snip_dir = run.path("snippets")
    os.makedirs(snip_dir, exist_ok=True)
    for i, sn in enumerate(core.read_ndjson(os.path.join(core.ROOT, "harness", "corpus", "c08_snippets.ndjson"))):
        f = os.path.join(snip_dir, f"snippet{i:02}.asn")
        open(f, "w").write(sn["text"])
        files.append(f)
    # names that differ from their Rust spelling carry an identifier annotation, which a leading comment must not change
    f = os.path.join(snip_dir, "hyphen-names.asn")
    open(f, "w").write("Hyphen-Names DEFINITIONS AUTOMATIC TAGS ::= BEGIN\nMy-Type ::= INTEGER\nRec-A ::= SEQUENCE { first-one My-Type, second-one BOOLEAN OPTIONAL }\n"
                       "Pick-B ::= CHOICE { alt-x NULL, alt-y Rec-A }\nmy-value My-Type ::= 5\nEND\n")
    files.append(f)
    # a module header with everything X.680 13.1 lets it have: encoding reference default, tag default, extension default, EXPORTS
    f = os.path.join(snip_dir, "full-header.asn")
    open(f, "w").write("Full-Header { iso(1) standard(0) 9999 } DEFINITIONS XER INSTRUCTIONS AUTOMATIC TAGS EXTENSIBILITY IMPLIED ::= BEGIN\nEXPORTS ALL;\n"
                       "Aa ::= INTEGER (0..7)\nBb ::= SEQUENCE { a Aa, b BOOLEAN DEFAULT TRUE }\nEND\n")
    files.append(f)
    plans_p, sets_p, files_p, trace_p = run.path("plans.ndjson"), run.path("sets.ndjson"), run.path("files.txt"), run.path("trace.ndjson")
    core.write_ndjson(plans_p, plans)
    core.write_ndjson(sets_p, sets)
    open(files_p, "w").write("\n".join(files) + "\n")
    gaps_p = run.path("gaps.ndjson")
    core.write_ndjson(gaps_p, gaps)
    core.vharness(["c13", "--cases", plans_p, "--inputs", sets_p, "--files", files_p, "--gaps", gaps_p, "--gaps-all-every", "50" if tier == "quick" else "5",
                   "--trace", trace_p], threads=12, timeout=5000)
    events = core.read_ndjson(trace_p)
    consumed, verdicts = core.validate_trace("trace/Trace_C13.tla", trace_cfg(run), trace_p, shards=4 if tier == "quick" else 16, timeout=3000)
    run.judge(events, verdicts, consumed)
    run.cov["evaluations"] = len(events)
    run.cov["plans"] = len(plans)
    run.cov["generated_gaps_replayed"] = len(gaps)
    run.cov["class_pairs_found"] = len({(e["cl"], e["cr"]) for e in events if e["mode"] == "single boundary"})
    run.cov["distinct_nontrivial"] = len({(e["form"], e["cl"], e["cr"], e["input"], e["mode"]) for e in events if e["mode"] != "no such boundary"})
    run.cov["per_mode"] = {}
    for e in events:
        m = e["mode"].split(" ")[0] + " " + e["mode"].split(" ")[1] if " " in e["mode"] else e["mode"]
        run.cov["per_mode"][m] = run.cov["per_mode"].get(m, 0) + 1
    run.cov["exhaustive"] = False
    run.cov["rule"] = ("plans from Layout.tla: every gap form x every pair of adjacent token classes (the empty gap only where the tokens "
                       "stay separable); for each plan up to 3 boundaries of that class pair in generated module sets are re-laid out "
                       "one at a time; in addition every boundary of an input at once with each form, and seeded random subsets with "
                       "random forms, on generated module sets and on real-world modules that compile; non-trivial = a boundary was "
                       "found and re-laid out")
    run.cov["samples"] = [{k: e[k] for k in ("mode", "form", "cl", "cr", "asn", "same")} for e in events if e["mode"] == "single boundary"][:6]
    run.assumptions = ["the harness tokenizer decides where the boundaries are; on a real-world file where the all-spaces relayout does not "
                       "reproduce the baseline every boundary that is sensitive to one space is reported (none on the reference tree over all "
                       "modules of the repository below 12 KB); '@.' of a component relation is one token",
                       "bindings are compared through the syn projection with doc attributes removed"]
    return run.finish()


def replay(payload):
    return core.replay_by_rerun("C13", check, payload, keys=("mode", "form", "cl", "cr", "input"))
