"""C17 -- syntax errors are reported at the malformed definition, consistently (spec/ErrorPos.tla)."""
import json, os
from .. import core
from ..core import Run, ToolError
from . import c02

SIM = {"quick": dict(num=30, workers=4, maxnodes=20, minnodes=8), "thorough": dict(num=200, workers=16, maxnodes=34, minnodes=10)}
DOCS = {"quick": 3, "thorough": 12}


def trace_cfg(run):
    cfg = run.path("Trace_C17.cfg")
    known = ", ".join('"%s"' % d for d in sorted(run.known))
    open(cfg, "w").write(f"SPECIFICATION Spec\nCONSTANTS\n  MaxDoc = 0\n  OffsetUnit = \"bytes\"\n  KnownDevs = {{{known}}}\nPOSTCONDITION Accepted\nCHECK_DEADLOCK FALSE\n")
    return cfg


def drive_and_validate(run, plans, sets, docs, shards):
    plans_p, sets_p, trace_p = run.path("plans.ndjson"), run.path("sets.ndjson"), run.path("trace.ndjson")
    core.write_ndjson(plans_p, plans)
    core.write_ndjson(sets_p, sets)
    core.vharness(["c17", "--cases", plans_p, "--inputs", sets_p, "--dir", run.path("files"), "--docs", str(docs), "--trace", trace_p], threads=12)
    events = core.read_ndjson(trace_p)
    consumed, verdicts = core.validate_trace("trace/Trace_C17.tla", trace_cfg(run), trace_p, shards=shards, timeout=3000)
    run.judge(events, verdicts, consumed)
    return events


def check(tier):
    run = Run("C17", tier)
    res = core.tlc("mc/MC_C17.tla", "mc/MC_C17.cfg", workers=8, coverage=True, timeout=1800, xmx="8g")
    core.check_coverage(res)
    run.add_tlc(res, "ErrorPos: offset = bytes consumed, line = 1 + #LF before offset for every document up to 6 symbols over {x, LF, CR, two-byte character} and every slicing; corruption plans")
    neg = core.tlc("mc/MC_C17.tla", "mc/MC_C17_chars.cfg", workers=4, expect_violation=True, timeout=600)
    run.cov["offset_counted_in_characters_refuted"] = neg.violated
    plans = res.printed("CASE")
    sets = c02.generate(run, tier, **SIM[tier])
    events = drive_and_validate(run, plans, sets, DOCS[tier], shards=4 if tier == "quick" else 16)
    lex = [e for e in events if e["status"] == "lexer"]
    run.cov["evaluations"] = len(events)
    run.cov["syntax_errors_judged"] = len(lex)
    run.cov["still_valid_after_corruption"] = len([e for e in events if e["status"] == "ok"])
    run.cov["contextualize_panics_seen"] = len([e for e in events if e.get("ctx_panicked")])
    run.cov["distinct_nontrivial"] = len({(e["asn"], e["is_file"]) for e in lex})
    run.cov["exhaustive"] = False
    run.cov["rule"] = ("plans from ErrorPos.tla: assignment index 0..5 x token index 0..7 x {delete, replace, insert} x inserted material "
                       "{a character that starts no token, a word, a closing brace} x {LF, CRLF} x {literal, file}; each plan is applied "
                       f"to {DOCS[tier]} generated documents (Notation.tla, with and without comments); non-trivial = the compiler "
                       "answered with a syntax error; distinct by corrupted text and source form")
    step = max(1, len(lex) // 6)
    run.cov["samples"] = [{k: e[k] for k in ("asn", "offset", "line", "lower", "upper", "display_line", "ctx_line", "is_file")} for e in lex[::step][:6]]
    run.assumptions = ["the lower bound is the first token of the corrupted assignment, or of the previous one when the edit hits the first "
                       "two tokens (the text may then continue the previous assignment); the upper bound is the inserted character that "
                       "starts no token, otherwise the end of the following assignment",
                       "a panic of contextualize is C08's subject and only counted here"]
    return run.finish()


def replay(payload):
    return core.replay_by_rerun("C17", check, payload, keys=("plan", "doc", "case"))
