"""C05 -- extension markers, additions, groups (spec/Ext.tla)."""
import json, os
from .. import core
from ..core import Run, ToolError
from . import compof

BOUNDS = {"quick": (3, 4, 2), "thorough": (4, 6, 3)}


def gen_cfg(run, b):
    cfg = run.path("MC_C05.cfg")
    open(cfg, "w").write(f"""SPECIFICATION Spec
CONSTANTS
  MaxRoot = {b[0]}
  MaxAdd = {b[1]}
  MaxGroups = {b[2]}
INVARIANTS TypeOK Partition AdditionsAfterMarker GroupsKept ChoiceHasNoGroupMembers FoldAgrees Emit EmitHeader
CHECK_DEADLOCK FALSE
""")
    return cfg


def drive_and_validate(run, cases, shards, extra=()):
    cases_p, trace_p = run.path("cases.ndjson"), run.path("trace.ndjson")
    core.write_ndjson(cases_p, cases)
    core.vharness(["c05", "--cases", cases_p, "--trace", trace_p] + list(extra), threads=12)
    events = core.read_ndjson(trace_p)
    consumed, verdicts = core.validate_trace("trace/Trace_C05.tla", "trace/Trace_C05.cfg", trace_p, shards=shards)
    run.judge(events, verdicts, consumed)
    return events


def check(tier):
    run = Run("C05", tier)
    run.skip_key = ['kind', 'implied', 'nested', 'layout', 'tags']
    b = BOUNDS[tier]
    res = core.tlc("mc/MC_C05.tla", gen_cfg(run, b), workers=8 if tier == "quick" else 16, coverage=True, timeout=3000, xmx="12g")
    core.check_coverage(res)
    run.add_tlc(res, f"Ext exhaustive MaxRoot={b[0]} MaxAdd={b[1]} MaxGroups={b[2]}")
    cases = res.printed("CASE")
    if not cases:
        raise ToolError("model produced no cases")
    # TLC emits the cases level by level, which groups them by module default; the driver compiles
    # them in batches of two modules (IMPLIED / not), so the order is shuffled (seeded) to make every
    # batch hold definitions for both modules
    import random
    random.Random(core.seed()).shuffle(cases)
    events = drive_and_validate(run, cases, shards=4 if tier == "quick" else 16)
    # COMPONENTS OF clauses in front of the marker (CompOf.tla): what they bring in is root, nothing is an addition
    co_cases, co_events = compof.family(run, tier, "extension")
    run.case_of = lambda ev: co_cases[ev["case"]] if ev.get("ev") == "compof2" and ev.get("case", -1) < len(co_cases) else None
    run.cov["evaluations"] = len(cases) + len(co_cases)
    run.cov["distinct_nontrivial"] = len({(e["asn"].split("::=", 1)[1], e["implied"]) for e in events
                                         if e["status"] == "ok" and any(x["t"] != "r" for x in e["layout"])})
    run.cov["exhaustive"] = True
    run.cov["rule"] = (f"TLC enumerates every component-list layout with <= {b[0]} root components, marker absent or at any position, "
                       f"<= {b[1]} components after the marker arranged as loose additions and <= {b[2]} version groups (with/without "
                       "version number) in every interleaving x {SEQUENCE, SET, CHOICE, ENUMERATED} x top-level/nested x "
                       "EXTENSIBILITY IMPLIED on/off; non-trivial = compiled Ok and the layout has a marker; distinct by ASN.1 text. Plus the cases of CompOf.tla: "
                       "SEQUENCEs whose components come from one or two COMPONENTS OF clauses (and inner clauses) in front of a marker: no addition, extensible iff marker")
    step = max(1, len(events) // 6)
    run.cov["samples"] = [{"asn": e["asn"], "implied": e["implied"], "status": e["status"], "observed_members": e["obs"],
                           "non_exhaustive": e["non_exhaustive"]} for e in events[::step][:8]]
    run.assumptions = ["printer and syn-based projection of the harness are trusted",
                       "for CHOICE, version brackets have no grouping effect (X.680): grouped alternatives must be plain additions",
                       "a compilation that answers Err or a warning is counted as skipped, not judged"]
    return run.finish()


def replay(payload):
    run = Run("C05", "quick")
    ev = payload["event"]
    if ev.get("ev") == "compof2":
        compof.replay_one(run, payload["case"], "extension")
        for what, e in run.violations:
            print("MISMATCH:", what)
        return 1 if run.violations else 0
    case = {k: ev[k] for k in ("kind", "implied", "nested", "layout", "tags") if k in ev}
    # the case is compiled next to a neighbour module with the opposite extensibility default,
    # once with each alphabetical order of the two module names (state leaking between modules)
    companion = dict(case, implied=not case["implied"])
    for flip in ("0", "1"):
        events = drive_and_validate(run, [case, companion], shards=1, extra=["--flip", flip])
        print("input:   ", events[0]["asn"], "(EXTENSIBILITY IMPLIED)" if ev["implied"] else "", "module order flip=" + flip)
        print("observed:", {k: events[0][k] for k in ("status", "non_exhaustive", "obs", "ir_ext", "detail")})
    for what, e in run.violations:
        print("MISMATCH:", what)
    return 1 if run.violations else 0
