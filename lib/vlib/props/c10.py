"""C10 -- no definition is lost silently; warnings are local (spec/Pipeline.tla, hooks)."""
import json, os
from .. import core
from ..core import Run, ToolError
from . import c02

SIM = {"quick": dict(num=150, workers=4, maxnodes=24, minnodes=8, maxfaults=3),
       "thorough": dict(num=1500, workers=16, maxnodes=40, minnodes=10, maxfaults=3)}

DEVMAP = {"D_C10_bare_name_map": "bare_name_map"}


def trace_cfg(run, pid="C10"):
    cfg = run.path("Trace_Pipeline.cfg")
    known = ", ".join('"%s"' % d for d in sorted(run.known))
    devs = ", ".join('"%s"' % DEVMAP[d] for d in sorted(run.known) if d in DEVMAP)
    open(cfg, "w").write("SPECIFICATION Spec\nCONSTANTS\n  Mods = {}\n  Names = {}\n  Envs = {}\n  DefaultEnv = \"none\"\n  MaxDefs = 0\n"
                         f"  Deviations = {{{devs}}}\n  KnownDevs = {{{known}}}\nPOSTCONDITION Accepted\nCHECK_DEADLOCK FALSE\n")
    return cfg


def model_check(run, tier):
    """the design: Pipeline satisfies the invariants; each deviation model is refuted. Returns the
    inputs of the bounded model (every module set with <= 2 definitions) as abstract cases."""
    res = core.tlc("mc/MC_Pipeline.tla", "mc/MC_Pipeline_emit.cfg", workers=8, coverage=True, timeout=1800, xmx="8g")
    core.check_coverage(res)
    run.add_tlc(res, "Pipeline ideal: NoSilentLoss, WarningLocal, EnvMatchesHeader, OutIsFunctionOfInput, termination; 2 modules x 2 names, <= 2 definitions")
    for cfg in ("bare", "leak"):
        neg = core.tlc("mc/MC_Pipeline.tla", f"mc/MC_Pipeline_{cfg}.cfg", workers=4, expect_violation=True, timeout=900)
        run.cov.setdefault("deviation_models_refuted", {})[cfg] = neg.violated
    seen, abstract = set(), []
    for c in res.printed("CASE"):
        key = json.dumps(c, sort_keys=True)
        if key not in seen:
            seen.add(key)
            abstract.append(c)
    return abstract


def drive_and_validate(run, cases, shards, mode="c10", prefix="C10:"):
    cases_p, trace_p = run.path("cases.ndjson"), run.path("trace.ndjson")
    core.write_ndjson(cases_p, cases)
    core.vharness(["pipe", "--mode", mode, "--cases", cases_p, "--trace", trace_p], threads=12)
    events = core.read_ndjson(trace_p)
    consumed, verdicts = core.validate_trace("trace/Trace_Pipeline.tla", trace_cfg(run), trace_p, shards=shards, timeout=3000,
                                             group_start=lambda line: '"ev":"input"' in line)
    # one trace specification serves C10 and C12: keep the verdicts of this property
    mine = [v for v in verdicts if v[1] != "MISMATCH" or v[2].startswith(prefix)]
    other = [v for v in verdicts if v[1] == "MISMATCH" and not v[2].startswith(prefix)]
    run.cov["verdicts_for_other_properties"] = len(other)
    run.judge(events, mine, consumed)
    return events


def err_carries_nothing(run, tier):
    """(c) "a failed compilation returns no bindings" where a call can deliver: compile() with a file / directory / standard
    output destination.  The scenarios of Delivery.tla in which the call must fail, or in which a formatter in reach fails,
    are staged by the C20 driver (library calls) and judged by Trace_C20: an Err leaves the destination as it was."""
    import shutil
    from . import c20
    plans = [p for p in c20.model(run) if p["api"] == "lib" and (p["input"] != "good" or p["fmt"] == "fails" or p["dest"] in ("readonly", "noparent", "stdout_full"))]
    sets = c02.generate(run, tier, tag="clean", num=4 if tier == "quick" else 30, maxnodes=20, minnodes=8, maxfaults=0)
    paths = {k: run.path("deliver_" + k + ".ndjson") for k in ("plans", "sets", "trace")}
    core.write_ndjson(paths["plans"], plans)
    core.write_ndjson(paths["sets"], sets)
    scratch = run.path("fs")
    shutil.rmtree(scratch, ignore_errors=True)
    core.vharness(["c20", "--cases", paths["plans"], "--sets", paths["sets"], "--per-plan", "1" if tier == "quick" else "4", "--dir", scratch,
                   "--cli", core.cargo_build_cli(), "--trace", paths["trace"]], threads=12)
    shutil.rmtree(scratch, ignore_errors=True)
    events = core.read_ndjson(paths["trace"])
    consumed, verdicts = core.validate_trace("trace/Trace_C20.tla", c20.trace_cfg(run), paths["trace"], shards=1 if tier == "quick" else 4, timeout=3000)
    keep = run.case_of
    run.case_of = lambda ev: {k: ev.get(k) for k in ("api", "backend", "srcform", "mode", "dest", "input", "fmt", "asn")}
    run.judge(events, verdicts, consumed)
    run.case_of = keep
    run.cov["failing_call_scenarios"] = len(plans)
    run.cov["failing_call_events"] = len(events)
    run.cov["failing_call_results"] = {}
    for e in events:
        k = f"{e.get('input')}/{e.get('fmt')}/{e.get('result')}"
        run.cov["failing_call_results"][k] = run.cov["failing_call_results"].get(k, 0) + 1


def check(tier):
    run = Run("C10", tier)
    abstract = model_check(run, tier)
    # (a) every input of the bounded design model, made concrete (exhaustive)
    run.case_of = lambda ev: abstract[ev["case"]] if "case" in ev and ev["case"] < len(abstract) else None
    ev_abs = drive_and_validate(run, abstract, shards=4 if tier == "quick" else 16, mode="abs")
    run.cov["abstract_inputs_replayed"] = len(abstract)
    # (b) generated module sets with injected faults
    cases = c02.generate(run, tier, **SIM[tier])
    run.case_of = lambda ev: cases[ev["case"]] if "case" in ev and ev["case"] < len(cases) else None
    events = drive_and_validate(run, cases, shards=4 if tier == "quick" else 16) + ev_abs
    err_carries_nothing(run, tier)
    ins = [e for e in events if e["ev"] == "input"]
    run.cov["evaluations"] = len(cases) + len(abstract)
    run.cov["hook_events"] = len([e for e in events if e["ev"] not in ("input", "return", "compare")])
    run.cov["compare_events"] = len([e for e in events if e["ev"] == "compare"])
    run.cov["compilations_per_backend"] = {b: len([e for e in ins if e.get("backend") == b]) for b in ("rasn", "typescript")}
    if not all(run.cov["compilations_per_backend"].values()):
        raise ToolError("a backend was not exercised")
    run.cov["distinct_nontrivial"] = len({e["asn"] for e in ins})
    run.cov["injected_faults"] = {}
    for e in ins:
        for m, ds in e["defs"].items():
            for d in ds:
                if d["injected"] != "none":
                    run.cov["injected_faults"][d["injected"]] = run.cov["injected_faults"].get(d["injected"], 0) + 1
    run.cov["exhaustive"] = False
    run.cov["rule"] = ("(a) every input of the bounded Pipeline model (2 modules x 2 names, <= 2 definitions, kinds type/value/class, "
                       "faults none/validator/generator, same names across modules, both hand-over orders), made concrete; (b) module sets from Notation.tla (TLC simulation, seeded) with 1..3 injected faults each (REAL / VideotexString / "
                       "inverted range / MACRO definitions, and a definition named like one of another module); each is compiled by both backends (rasn, TypeScript) with "
                       "the hooks recording and once more without the faults; non-trivial = distinct module-set text")
    run.cov["samples"] = [{"asn": e["asn"][:600]} for e in ins[:3]]
    run.assumptions = ["the hook events are emitted where Pipeline.tla has its actions (rasn-compiler/src/verif.rs, cfg rasn_verif)",
                       "the fault of a definition (validate/generate warning) is read from the hook events of the same run",
                       "compile_to_string(): a failed compilation returns no bindings by construction of the API (Result); compile(): the scenarios of "
                       "Delivery.tla in which the call must fail or a formatter in reach fails are staged on the file system (library calls) and an Err must "
                       "leave the destination as it was",
                       "generated items are attributed to definitions by name containment (names Ty<i>x are substring-free)"]
    return run.finish()


def replay(payload):
    run = Run("C10", "quick")
    case = payload.get("case")
    if case is None:
        print("replay file carries no case")
        return 2
    events = drive_and_validate(run, [case], shards=1)
    print(events[0]["asn"])
    for e in events[1:]:
        print("  ", {k: v for k, v in e.items() if k not in ("asn", "case", "seq", "hook")})
    for what, e in run.violations:
        print("MISMATCH:", what)
    return 1 if run.violations or run.deviations else 0
