//! small shared helpers: case/trace I/O, batching, parallel map
use serde_json::Value;
use std::io::{BufRead, Write};

pub fn read_ndjson(path: &str) -> Vec<Value> {
    let f = std::fs::File::open(path).unwrap_or_else(|e| panic!("open {path}: {e}"));
    std::io::BufReader::new(f)
        .lines()
        .map(|l| l.unwrap())
        .filter(|l| !l.trim().is_empty())
        .map(|l| serde_json::from_str(&l).unwrap_or_else(|e| panic!("bad json line {l}: {e}")))
        .collect()
}

pub fn write_ndjson(path: &str, events: &[Value]) {
    let f = std::fs::File::create(path).unwrap_or_else(|e| panic!("create {path}: {e}"));
    let mut w = std::io::BufWriter::new(f);
    for e in events {
        writeln!(w, "{}", serde_json::to_string(e).unwrap()).unwrap();
    }
}

/// order-preserving parallel map over chunks with big-stack worker threads
pub fn par_chunks<T: Sync, R: Send>(
    items: &[T],
    chunk: usize,
    threads: usize,
    f: impl Fn(usize, &[T]) -> Vec<R> + Sync,
) -> Vec<R> {
    let chunks: Vec<(usize, &[T])> = items.chunks(chunk.max(1)).enumerate().collect();
    let next = std::sync::atomic::AtomicUsize::new(0);
    let results: std::sync::Mutex<Vec<(usize, Vec<R>)>> = std::sync::Mutex::new(vec![]);
    std::thread::scope(|s| {
        for _ in 0..threads.max(1) {
            std::thread::Builder::new()
                .stack_size(256 * 1024 * 1024)
                .spawn_scoped(s, || loop {
                    let i = next.fetch_add(1, std::sync::atomic::Ordering::SeqCst);
                    if i >= chunks.len() {
                        break;
                    }
                    let (ci, c) = chunks[i];
                    let r = f(ci * chunk.max(1), c);
                    results.lock().unwrap().push((ci, r));
                })
                .unwrap();
        }
    });
    let mut r = results.into_inner().unwrap();
    r.sort_by_key(|(i, _)| *i);
    r.into_iter().flat_map(|(_, v)| v).collect()
}

pub fn threads() -> usize {
    std::env::var("VERIF_THREADS").ok().and_then(|s| s.parse().ok()).unwrap_or(8)
}

pub fn arg<'a>(args: &'a [String], name: &str) -> Option<&'a str> {
    args.iter().position(|a| a == name).and_then(|i| args.get(i + 1)).map(|s| s.as_str())
}

pub fn as_i64s(v: &Value) -> Vec<i64> {
    v.as_array().map(|a| a.iter().map(|x| x.as_i64().unwrap()).collect()).unwrap_or_default()
}
