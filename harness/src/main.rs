//! vharness: drives the real compiler on cases produced by TLC and records what it did
//! as an NDJSON trace that TLC validates against the specification.
mod drivers;
mod notation;
mod rsproj;
mod rseval;
mod rsvalue;
mod run;
mod tsproj;
mod util;

fn main() {
    let args: Vec<String> = std::env::args().collect();
    if args.len() < 2 {
        eprintln!("usage: vharness <command> [args]");
        std::process::exit(2);
    }
    let cmd = args[1].clone();
    let rest: Vec<String> = args[2..].to_vec();
    let code = run::with_big_stack(move || match cmd.as_str() {
        "compile" => drivers::misc::compile(&rest),
        "project" => drivers::misc::project(&rest),
        "ctx" => drivers::misc::ctx(&rest),
        "genstats" => drivers::misc::genstats(&rest),
        "c01" => drivers::c01::drive(&rest),
        "c02" => drivers::c02::drive(&rest),
        "c03" => drivers::c03::drive(&rest),
        "c03der" => drivers::c03::der_gen(&rest),
        "c04" => drivers::c04::drive(&rest),
        "c05" => drivers::c05::drive(&rest),
        "c06" => drivers::c06::drive(&rest),
        "c07" => drivers::c07::drive(&rest),
        "c08" => drivers::c08::drive(&rest),
        "c08worker" => drivers::c08::worker(&rest),
        "c09" => drivers::c09::drive(&rest),
        "c11" => drivers::c11::drive(&rest),
        "c11child" => drivers::c11::child(&rest),
        "c13" => drivers::c13::drive(&rest),
        "c13probe" => drivers::c13::probe(&rest),
        "c14" => drivers::c14::drive(&rest),
        "c17" => drivers::c17::drive(&rest),
        "c18" => drivers::c18::drive(&rest),
        "c19" => drivers::c19::drive(&rest),
        "c20" => drivers::c20::drive(&rest),
        "c20child" => drivers::c20::child(&rest),
        "c20builder" => drivers::c20::builder(&rest),
        "c20macro-gen" => drivers::c20::macro_gen(&rest),
        "c20macro-cmp" => drivers::c20::macro_cmp(&rest),
        "pipe" => drivers::pipe::drive(&rest),
        "c15" => drivers::c15::drive(&rest),
        "c16" => drivers::c16::drive(&rest),
        "cstr" => drivers::cstr::drive(&rest),
        other => {
            eprintln!("unknown command {other}");
            2
        }
    });
    std::process::exit(code);
}
