//! Synthesis of one Rust value expression for a generated type, from the projected items: used by
//! probes that encode values with the real rasn crate (C03 DER probe).  The expression is built
//! from the item graph only; it is compiled and run, never interpreted here.
use crate::rsproj::{RCrate, RItem};

fn split_generic(ty: &str) -> Option<(&str, &str)> {
    let open = ty.find('<')?;
    if !ty.ends_with('>') {
        return None;
    }
    Some((&ty[..open], &ty[open + 1..ty.len() - 1]))
}

fn item<'a>(krate: &'a RCrate, name: &str) -> Option<&'a RItem> {
    krate.all_items().find(|i| i.name == name && matches!(i.kind.as_str(), "struct" | "tuple_struct" | "unit_struct" | "enum"))
}

/// an expression of type `ty` (a normalised type string of the projection), or None if a part of
/// the type is not understood
pub fn build(krate: &RCrate, ty: &str, depth: usize) -> Option<String> {
    if depth > 12 {
        return None;
    }
    let ty = ty.trim();
    match ty {
        "Integer" => return Some("Integer::from(5)".into()),
        "bool" => return Some("true".into()),
        "()" => return Some("()".into()),
        "Any" => return Some("Any::new(alloc::vec![5u8, 0u8])".into()),
        "u8" | "u16" | "u32" | "u64" | "i8" | "i16" | "i32" | "i64" => return Some("5".into()),
        "OctetString" => return Some("OctetString::from_static(&[1, 2])".into()),
        "BitString" => return Some("[true, false].into_iter().collect::<BitString>()".into()),
        "Utf8String" => return Some("Utf8String::from(\"a\")".into()),
        "ObjectIdentifier" => return Some("Oid::const_new(&[1, 2, 3]).to_owned()".into()),
        _ => (),
    }
    if let Some((outer, inner)) = split_generic(ty) {
        return match outer {
            "Option" => build(krate, inner, depth + 1).map(|v| format!("Some({v})")),
            "Box" => build(krate, inner, depth + 1).map(|v| format!("Box::new({v})")),
            "SequenceOf" | "Vec" => build(krate, inner, depth + 1).map(|v| format!("alloc::vec![{v}]")),
            "SetOf" => build(krate, inner, depth + 1).map(|v| format!("SetOf::from_vec(alloc::vec![{v}])")),
            _ => None,
        };
    }
    let it = item(krate, ty)?;
    match it.kind.as_str() {
        "tuple_struct" => build(krate, &it.fields.first()?.ty, depth + 1).map(|v| format!("{ty}({v})")),
        "unit_struct" => Some(ty.to_string()),
        "struct" => {
            let args: Option<Vec<String>> = it.fields.iter().map(|f| build(krate, &f.ty, depth + 1)).collect();
            Some(format!("{ty}::new({})", args?.join(", ")))
        }
        "enum" => {
            let v = it.variants.first()?;
            match &v.ty {
                Some(t) => build(krate, t, depth + 1).map(|x| format!("{ty}::{}({x})", v.name)),
                None => Some(format!("{ty}::{}", v.name)),
            }
        }
        _ => None,
    }
}
