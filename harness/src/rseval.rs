//! Symbolic evaluation of the initialiser expressions the rasn backend generates, to the abstract
//! values of spec/Values.tla.  Anything it does not understand becomes {"k":"unknown"}; it never
//! guesses.
use crate::rsproj::{RCrate, RItem};
use serde_json::{json, Value};
use syn::{Expr, Lit, UnOp};

pub struct Ctx<'a> {
    pub krate: &'a RCrate,
    depth: usize,
}

fn unknown(what: &str, e: &impl quote::ToTokens) -> Value {
    json!({"k": "unknown", "v": format!("{what}: {}", crate::rsproj::norm_tokens(e)).chars().take(200).collect::<String>()})
}

/// (name, type, value expression, form) of a const / static / lazy_static! item
pub fn value_parts(it: &RItem) -> Option<(String, String, String)> {
    match it.kind.as_str() {
        "const" => Some((it.name.clone(), it.ty.clone(), it.expr.clone())),
        "static" => {
            if it.ty.starts_with("LazyLock<") && it.expr.starts_with("LazyLock::new(||") {
                Some((it.name.clone(), it.ty["LazyLock<".len()..it.ty.len() - 1].to_string(), it.expr["LazyLock::new(||".len()..it.expr.len() - 1].to_string()))
            } else {
                Some((it.name.clone(), it.ty.clone(), it.expr.clone()))
            }
        }
        _ => None,
    }
}

fn asn_name(attrs: &crate::rsproj::Attrs, rust: &str) -> String {
    attrs.nv("identifier").unwrap_or_else(|| rust.to_string())
}

impl<'a> Ctx<'a> {
    pub fn new(krate: &'a RCrate) -> Self {
        Ctx { krate, depth: 0 }
    }

    fn item(&self, name: &str) -> Option<&'a RItem> {
        self.krate.all_items().find(|i| i.name == name && matches!(i.kind.as_str(), "struct" | "tuple_struct" | "unit_struct" | "enum"))
    }

    fn value_of(&mut self, name: &str) -> Option<Value> {
        let it = self.krate.all_items().find(|i| i.name == name && matches!(i.kind.as_str(), "const" | "static"))?;
        let (_, _, expr) = value_parts(it)?;
        Some(self.eval_str(&expr))
    }

    pub fn eval_str(&mut self, s: &str) -> Value {
        match syn::parse_str::<Expr>(s) {
            Ok(e) => self.eval(&e),
            Err(_) => json!({"k": "unknown", "v": format!("unparsable: {}", s.chars().take(160).collect::<String>())}),
        }
    }

    /// the value a `fn name() -> T { ... }` returns
    pub fn eval_fn(&mut self, name: &str) -> Option<Value> {
        let f = self.krate.all_items().find(|i| i.kind == "fn" && i.name == name)?;
        Some(self.eval_str(&f.expr))
    }

    fn ints(&mut self, e: &Expr) -> Option<Vec<String>> {
        // &[1u32, 2u32] | [..] | &***NAME
        match e {
            Expr::Reference(r) => self.ints(&r.expr),
            Expr::Paren(p) => self.ints(&p.expr),
            Expr::Unary(u) if matches!(u.op, UnOp::Deref(_)) => self.ints(&u.expr),
            Expr::Array(a) => a.elems.iter().map(|x| match self.eval(x) {
                Value::Object(o) if o.get("k") == Some(&json!("int")) => o.get("v").and_then(|v| v.as_str()).map(|s| s.to_string()),
                _ => None,
            }).collect(),
            Expr::Path(p) => {
                let name = p.path.segments.last()?.ident.to_string();
                let v = self.value_of(&name)?;
                if v["k"] == "oid" { Some(v["v"].as_array()?.iter().map(|x| x.as_str().unwrap_or("").to_string()).collect()) } else { None }
            }
            _ => None,
        }
    }

    pub fn eval(&mut self, e: &Expr) -> Value {
        self.depth += 1;
        if self.depth > 64 {
            self.depth -= 1;
            return json!({"k": "unknown", "v": "evaluation too deep"});
        }
        let r = self.eval_inner(e);
        self.depth -= 1;
        r
    }

    fn eval_inner(&mut self, e: &Expr) -> Value {
        match e {
            Expr::Lit(l) => match &l.lit {
                Lit::Int(i) => json!({"k": "int", "v": i.base10_digits().trim_start_matches('+').to_string()}),
                Lit::Bool(b) => json!({"k": "bool", "v": b.value}),
                Lit::Str(s) => json!({"k": "str", "v": s.value().chars().map(|c| c.to_string()).collect::<Vec<_>>()}),
                other => unknown("literal", other),
            },
            Expr::Unary(u) => match u.op {
                UnOp::Neg(_) => {
                    let v = self.eval(&u.expr);
                    match v["v"].as_str() {
                        Some(d) if v["k"] == "int" => {
                            let neg = if d == "0" { "0".to_string() } else if let Some(p) = d.strip_prefix('-') { p.to_string() } else { format!("-{d}") };
                            json!({"k": "int", "v": neg})
                        }
                        _ => unknown("negation", e),
                    }
                }
                UnOp::Deref(_) => self.eval(&u.expr),
                _ => unknown("unary", e),
            },
            Expr::Paren(p) => self.eval(&p.expr),
            Expr::Group(g) => self.eval(&g.expr),
            Expr::Reference(r) => self.eval(&r.expr),
            Expr::Block(b) if b.block.stmts.len() == 1 => match &b.block.stmts[0] {
                syn::Stmt::Expr(x, None) => self.eval(x),
                _ => unknown("block", e),
            },
            Expr::Tuple(t) if t.elems.is_empty() => json!({"k": "null"}),
            Expr::Array(a) => {
                let items: Vec<Value> = a.elems.iter().map(|x| self.eval(x)).collect();
                json!({"k": "array", "v": items})
            }
            Expr::Macro(m) if m.mac.path.segments.last().map(|s| s.ident == "vec").unwrap_or(false) => {
                match m.mac.parse_body_with(syn::punctuated::Punctuated::<Expr, syn::Token![,]>::parse_terminated) {
                    Ok(items) => json!({"k": "seqof", "v": items.iter().map(|x| self.eval(x)).collect::<Vec<_>>()}),
                    Err(_) => unknown("vec!", e),
                }
            }
            Expr::MethodCall(m) => {
                let name = m.method.to_string();
                match name.as_str() {
                    "unwrap" | "to_owned" | "to_string" | "into" | "clone" | "into_iter" | "iter" | "to_vec" => self.eval(&m.receiver),
                    "collect" => {
                        // [true, false].into_iter().collect()  -> a bit string
                        let inner = self.eval(&m.receiver);
                        match inner["v"].as_array() {
                            Some(items) if inner["k"] == "array" && items.iter().all(|x| x["k"] == "bool") => {
                                json!({"k": "bits", "v": items.iter().map(|x| if x["v"] == true { 1 } else { 0 }).collect::<Vec<_>>()})
                            }
                            _ => unknown("collect", e),
                        }
                    }
                    "concat" => {
                        // [&***PREFIX, &[1u32]].concat()
                        if let Expr::Array(a) = strip_ref(&m.receiver) {
                            let mut all = vec![];
                            for part in &a.elems {
                                match self.ints(part) {
                                    Some(mut v) => all.append(&mut v),
                                    None => return unknown("concat part", part),
                                }
                            }
                            json!({"k": "oid", "v": all})
                        } else {
                            unknown("concat", e)
                        }
                    }
                    _ => unknown("method", e),
                }
            }
            Expr::Call(c) => self.eval_call(c, e),
            Expr::Path(p) => {
                let segs: Vec<String> = p.path.segments.iter().map(|s| s.ident.to_string()).collect();
                match segs.as_slice() {
                    [one] if one == "None" => json!({"k": "absent"}),
                    [one] => self.value_of(one).unwrap_or_else(|| unknown("name", e)),
                    [ty, variant] => match self.item(ty) {
                        Some(it) if it.kind == "enum" => match it.variants.iter().find(|v| &v.name == variant) {
                            Some(v) => json!({"k": "enum", "v": asn_name(&v.attrs, &v.name)}),
                            None => unknown("no such variant", e),
                        },
                        _ => unknown("path", e),
                    },
                    _ => unknown("path", e),
                }
            }
            _ => unknown("expression", e),
        }
    }

    fn eval_call(&mut self, c: &syn::ExprCall, whole: &Expr) -> Value {
        let args: Vec<&Expr> = c.args.iter().collect();
        let Expr::Path(f) = &*c.func else { return unknown("call", whole) };
        // <OctetString as From<&'static [u8]>>::from(&[..])
        if let Some(q) = &f.qself {
            let ty = crate::rsproj::norm_tokens(&q.ty);
            if ty == "OctetString" && args.len() == 1 {
                return match self.ints(args[0]) {
                    Some(v) => json!({"k": "octets", "v": v.iter().map(|s| s.parse::<i64>().unwrap_or(-1)).collect::<Vec<_>>()}),
                    None => unknown("octets", whole),
                };
            }
            return unknown("qualified call", whole);
        }
        let segs: Vec<String> = f.path.segments.iter().map(|s| s.ident.to_string()).collect();
        let segs_ref: Vec<&str> = segs.iter().map(|s| s.as_str()).collect();
        match (segs_ref.as_slice(), args.as_slice()) {
            (["Some"], [x]) | (["Box", "new"], [x]) => self.eval(x),
            (["Integer", "from"], [x]) | (["String", "from"], [x]) => self.eval(x),
            // string constructors of types that are not generated items: X::from(..), X::try_from(..), X::new(..)
            ([ty, "try_from"], [x]) | ([ty, "from"], [x]) | ([ty, "new"], [x]) if self.item(ty).is_none() && ty.ends_with("String") => {
                let v = self.eval(x);
                if v["k"] == "str" { v } else { unknown("string constructor", whole) }
            }
            (["Oid", "const_new"], [x]) | (["Oid", "new"], [x]) => match strip_ref(x) {
                Expr::MethodCall(_) => self.eval(x),
                other => match self.ints(other) {
                    Some(v) => json!({"k": "oid", "v": v}),
                    None => unknown("oid", whole),
                },
            },
            // delegate newtype: transparent
            ([ty], [x]) if self.item(ty).map(|i| i.kind == "tuple_struct").unwrap_or(false) => self.eval(x),
            // SEQUENCE / SET: positional constructor
            ([ty, "new"], _) if self.item(ty).map(|i| i.kind == "struct").unwrap_or(false) => {
                let it = self.item(ty).unwrap();
                if it.fields.len() != args.len() {
                    return unknown("constructor arity", whole);
                }
                // the argument for an Option<_> field is Some(..) or None; anything else is not an expression of that type
                for (f, a) in it.fields.iter().zip(args.iter()) {
                    if f.ty.replace(' ', "").starts_with("Option<") {
                        let ok = match strip_ref(a) {
                            Expr::Call(c) => matches!(&*c.func, Expr::Path(p) if p.path.segments.last().map(|s| s.ident == "Some").unwrap_or(false)),
                            Expr::Path(p) => p.path.segments.last().map(|s| s.ident == "None").unwrap_or(false),
                            _ => false,
                        };
                        if !ok {
                            return unknown(&format!("optional component {} given a bare value", asn_name(&f.attrs, &f.name)), whole);
                        }
                    }
                }
                let fields: Vec<Value> = it.fields.iter().zip(args.iter()).map(|(f, a)| json!({"n": asn_name(&f.attrs, &f.name), "v": self.eval(a)})).collect();
                json!({"k": "seq", "v": fields})
            }
            // CHOICE alternative
            ([ty, variant], [x]) if self.item(ty).map(|i| i.kind == "enum").unwrap_or(false) => {
                let it = self.item(ty).unwrap();
                match it.variants.iter().find(|v| &v.name == variant) {
                    Some(v) => json!({"k": "choice", "alt": asn_name(&v.attrs, &v.name), "v": self.eval(x)}),
                    None => unknown("no such alternative", whole),
                }
            }
            // a default function called for an omitted component
            ([name], []) => self.eval_fn(name).unwrap_or_else(|| unknown("function", whole)),
            _ => unknown("call", whole),
        }
    }
}

fn strip_ref(e: &Expr) -> &Expr {
    match e {
        Expr::Reference(r) => strip_ref(&r.expr),
        Expr::Paren(p) => strip_ref(&p.expr),
        _ => e,
    }
}
