//! C13 driver: the gap between two tokens is replaced by another gap form; outcome and bindings
//! (apart from doc attributes) must not change.
use crate::notation::Table;
use crate::{rsproj, run, util};
use rand::prelude::*;
use serde_json::{json, Value};

#[derive(Debug, Clone)]
pub struct Tok {
    pub start: usize,
    pub end: usize,
    pub class: &'static str,
}

/// ASN.1 tokens with byte spans; white space and comments are not tokens (they are the gaps)
pub fn tokenize(s: &str) -> Vec<Tok> {
    let b = s.as_bytes();
    let mut i = 0;
    let mut out = vec![];
    let is_word = |c: u8| c.is_ascii_alphanumeric();
    while i < b.len() {
        let c = b[i];
        if c.is_ascii_whitespace() {
            i += 1;
            continue;
        }
        if c == b'-' && i + 1 < b.len() && b[i + 1] == b'-' {
            // line / inline comment
            i += 2;
            while i < b.len() {
                if b[i] == b'\n' {
                    i += 1;
                    break;
                }
                if b[i] == b'-' && i + 1 < b.len() && b[i + 1] == b'-' {
                    i += 2;
                    break;
                }
                i += 1;
            }
            continue;
        }
        if c == b'/' && i + 1 < b.len() && b[i + 1] == b'*' {
            let mut depth = 1;
            i += 2;
            while i < b.len() && depth > 0 {
                if b[i] == b'/' && i + 1 < b.len() && b[i + 1] == b'*' {
                    depth += 1;
                    i += 2;
                } else if b[i] == b'*' && i + 1 < b.len() && b[i + 1] == b'/' {
                    depth -= 1;
                    i += 2;
                } else {
                    i += 1;
                }
            }
            continue;
        }
        let start = i;
        let class: &'static str;
        if c == b'"' {
            i += 1;
            loop {
                if i >= b.len() {
                    break;
                }
                if b[i] == b'"' {
                    if i + 1 < b.len() && b[i + 1] == b'"' {
                        i += 2;
                        continue;
                    }
                    i += 1;
                    break;
                }
                i += 1;
            }
            class = "string";
        } else if c == b'\'' {
            i += 1;
            while i < b.len() && b[i] != b'\'' {
                i += 1;
            }
            i += 1;
            if i < b.len() && (b[i] == b'B' || b[i] == b'H') {
                i += 1;
            }
            class = "string";
        } else if c.is_ascii_alphabetic() || c == b'&' {
            i += 1;
            while i < b.len() && (is_word(b[i]) || (b[i] == b'-' && i + 1 < b.len() && is_word(b[i + 1]))) {
                i += 1;
            }
            class = "word";
        } else if c.is_ascii_digit() || (c == b'-' && i + 1 < b.len() && b[i + 1].is_ascii_digit()) {
            i += 1;
            while i < b.len() && b[i].is_ascii_digit() {
                i += 1;
            }
            // X.680 12.9 "realnumber": an optional fraction (not the first dot of a range) and an optional exponent belong
            // to the same lexical item
            if i + 1 < b.len() && b[i] == b'.' && b[i + 1].is_ascii_digit() {
                i += 1;
                while i < b.len() && b[i].is_ascii_digit() {
                    i += 1;
                }
            }
            if i + 1 < b.len() && (b[i] == b'e' || b[i] == b'E') && (b[i + 1].is_ascii_digit() || (b[i + 1] == b'-' && i + 2 < b.len() && b[i + 2].is_ascii_digit())) {
                i += 2;
                while i < b.len() && b[i].is_ascii_digit() {
                    i += 1;
                }
            }
            class = "number";
        } else if s[i..].starts_with("::=") {
            i += 3;
            class = "assign";
        } else if s[i..].starts_with("...") {
            i += 3;
            class = "ellipsis";
        } else if s[i..].starts_with("..") {
            i += 2;
            class = "range";
        } else if s[i..].starts_with("[[") || s[i..].starts_with("]]") {
            i += 2;
            class = "other";
        } else {
            class = match c {
                b'{' => "lbrace",
                b'}' => "rbrace",
                b'(' => "lparen",
                b')' => "rparen",
                b',' => "comma",
                b';' => "semicolon",
                b'[' => "lbrack",
                b']' => "rbrack",
                b'|' => "pipe",
                _ => "other",
            };
            // a multi-byte character is one token
            i += s[i..].chars().next().map(|ch| ch.len_utf8()).unwrap_or(1);
            // X.682 writes the level prefix of a component relation as "@." / "@.."; whether white space may separate "@" from
            // the dots is not claimed: they stay one token
            if c == b'@' {
                while i < b.len() && b[i] == b'.' {
                    i += 1;
                }
            }
        }
        out.push(Tok { start, end: i.min(b.len()), class });
    }
    out
}

pub fn form_text(form: &str) -> &'static str {
    match form {
        "SP" => " ",
        "TAB" => "\t",
        "LF" => "\n",
        "CRLF" => "\r\n",
        "NONE" => "",
        "LINE" => " -- a comment\n",
        "LINE_NOSPACE" => "--c\n",
        "INLINE" => " -- inline comment -- ",
        "INLINE_TIGHT" => "--c--",
        "BLOCK" => " /* a block */ ",
        "BLOCK_TIGHT" => "/*c*/",
        "NESTED" => "/*a/*b*/c*/",
        "NESTED_SLASH" => "/*a/*/b*/c*/",
        "LINE_ANON" => " -- Anonymous placeholder\n",
        "LINE_HYPHEN_END" => " -- sign is + or -\n",
        "INLINE_INNER" => "-- Inner type --",
        "BLOCK_STARS" => "/**c**/",
        "NESTED_STAR" => "/*a/*b*/*c*/",
        "BLOCK_QUOTES" => " /* \"quoted\" { braces } 'x' */ ",
        "LINE_KEYWORDS" => " -- END BEGIN ::= SEQUENCE\n",
        "BLOCK_NONASCII" => " /* Grüße – 日本語 */ ",
        _ => "\n -- c\n/*d*/ ",
    }
}

/// the text with the gaps after the given token indices replaced
pub fn relayout(s: &str, toks: &[Tok], gaps: &[(usize, &str)]) -> String {
    let mut out = String::new();
    let mut pos = 0;
    for (ti, t) in toks.iter().enumerate() {
        out.push_str(&s[pos..t.end]);
        pos = t.end;
        if ti + 1 < toks.len() {
            if let Some((_, g)) = gaps.iter().find(|(i, _)| *i == ti) {
                out.push_str(g);
                pos = toks[ti + 1].start;
            }
        }
    }
    out.push_str(&s[pos..]);
    out
}

/// status + bindings without doc attributes
pub fn observe(text: &str) -> (String, String) {
    let (o, _) = run::compile_rasn1(text);
    if o.status != "ok" {
        return (o.status.clone(), String::new());
    }
    let mut k = rsproj::project(&o.generated);
    for m in k.modules.iter_mut() {
        for it in m.items.iter_mut() {
            it.attrs.docs.clear();
            for f in it.fields.iter_mut() {
                f.attrs.docs.clear();
            }
            for v in it.variants.iter_mut() {
                v.attrs.docs.clear();
            }
        }
    }
    (o.status, serde_json::to_string(&k).unwrap())
}

fn snippet(s: &str, toks: &[Tok], ti: usize) -> String {
    let a = toks[ti.saturating_sub(2)].start;
    let b = toks[(ti + 3).min(toks.len() - 1)].end;
    s[a..b].replace('\n', " ")
}

struct Input {
    name: String,
    text: String,
    toks: Vec<Tok>,
    base: (String, String),
}

/// vharness c13 --cases <plans ndjson> --inputs <module sets ndjson> --files <list> --trace <ndjson>
pub fn drive(args: &[String]) -> i32 {
    let plans = util::read_ndjson(util::arg(args, "--cases").expect("--cases"));
    let sets = util::read_ndjson(util::arg(args, "--inputs").expect("--inputs"));
    let seed: u64 = std::env::var("VERIF_SEED").ok().and_then(|s| s.parse().ok()).unwrap_or(1);
    let mut inputs: Vec<Input> = vec![];
    for (i, c) in sets.iter().enumerate() {
        let text = Table::from_json(c).text();
        let toks = tokenize(&text);
        let base = observe(&text);
        inputs.push(Input { name: format!("set{i}"), text, toks, base });
    }
    let mut nfiles = 0;
    let mut selfcheck: Vec<Value> = vec![];
    if let Some(list) = util::arg(args, "--files") {
        for f in std::fs::read_to_string(list).unwrap_or_default().lines() {
            if let Ok(text) = std::fs::read_to_string(f) {
                let base = observe(&text);
                let toks = tokenize(&text);
                // foreign text: replacing every gap by one space must reproduce the baseline.  Where it does not, the boundaries
                // at which a single space changes the outcome are looked up and reported one by one (the file is then not used for
                // the sweeps).  The tokenizer was run over every module of the repository: on the reference tree no boundary is
                // sensitive to a space.
                let all_sp: Vec<(usize, &str)> = (0..toks.len().saturating_sub(1)).map(|i| (i, " ")).collect();
                let name = format!("file:{}", f.rsplit('/').next().unwrap_or(f));
                if base.0 != "ok" || toks.len() <= 3 {
                    continue;
                }
                let all = observe(&relayout(&text, &toks, &all_sp));
                if all == base {
                    inputs.push(Input { name, text, toks, base });
                    nfiles += 1;
                } else {
                    let idx: Vec<usize> = (0..toks.len() - 1).collect();
                    let found: Vec<Value> = util::par_chunks(&idx, 64, util::threads(), |_, chunk| {
                        run::install_panic_hook();
                        chunk.iter().filter_map(|&ti| {
                            let obs = observe(&relayout(&text, &toks, &[(ti, " ")]));
                            (obs != base).then(|| json!({"ev": "relayout", "mode": "single boundary", "form": "SP", "cl": toks[ti].class, "cr": toks[ti + 1].class,
                                "input": name, "encctl": false, "base_status": base.0, "status": obs.0, "same": false,
                                "asn": format!("...{}...  with a space after token {}", snippet(&text, &toks, ti), &text[toks[ti].start..toks[ti].end])}))
                        }).collect()
                    });
                    if found.is_empty() {
                        selfcheck.push(json!({"ev": "relayout", "mode": "every boundary", "form": "SP", "cl": "*", "cr": "*", "input": name, "encctl": false,
                                              "base_status": base.0, "status": all.0, "same": false, "asn": text.chars().take(300).collect::<String>()}));
                    }
                    selfcheck.extend(found.into_iter().take(6));
                }
            }
        }
    }
    let ok_inputs: Vec<&Input> = inputs.iter().filter(|i| i.base.0 == "ok" && i.toks.len() > 3).collect();
    let nsets = ok_inputs.len() - nfiles;
    // 1. one boundary at a time: for every plan (form, left class, right class) up to 3 boundaries
    //    of that class pair, spread over the generated inputs
    let jobs: Vec<(usize, &Value)> = plans.iter().enumerate().collect();
    let mut events = util::par_chunks(&jobs, 16, util::threads(), |_, chunk| {
        run::install_panic_hook();
        let mut evs = vec![];
        for (pi, p) in chunk {
            let (form, cl, cr) = (p["form"].as_str().unwrap(), p["cl"].as_str().unwrap(), p["cr"].as_str().unwrap());
            let mut found = 0;
            for k in 0..ok_inputs.len().min(nsets.max(1)) {
                let inp = ok_inputs[(k + pi * 7) % nsets.max(1)];
                if let Some(ti) = (0..inp.toks.len() - 1).find(|ti| inp.toks[*ti].class == cl && inp.toks[*ti + 1].class == cr) {
                    let text = relayout(&inp.text, &inp.toks, &[(ti, form_text(form))]);
                    let obs = observe(&text);
                    evs.push(json!({"ev": "relayout", "mode": "single boundary", "form": form, "cl": cl, "cr": cr, "input": inp.name, "encctl": inp.text.contains("ENCODING-CONTROL"),
                                    "base_status": inp.base.0, "status": obs.0, "same": obs == inp.base,
                                    "asn": format!("...{}...  ->  ...{}...", snippet(&inp.text, &inp.toks, ti),
                                                   relayout(&inp.text, &inp.toks, &[(ti, form_text(form))]).get(inp.toks[ti.saturating_sub(2)].start..).map(|x| x.chars().take(90).collect::<String>()).unwrap_or_default().replace('\n', "\\n"))}));
                    found += 1;
                    if found >= 3 {
                        break;
                    }
                }
            }
            if found == 0 {
                evs.push(json!({"ev": "relayout", "mode": "no such boundary", "form": form, "cl": cl, "cr": cr, "input": "", "encctl": false,
                                "base_status": "", "status": "", "same": true, "asn": ""}));
            }
        }
        evs
    });
    // 1b. the gaps of the gap grammar itself (every complete gap MC_C13 generates): each one is put after one token of a generated
    //     input -- input and boundary rotate -- and, every `all_every`-th one, after every token at once
    if let Some(gp) = util::arg(args, "--gaps") {
        let gaps = util::read_ndjson(gp);
        let all_every: usize = util::arg(args, "--gaps-all-every").and_then(|s| s.parse().ok()).unwrap_or(50);
        let small: Vec<&Input> = ok_inputs.iter().copied().take(nsets.max(1)).filter(|i| i.text.len() < 1500).collect();
        let small = if small.is_empty() { ok_inputs.iter().copied().take(1).collect() } else { small };
        let jobs: Vec<(usize, &Value)> = gaps.iter().enumerate().collect();
        let gen = util::par_chunks(&jobs, 64, util::threads(), |_, chunk| {
            run::install_panic_hook();
            let mut evs = vec![];
            for (gi, g) in chunk {
                let syms: Vec<&str> = g.as_array().map(|a| a.iter().filter_map(|x| x.as_str()).collect()).unwrap_or_default();
                let text: String = syms.iter().map(|c| match *c { "s" => ' ', "n" => '\n', "d" => '-', "t" => '*', "l" => '/', _ => 'c' }).collect();
                let inp = small[gi % small.len()];
                let ti = (gi * 31 + gi / small.len()) % (inp.toks.len() - 1);
                let mut modes: Vec<(&str, Vec<(usize, &str)>)> = vec![("generated gap", vec![(ti, text.as_str())])];
                if gi % all_every == 0 {
                    modes.push(("generated gap everywhere", (0..inp.toks.len() - 1).map(|i| (i, text.as_str())).collect()));
                }
                for (mode, at) in modes {
                    let obs = observe(&relayout(&inp.text, &inp.toks, &at));
                    evs.push(json!({"ev": "relayout", "mode": mode, "form": "GEN", "gap": syms, "gaptext": text.replace('\n', "\\n"), "cl": inp.toks[ti].class, "cr": inp.toks[ti + 1].class,
                                    "input": inp.name, "encctl": false, "base_status": inp.base.0, "status": obs.0, "same": obs == inp.base,
                                    "asn": format!("...{}...  with {:?} after token {}", snippet(&inp.text, &inp.toks, ti), text, &inp.text[inp.toks[ti].start..inp.toks[ti].end])}));
                }
            }
            evs
        });
        events.extend(gen);
    }
    // 2. sweeps: every boundary of an input at once with one form, and random subsets with random forms
    let forms: Vec<&str> = vec!["SP", "TAB", "LF", "CRLF", "LINE", "LINE_NOSPACE", "INLINE", "INLINE_TIGHT", "BLOCK", "BLOCK_TIGHT", "NESTED", "NESTED_SLASH", "BLOCK_STARS", "NESTED_STAR", "LINE_ANON", "INLINE_INNER", "LINE_HYPHEN_END",
                                "BLOCK_QUOTES", "LINE_KEYWORDS", "BLOCK_NONASCII", "MIXED"];
    let sweep_inputs: Vec<&Input> = ok_inputs.iter().copied().take(40).chain(ok_inputs.iter().copied().skip(nsets)).collect();
    let sweeps = util::par_chunks(&sweep_inputs, 2, util::threads(), |base, chunk| {
        run::install_panic_hook();
        let mut rng = StdRng::seed_from_u64(seed ^ (base as u64 * 7919));
        let mut evs = vec![];
        for inp in chunk {
            for f in &forms {
                let gaps: Vec<(usize, &str)> = (0..inp.toks.len() - 1).map(|i| (i, form_text(f))).collect();
                let obs = observe(&relayout(&inp.text, &inp.toks, &gaps));
                evs.push(json!({"ev": "relayout", "mode": "every boundary", "form": f, "cl": "*", "cr": "*", "input": inp.name, "encctl": inp.text.contains("ENCODING-CONTROL"),
                                "base_status": inp.base.0, "status": obs.0, "same": obs == inp.base, "asn": inp.text.chars().take(300).collect::<String>()}));
            }
            for r in 0..4 {
                let mut gaps: Vec<(usize, &str)> = vec![];
                for i in 0..inp.toks.len() - 1 {
                    if rng.gen_bool(0.3) {
                        gaps.push((i, form_text(forms[rng.gen_range(0..forms.len())])));
                    }
                }
                let text = relayout(&inp.text, &inp.toks, &gaps);
                let obs = observe(&text);
                evs.push(json!({"ev": "relayout", "mode": format!("random subset {r}"), "form": "MIXED", "cl": "*", "cr": "*", "input": inp.name, "encctl": inp.text.contains("ENCODING-CONTROL"),
                                "base_status": inp.base.0, "status": obs.0, "same": obs == inp.base,
                                "asn": if obs == inp.base { String::new() } else { text }}));
            }
        }
        evs
    });
    events.extend(sweeps);
    events.extend(selfcheck);
    util::write_ndjson(util::arg(args, "--trace").expect("--trace"), &events);
    eprintln!("c13: {} plans, {} generated inputs, {} files, {} events", plans.len(), nsets, nfiles, events.len());
    0
}

/// vharness c13probe <file.asn> <FORM>: which single boundaries change the outcome?
pub fn probe(args: &[String]) -> i32 {
    let text = std::fs::read_to_string(&args[0]).unwrap();
    let form = args.get(1).map(|s| s.as_str()).unwrap_or("LF");
    let toks = tokenize(&text);
    let base = observe(&text);
    println!("base status {}", base.0);
    for ti in 0..toks.len() - 1 {
        let t = relayout(&text, &toks, &[(ti, form_text(form))]);
        let o = observe(&t);
        if o != base {
            println!("boundary {ti} ({} | {}): {} -> {}   {}", toks[ti].class, toks[ti + 1].class, base.0, o.0, snippet(&text, &toks, ti));
        }
    }
    0
}
