//! C11 driver: the same set of definitions compiled again and again -- repeated, with the
//! assignments / modules / sources permuted, on other threads, concurrently, and after other
//! compilations in the same process.  One event per compilation; TLC checks they all agree.
use crate::notation::Table;
use crate::{run, util};
use rand::prelude::*;
use serde_json::{json, Value};
use std::hash::{Hash, Hasher};

fn h64(s: &str) -> String {
    let mut h = std::collections::hash_map::DefaultHasher::new();
    s.hash(&mut h);
    format!("{:016x}:{}", h.finish(), s.len())
}

fn outcome_event(defset: &str, variant: &str, o: &run::Outcome, asn: &str) -> Value {
    let mut w = o.warnings.clone();
    w.sort();
    json!({"ev": "run", "defset": defset, "variant": variant, "status": o.status,
           "hash": h64(&o.generated), "whash": h64(&w.join("\n")), "nwarnings": w.len(),
           "detail": format!("{}{}", o.error, o.panic_msg), "asn": asn, "shared_names": 0})
}

fn compile(srcs: &[String]) -> run::Outcome {
    run::compile_rasn_plain(srcs, run::default_config())
}

fn permutations(n: usize, rng: &mut StdRng, k: usize) -> Vec<Vec<usize>> {
    let id: Vec<usize> = (0..n).collect();
    let mut out = vec![];
    if n <= 1 {
        return out;
    }
    if n <= 4 {
        // all permutations
        fn rec(cur: &mut Vec<usize>, rest: &mut Vec<usize>, out: &mut Vec<Vec<usize>>) {
            if rest.is_empty() {
                out.push(cur.clone());
                return;
            }
            for i in 0..rest.len() {
                let x = rest.remove(i);
                cur.push(x);
                rec(cur, rest, out);
                cur.pop();
                rest.insert(i, x);
            }
        }
        rec(&mut vec![], &mut id.clone(), &mut out);
        out.retain(|p| *p != id);
        return out;
    }
    out.push(id.iter().rev().copied().collect());
    for _ in 0..k {
        let mut p = id.clone();
        p.shuffle(rng);
        if p != id {
            out.push(p);
        }
    }
    out
}

/// sources for a table: modules in `morder`, definitions of module m in `dorder[m]`
fn sources(table: &Table, morder: &[usize], dorder: &std::collections::BTreeMap<usize, Vec<usize>>, split: bool) -> Vec<String> {
    let texts: Vec<String> = morder.iter().map(|m| table.module_text(*m, dorder.get(m).map(|v| v.as_slice()))).collect();
    if split { texts } else { vec![texts.join("\n")] }
}

pub fn events_for_table(ci: usize, case: &Value, seed: u64) -> Vec<Value> {
    let table = Table::from_json(case);
    let mut rng = StdRng::seed_from_u64(seed ^ (ci as u64).wrapping_mul(0x9E3779B97F4A7C15));
    let nm = table.mods.tagdef.len();
    let morder: Vec<usize> = (1..=nm).collect();
    let mut dorder = std::collections::BTreeMap::new();
    for m in &morder {
        dorder.insert(*m, table.defs().iter().filter(|d| d.m == *m).map(|d| d.idx).collect::<Vec<_>>());
    }
    let defset = format!("table{ci}");
    let base_srcs = sources(&table, &morder, &dorder, true);
    let asn = base_srcs.join("\n");
    let mut evs = vec![outcome_event(&defset, "base: one source per module", &compile(&base_srcs), &asn)];
    evs.push(outcome_event(&defset, "repeated", &compile(&base_srcs), ""));
    evs.push(outcome_event(&defset, "all modules in one source", &compile(&sources(&table, &morder, &dorder, false)), ""));
    // permute the sources / the modules inside one source
    for p in permutations(nm, &mut rng, 2) {
        let mo: Vec<usize> = p.iter().map(|i| morder[*i]).collect();
        evs.push(outcome_event(&defset, &format!("sources permuted {mo:?}"), &compile(&sources(&table, &mo, &dorder, true)), ""));
        evs.push(outcome_event(&defset, &format!("modules permuted inside one source {mo:?}"), &compile(&sources(&table, &mo, &dorder, false)), ""));
    }
    // permute the assignments inside each module
    for m in &morder {
        let defs = dorder[m].clone();
        for p in permutations(defs.len(), &mut rng, 2).into_iter().take(6) {
            let mut d2 = dorder.clone();
            d2.insert(*m, p.iter().map(|i| defs[*i]).collect());
            evs.push(outcome_event(&defset, &format!("assignments of module {m} permuted {p:?}"), &compile(&sources(&table, &morder, &d2, true)), ""));
        }
    }
    // another thread, and after an unrelated compilation on that thread (history)
    let s2 = base_srcs.clone();
    let (a, b) = std::thread::Builder::new()
        .stack_size(64 << 20)
        .spawn(move || {
            run::install_panic_hook();
            let a = compile(&s2);
            let _ = compile(&["Other DEFINITIONS EXPLICIT TAGS EXTENSIBILITY IMPLIED ::= BEGIN Zz ::= SEQUENCE { a [3] INTEGER (0..7), b Zz OPTIONAL, ... } zv Zz ::= { a 1 } END".to_string()]);
            let b = compile(&s2);
            (a, b)
        })
        .unwrap()
        .join()
        .unwrap();
    evs.push(outcome_event(&defset, "on another thread", &a, ""));
    evs.push(outcome_event(&defset, "after another compilation in the same thread", &b, ""));
    // concurrently
    let n = 2 + (ci % 7);
    let handles: Vec<_> = (0..n)
        .map(|_| {
            let s = base_srcs.clone();
            std::thread::Builder::new()
                .stack_size(64 << 20)
                .spawn(move || {
                    run::install_panic_hook();
                    compile(&s)
                })
                .unwrap()
        })
        .collect();
    for (i, h) in handles.into_iter().enumerate() {
        evs.push(outcome_event(&defset, &format!("concurrent {}/{n}", i + 1), &h.join().unwrap(), ""));
    }
    evs
}

/// real-world modules: each file repeated, on threads; pairs of files in both orders
pub fn events_for_files(files: &[String], seed: u64) -> Vec<Value> {
    let mut evs = vec![];
    let mut rng = StdRng::seed_from_u64(seed);
    for f in files {
        let Ok(text) = std::fs::read_to_string(f) else { continue };
        let defset = format!("file:{}", f.rsplit('/').next().unwrap_or(f));
        let base = compile(&[text.clone()]);
        if base.status == "panic" {
            continue; // C08's subject
        }
        evs.push(outcome_event(&defset, "base", &base, &format!("-- {f}")));
        evs.push(outcome_event(&defset, "repeated", &compile(&[text.clone()]), ""));
        let t2 = text.clone();
        let o = std::thread::Builder::new().stack_size(1 << 30).spawn(move || {
            run::install_panic_hook();
            compile(&[t2])
        }).unwrap().join().unwrap();
        evs.push(outcome_event(&defset, "on another thread", &o, ""));
    }
    // pairs of files handed over in both orders
    for _ in 0..(files.len() / 2).min(40) {
        let a = files.choose(&mut rng).unwrap();
        let b = files.choose(&mut rng).unwrap();
        if a == b {
            continue;
        }
        let (Ok(ta), Ok(tb)) = (std::fs::read_to_string(a), std::fs::read_to_string(b)) else { continue };
        let defset = format!("pair:{}+{}", a.rsplit('/').next().unwrap(), b.rsplit('/').next().unwrap());
        let o1 = compile(&[ta.clone(), tb.clone()]);
        let o2 = compile(&[tb.clone(), ta.clone()]);
        if o1.status == "panic" || o2.status == "panic" {
            continue;
        }
        // do the two files define a name in common?  (the word before ::=, and the word before a governing type before ::=)
        let names = |t: &str| -> std::collections::BTreeSet<String> {
            let toks = crate::drivers::c13::tokenize(t);
            let mut out = std::collections::BTreeSet::new();
            for (i, k) in toks.iter().enumerate() {
                if &t[k.start..k.end] == "::=" {
                    for back in 1..=2 {
                        if i >= back && toks[i - back].class == "word" {
                            out.insert(t[toks[i - back].start..toks[i - back].end].to_string());
                        }
                    }
                }
            }
            out
        };
        let shared = names(&ta).intersection(&names(&tb)).filter(|n| !["INTEGER", "BOOLEAN", "IDENTIFIER", "STRING", "SEQUENCE", "CHOICE", "ENUMERATED", "SET", "NULL", "OF", "CLASS"].contains(&n.as_str())
                                                             && !n.ends_with("String")).count();
        let mut e1 = outcome_event(&defset, "a then b", &o1, &format!("-- {a} + {b}"));
        let mut e2 = outcome_event(&defset, "b then a", &o2, "");
        e1["shared_names"] = json!(shared);
        e2["shared_names"] = json!(shared);
        evs.push(e1);
        evs.push(e2);
    }
    evs
}

/// vharness c11 --cases <ndjson> --trace <ndjson> [--files <list file>]
/// Two revisions of one specification: the same templates (parameterized type, COMPONENTS OF, named numbers, value
/// references, selection and class field types, an import) over a definition that differs.  Revision r compiled on a fresh
/// thread must equal revision r compiled right after the other revision on the same thread.
fn revision_text(family: usize, p: u64) -> Vec<String> {
    let w = |b: String| vec![format!("Rev DEFINITIONS AUTOMATIC TAGS ::= BEGIN\n{b}\nEND\n")];
    match family {
        0 => w(format!("lim INTEGER ::= {p}\nTpl {{T}} ::= SEQUENCE {{ l SEQUENCE (SIZE (1..lim)) OF T, d INTEGER (0..lim) DEFAULT lim }}\nZinst ::= Tpl {{ BOOLEAN }}")),
        1 => w(format!("Base ::= SEQUENCE {{ a INTEGER (0..{p}) }}\nZuser ::= SEQUENCE {{ COMPONENTS OF Base, z BOOLEAN }}")),
        2 => w(format!("Level ::= INTEGER {{ low(0), high({p}) }}\nZr ::= Level (low..high)\nZs ::= SEQUENCE {{ f Level (low..high) DEFAULT high }}")),
        3 => w(format!("lim INTEGER ::= {p}\nZc ::= SEQUENCE {{ f OCTET STRING (SIZE (1..lim)), g INTEGER (0..lim) OPTIONAL }}")),
        4 => w(format!("Cho ::= CHOICE {{ a INTEGER (0..{p}), b BOOLEAN }}\nZs ::= a < Cho")),
        5 => w(format!("CLS ::= CLASS {{ &id INTEGER (0..{p}) UNIQUE, &Type }}\nZf ::= SEQUENCE {{ f CLS.&id }}")),
        6 => w(format!("Tpl {{INTEGER:max, T}} ::= SEQUENCE (SIZE (1..max)) OF T\nZinst ::= Tpl {{ {p}, BOOLEAN }}\nZz ::= SEQUENCE {{ m Zinst }}")),
        8 => w(format!("hard INTEGER ::= {p}\nlim INTEGER ::= hard\nZc ::= SEQUENCE {{ f OCTET STRING (SIZE (1..lim)), g INTEGER (0..lim) OPTIONAL }}\nZt ::= INTEGER (0..lim)")),
        _ => vec![format!("RevA DEFINITIONS AUTOMATIC TAGS ::= BEGIN\nIMPORTS lim FROM RevB;\nZt ::= INTEGER (0..lim)\nEND\n"),
                  format!("RevB DEFINITIONS AUTOMATIC TAGS ::= BEGIN\nlim INTEGER ::= {p}\nEND\n")],
    }
}

pub fn events_for_revisions() -> Vec<Value> {
    let mut evs = vec![];
    for family in 0..10 {
        for (this, other) in [(9u64, 70000u64), (70000, 9), (300, 5)] {
            let (a, b) = (revision_text(family, this), revision_text(family, other));
            let defset = format!("revision family {family} with {this}");
            let a1 = a.clone();
            let fresh = std::thread::Builder::new().stack_size(64 << 20).spawn(move || { run::install_panic_hook(); compile(&a1) }).unwrap().join().unwrap();
            let (a2, b2) = (a.clone(), b.clone());
            let after = std::thread::Builder::new().stack_size(64 << 20).spawn(move || { run::install_panic_hook(); let _ = compile(&b2); compile(&a2) }).unwrap().join().unwrap();
            evs.push(outcome_event(&defset, "on a fresh thread", &fresh, &a.join("\n")));
            evs.push(outcome_event(&defset, &format!("after the revision with {other} on the same thread"), &after, ""));
        }
    }
    evs
}

/// Two revisions of one module in one compilation: the same module reference, told apart by their definitive identifiers
/// (X.680 13), disjoint names, headers that differ in tagging default, extensibility and IMPORTS.  The pipeline keeps one
/// header per parsed module, not per module name: whichever way the three sources are ordered, in one source or several,
/// the bindings are the same.
/// Modules without assignments (an empty ModuleBody is legal, X.680 13.1) next to a module with some: every order of the sources,
/// separately and in one source
pub fn events_for_empty_modules() -> Vec<Value> {
    let mut evs = vec![];
    let srcs = ["Zeta DEFINITIONS AUTOMATIC TAGS ::= BEGIN END\n".to_string(), "Alpha DEFINITIONS ::= BEGIN\nEND\n".to_string(),
                "Mid DEFINITIONS AUTOMATIC TAGS ::= BEGIN\nA ::= INTEGER (0..7)\nEND\n".to_string(), "Beta DEFINITIONS EXPLICIT TAGS EXTENSIBILITY IMPLIED ::= BEGIN END\n".to_string()];
    let defset = "modules without assignments".to_string();
    let mut rng = StdRng::seed_from_u64(7);
    let mut first = true;
    for o in std::iter::once((0..4).collect::<Vec<usize>>()).chain(permutations(4, &mut rng, 0)) {
        let v: Vec<String> = o.iter().map(|x| srcs[*x].clone()).collect();
        evs.push(outcome_event(&defset, &if first { "base: one source per module".to_string() } else { format!("sources permuted {o:?}") }, &compile(&v), &if first { v.join("\n") } else { String::new() }));
        evs.push(outcome_event(&defset, &format!("modules permuted inside one source {o:?}"), &compile(&[v.join("\n")]), ""));
        first = false;
    }
    evs
}

pub fn events_for_same_name() -> Vec<Value> {
    let mut evs = vec![];
    let tagdefs = ["IMPLICIT TAGS", "EXPLICIT TAGS", "AUTOMATIC TAGS", ""];
    let mut fam = 0;
    for (i, t1) in tagdefs.iter().enumerate() {
        for (j, t2) in tagdefs.iter().enumerate() {
            for imports in 0..3 {
                if i == j && imports == 0 {
                    continue;
                }
                fam += 1;
                let imp = |on: bool| if on { "IMPORTS Helper FROM Other;\n" } else { "" };
                let helper = |on: bool| if on { "Helper" } else { "INTEGER" };
                let r1 = format!("Proto {{ iso(1) identified-organization(3) example(9999) proto(1) revision-1(1) }}\nDEFINITIONS {t1} ::= BEGIN\n{}Alpha ::= SEQUENCE {{ first [0] {}, second [1] BOOLEAN }}\nEND\n", imp(imports == 1), helper(imports == 1));
                let r2 = format!("Proto {{ iso(1) identified-organization(3) example(9999) proto(1) revision-2(2) }}\nDEFINITIONS {t2} {} ::= BEGIN\n{}Beta ::= SEQUENCE {{ third [0] {}, fourth [1] BOOLEAN }}\nGamma ::= CHOICE {{ g [0] INTEGER, h [1] NULL }}\nEND\n",
                                 if fam % 2 == 0 { "EXTENSIBILITY IMPLIED" } else { "" }, imp(imports == 2), helper(imports == 2));
                let other = "Other DEFINITIONS AUTOMATIC TAGS ::= BEGIN\nHelper ::= INTEGER (0..255)\nEND\n".to_string();
                let srcs = [r1, r2, other];
                let defset = format!("same-named modules {fam}");
                let orders: [[usize; 3]; 6] = [[0, 1, 2], [0, 2, 1], [1, 0, 2], [1, 2, 0], [2, 0, 1], [2, 1, 0]];
                for (k, o) in orders.iter().enumerate() {
                    let v: Vec<String> = o.iter().map(|x| srcs[*x].clone()).collect();
                    evs.push(outcome_event(&defset, &if k == 0 { "base: one source per module".to_string() } else { format!("sources permuted {o:?}") }, &compile(&v), &if k == 0 { v.join("\n") } else { String::new() }));
                    evs.push(outcome_event(&defset, &format!("modules permuted inside one source {o:?}"), &compile(&[v.join("\n")]), ""));
                }
            }
        }
    }
    evs
}

/// State that outlives a compilation may also be process-wide and written once (a table sized by whoever asks first): then every
/// compilation inside one process agrees with itself, and only another *history* shows it.  Each probe module is compiled alone
/// in a fresh process and, in another fresh process, after each of the other probes; the child is this binary (`c11child`).
const PROBES: [(&str, &str); 8] = [
    ("bmp-open", "B ::= BMPString (FROM (\"a\"..MAX))"),
    ("universal-open", "U ::= UniversalString (FROM (\"a\"..MAX))"),
    ("universal-astral", "U ::= UniversalString (FROM (\"a\u{1F600}\"))"),
    ("ia5-open", "I ::= IA5String (FROM (MIN..\"z\"))"),
    ("printable", "P ::= PrintableString (FROM (\"A\"..\"Z\" | \"0\"..\"9\"))"),
    ("numeric-visible", "N ::= NumericString (FROM (\"0\"..MAX))\nV ::= VisibleString (FROM (MIN..\"A\"))"),
    ("integers", "T ::= INTEGER { low(0), high(70000) } (low..high)\nE ::= ENUMERATED { a, b(5), ..., c }\nS ::= SEQUENCE { f T DEFAULT high, g E DEFAULT b }"),
    ("bits-oid", "Bs ::= BIT STRING { x(0), y(9) } (SIZE (10))\noid OBJECT IDENTIFIER ::= { iso standard 8571 }\nv Bs ::= { x, y }"),
];

fn probe_module(i: usize) -> String {
    format!("Probe{i} DEFINITIONS AUTOMATIC TAGS ::= BEGIN\n{}\nEND\n", PROBES[i].1)
}

/// vharness c11child <i> [<j> ...]: compile the probes in that order in this (fresh) process, print the last outcome
pub fn child(args: &[String]) -> i32 {
    run::install_panic_hook();
    let mut last = run::Outcome::default();
    for a in args {
        let i: usize = a.parse().unwrap_or(0);
        last = compile(&[probe_module(i)]);
    }
    let mut w = last.warnings.clone();
    w.sort();
    println!("{}", json!({"status": last.status, "hash": h64(&last.generated), "whash": h64(&w.join("\n")), "nwarnings": w.len(), "detail": format!("{}{}", last.error, last.panic_msg)}));
    0
}

pub fn events_for_histories() -> Vec<Value> {
    let me = std::env::current_exe().unwrap();
    let run_child = |order: &[usize]| -> Value {
        let out = std::process::Command::new(&me).arg("c11child").args(order.iter().map(|i| i.to_string())).output();
        match out {
            Ok(o) => String::from_utf8_lossy(&o.stdout).lines().last().and_then(|l| serde_json::from_str(l).ok())
                .unwrap_or(json!({"status": "childfail", "hash": "", "whash": "", "nwarnings": 0, "detail": String::from_utf8_lossy(&o.stderr).chars().take(300).collect::<String>()})),
            Err(e) => json!({"status": "childfail", "hash": "", "whash": "", "nwarnings": 0, "detail": e.to_string()}),
        }
    };
    let n = PROBES.len();
    let jobs: Vec<(usize, Option<usize>)> = (0..n).flat_map(|x| std::iter::once((x, None)).chain((0..n).filter(move |y| *y != x).map(move |y| (x, Some(y))))).collect();
    let results = util::par_chunks(&jobs, 4, util::threads().min(8), |_, chunk| {
        chunk.iter().map(|(x, y)| {
            let r = match y { None => run_child(&[*x]), Some(y) => run_child(&[*y, *x]) };
            let variant = match y { None => "alone in a fresh process".to_string(), Some(y) => format!("in a fresh process after the module '{}'", PROBES[*y].0) };
            json!({"ev": "run", "defset": format!("history probe {}", PROBES[*x].0), "variant": variant, "status": r["status"], "hash": r["hash"], "whash": r["whash"],
                   "nwarnings": r["nwarnings"], "detail": r["detail"], "asn": probe_module(*x), "shared_names": 0, "x": x, "y": y.map(|v| v as i64).unwrap_or(-1)})
        }).collect()
    });
    // the event of the probe alone first: it fixes the defset's result
    let mut evs: Vec<Value> = results;
    evs.sort_by_key(|e| (e["x"].as_u64().unwrap_or(0), e["y"].as_i64().unwrap_or(-1)));
    evs
}

pub fn drive(args: &[String]) -> i32 {
    let cases = util::read_ndjson(util::arg(args, "--cases").expect("--cases"));
    let seed: u64 = std::env::var("VERIF_SEED").ok().and_then(|s| s.parse().ok()).unwrap_or(1);
    let indexed: Vec<(usize, Value)> = cases.into_iter().enumerate().collect();
    let mut events = util::par_chunks(&indexed, 4, util::threads().min(6), |_, chunk| {
        run::install_panic_hook();
        chunk.iter().flat_map(|(i, c)| events_for_table(*i, c, seed)).collect()
    });
    if let Some(list) = util::arg(args, "--files") {
        let files: Vec<String> = std::fs::read_to_string(list).unwrap_or_default().lines().map(|s| s.to_string()).collect();
        let chunks = util::par_chunks(&files, 8, util::threads().min(6), |_, chunk| {
            run::install_panic_hook();
            events_for_files(chunk, seed)
        });
        events.extend(chunks);
    }
    events.extend(events_for_revisions());
    events.extend(events_for_same_name());
    events.extend(events_for_empty_modules());
    events.extend(events_for_histories());
    util::write_ndjson(util::arg(args, "--trace").expect("--trace"), &events);
    eprintln!("c11: {} module sets, {} events", indexed.len(), events.len());
    0
}
