//! C04 driver: one constraint series per case, placed on the type / position the case names.
use crate::{rsproj, run, util};
use serde_json::{json, Value};

const NEGINF: i64 = -1000;
const POSINF: i64 = 1000;

#[derive(Clone, Copy, PartialEq)]
enum Ends {
    Literal,
    ValRef,
    /// named numbers of the constrained type itself; the names are unique per case (k) so that
    /// equally named numbers of other types in the same batch cannot be picked up instead
    NamedNum(usize),
}

fn end_name(v: i64, mode: Ends) -> String {
    let stem = if v < 0 { format!("m{}", -v) } else { v.to_string() };
    match mode {
        Ends::Literal => v.to_string(),
        Ends::ValRef => format!("cv{stem}"),
        Ends::NamedNum(k) => format!("nn{k}x{stem}"),
    }
}

fn operand(o: &Value, mode: Ends) -> String {
    let (lo, hi) = (o["lo"].as_i64().unwrap(), o["hi"].as_i64().unwrap());
    let (lox, hix) = (o["lox"].as_bool().unwrap(), o["hix"].as_bool().unwrap());
    if lo == hi {
        return end_name(lo, mode);
    }
    let l = if lo == NEGINF { "MIN".to_string() } else { end_name(lo, mode) };
    let h = if hi == POSINF { "MAX".to_string() } else { end_name(hi, mode) };
    format!("{l}{}..{}{h}", if lox { "<" } else { "" }, if hix { "<" } else { "" })
}

/// is the last operand of this case written as a contained subtype, INCLUDES Ti<k>, with Ti<k> ::= INTEGER (lo..hi) declared
/// next to the case?  The spelling permits the same values as the range written out; every third eligible INTEGER case uses it.
pub fn contained(k: usize, c: &Value) -> Option<String> {
    let os = c["os"].as_array().unwrap();
    let which = contained_index(k, c);
    let o = &os[which];
    let closed = !o["lox"].as_bool().unwrap() && !o["hix"].as_bool().unwrap();
    let pos = c["pos"].as_str().unwrap();
    // also the whole constraint may be a contained subtype, INTEGER (Ti<k>): single-operand cases; and the contained type may be
    // given as a constrained *reference* to another INTEGER type (every second one): Ti<k> ::= Tb<k> (lo..hi)
    (c["ty"] == "INTEGER" && matches!(pos, "assignment" | "component" | "refcomp" | "valref") && k % 3 == 2 && closed).then(|| {
        if (k / 3) % 2 == 1 {
            format!("Tb{k} ::= INTEGER\nTi{k} ::= Tb{k} ({})", operand(o, Ends::Literal))
        } else {
            format!("Ti{k} ::= INTEGER ({})", operand(o, Ends::Literal))
        }
    })
}

/// the keyword INCLUDES is optional (X.680 51.3.1); it is left out in every fourth spelling
fn includes(k: usize) -> String {
    if (k / 3) % 4 >= 2 { format!("Ti{k}") } else { format!("INCLUDES Ti{k}") }
}

/// the operand that is written as contained subtype: the first or the last one, alternating
fn contained_index(k: usize, c: &Value) -> usize {
    if k % 6 == 5 { 0 } else { c["os"].as_array().unwrap().len() - 1 }
}

fn expr(k: usize, c: &Value, mode: Ends) -> String {
    let os = c["os"].as_array().unwrap();
    let ps = c["ps"].as_array().unwrap();
    let inc = contained(k, c).map(|_| contained_index(k, c));
    let mut s = if inc == Some(0) { includes(k) } else { operand(&os[0], mode) };
    for (i, p) in ps.iter().enumerate() {
        let op = match p.as_str().unwrap() {
            "u" => "|",
            "i" => "^",
            _ => "EXCEPT",
        };
        if inc == Some(i + 1) {
            s = format!("{s} {op} {}", includes(k));
            continue;
        }
        s = format!("{s} {op} {}", operand(&os[i + 1], mode));
    }
    if c["ext"].as_bool().unwrap() && !c["extout"].as_bool().unwrap_or(false) {
        s += ", ...";
    }
    s
}

/// the constraints of the series as text, one per element
/// is the set operation of this case written between SIZE constraints, (SIZE(a) | SIZE(b)), rather than inside one,
/// (SIZE(a | b))?  The two spellings permit the same sizes; the harness writes every other eligible case the outer way.
pub fn outer_size(k: usize, c: &Value, size: bool) -> bool {
    size && k % 2 == 1 && !c["ps"].as_array().unwrap().is_empty() && !c["ext"].as_bool().unwrap() && !c["extout"].as_bool().unwrap_or(false)
}

fn series(k: usize, c: &Value, mode: Ends, size: bool) -> Vec<String> {
    let wrap = |e: String| if size { format!("(SIZE({e}))") } else { format!("({e})") };
    let mut v = vec![if outer_size(k, c, size) {
        let os = c["os"].as_array().unwrap();
        let mut s = format!("SIZE({})", operand(&os[0], mode));
        for (i, p) in c["ps"].as_array().unwrap().iter().enumerate() {
            let op = match p.as_str().unwrap() { "u" => "|", "i" => "^", _ => "EXCEPT" };
            s = format!("{s} {op} SIZE({})", operand(&os[i + 1], mode));
        }
        format!("({s})")
    } else if c["extout"].as_bool().unwrap_or(false) {
        // marker on the element-set level, after the SIZE element
        format!("(SIZE({}), ...)", expr(k, c, mode))
    } else {
        wrap(expr(k, c, mode))
    }];
    for s in c["ser"].as_array().unwrap() {
        let mut e = operand(&s["o"], mode);
        if s["ext"].as_bool().unwrap() {
            e += ", ...";
        }
        v.push(wrap(e));
    }
    v
}

fn typed(ty: &str, cs: &str) -> String {
    match ty {
        "SEQUENCE OF" => format!("SEQUENCE {cs} OF BOOLEAN"),
        t => format!("{t} {cs}"),
    }
}

fn render(k: usize, c: &Value) -> String {
    let ty = c["ty"].as_str().unwrap();
    let pos = c["pos"].as_str().unwrap();
    let size = ty != "INTEGER";
    let mode = match pos {
        "valref" => Ends::ValRef,
        "namednum" | "nnref" => Ends::NamedNum(k),
        _ => Ends::Literal,
    };
    let cs = series(k, c, mode, size);
    let all = cs.join(" ");
    let helper = contained(k, c).map(|h| h + "\n").unwrap_or_default();
    helper + &match pos {
        "assignment" | "valref" => format!("Tp{k} ::= {}", typed(ty, &all)),
        "namednum" => format!(
            "Tp{k} ::= INTEGER {{ nn{k}xm3(-3), nn{k}x0(0), nn{k}x2(2), nn{k}x5(5), nn{k}x9(9) }} {all}"
        ),
        // the named numbers belong to the referenced type; two decoy types declare the same
        // identifiers with other values, one sorting before and one after the referenced type
        "nnref" => {
            let nn = |base: i64| {
                format!(
                    "INTEGER {{ nn{k}xm3({}), nn{k}x0({}), nn{k}x2({}), nn{k}x5({}), nn{k}x9({}) }}",
                    base - 3, base, base + 2, base + 5, base + 9
                )
            };
            format!("Aad{k} ::= {}\nTq{k} ::= {}\nZzd{k} ::= {}\nTp{k} ::= Tq{k} {all}", nn(40), nn(0), nn(70))
        }
        "component" => format!("Tp{k} ::= SEQUENCE {{ f {} }}", typed(ty, &all)),
        "refcomp" => format!("Tq{k} ::= {ty}\nTp{k} ::= SEQUENCE {{ f Tq{k} {all} }}"),
        "typeref" => format!("Tq{k} ::= {}\nTp{k} ::= Tq{k} {}", typed(ty, &cs[0]), cs[1..].join(" ")),
        other => panic!("position {other}"),
    }
}

/// "0..=5" | "5" | "1.." | "..=9" -> (lo, hi) with sentinels
fn parse_range(s: &str) -> Option<(i64, i64)> {
    let s = s.trim();
    if let Some((a, b)) = s.split_once("..") {
        let lo = if a.is_empty() { NEGINF } else { a.parse().ok()? };
        let b = b.strip_prefix('=').unwrap_or(b);
        let hi = if b.is_empty() { POSINF } else { b.parse().ok()? };
        Some((lo, hi))
    } else {
        let v: i64 = s.parse().ok()?;
        Some((v, v))
    }
}

fn annotations(a: &rsproj::Attrs, key: &str, out: &mut Vec<Value>) {
    if let Some(rsproj::Meta::List { a: args, .. }) = a.find(key) {
        let lit = args.iter().find_map(|m| if let rsproj::Meta::Lit { v } = m { Some(v.clone()) } else { None });
        let ext = args.iter().any(|m| m.key() == "extensible");
        match lit.as_deref().and_then(parse_range) {
            Some((lo, hi)) => out.push(json!({"lo": lo, "hi": hi, "ext": ext, "raw": lit})),
            None => out.push(json!({"lo": 12345, "hi": -12345, "ext": ext, "raw": lit})),
        }
    }
}

fn fixed_len(ty: &str, out: &mut Vec<Value>) {
    for p in ["FixedOctetString<", "FixedBitString<"] {
        if let Some(rest) = ty.strip_prefix(p) {
            let n: String = rest.chars().take_while(|c| c.is_ascii_digit()).collect();
            if let Ok(n) = n.parse::<i64>() {
                out.push(json!({"lo": n, "hi": n, "ext": false, "raw": ty}));
            }
        }
    }
}

/// annotations along the delegate chain starting at type name `ty`
fn chain(krate: &rsproj::RCrate, ty: &str, key: &str, out: &mut Vec<Value>, depth: usize) {
    fixed_len(ty, out);
    if depth > 6 {
        return;
    }
    let inner = ty.strip_prefix("Option<").and_then(|s| s.strip_suffix('>')).unwrap_or(ty);
    if let Some(it) = krate.item(inner) {
        if it.kind == "tuple_struct" && it.fields.len() == 1 {
            annotations(&it.attrs, key, out);
            chain(krate, &it.fields[0].ty, key, out, depth + 1);
        }
    }
}

fn observe(k: usize, c: &Value, text: &str, o: &run::Outcome, krate: &rsproj::RCrate, solo: bool) -> Value {
    let mut ev = c.clone();
    ev["ev"] = json!("pv");
    ev["outer_size"] = json!(outer_size(k, c, c["ty"] != "INTEGER"));
    ev["contained"] = json!(contained(k, c).is_some());
    ev["k"] = json!(k);
    ev["asn"] = json!(text);
    ev["status"] = json!(o.status);
    ev["detail"] = json!("");
    ev["chain"] = json!([]);
    if o.status != "ok" {
        ev["detail"] = json!(format!("{}{}", o.error, o.panic_msg));
        return ev;
    }
    let names = [format!("Tp{k}"), format!("Tq{k}")];
    if solo && !o.warnings.is_empty() {
        // compiled alone: every warning is about this case (some warnings do not name their subject)
        ev["status"] = json!("warn");
        ev["detail"] = json!(o.warnings.join(" | "));
        return ev;
    }
    if let Some(w) = o.warnings.iter().find(|w| names.iter().any(|n| w.contains(n.as_str()))) {
        ev["status"] = json!("warn");
        ev["detail"] = json!(w);
        return ev;
    }
    let key = if c["ty"] == "INTEGER" { "value" } else { "size" };
    let Some(item) = krate.item(&names[0]) else {
        ev["status"] = json!(if o.warnings.is_empty() { "missing" } else { "warn" });
        ev["detail"] = json!(o.warnings.first().cloned().unwrap_or_default());
        return ev;
    };
    let mut out = vec![];
    if c["pos"] == "component" || c["pos"] == "refcomp" {
        match item.fields.iter().find(|f| f.name == "f") {
            Some(f) => {
                annotations(&f.attrs, key, &mut out);
                chain(krate, &f.ty, key, &mut out, 0);
            }
            None => {
                ev["status"] = json!("missing");
                return ev;
            }
        }
    } else {
        chain(krate, &names[0], key, &mut out, 0);
    }
    ev["chain"] = json!(out);
    ev
}

fn module(body: &str) -> String {
    format!(
        "Pv DEFINITIONS AUTOMATIC TAGS ::= BEGIN\ncvm3 INTEGER ::= -3\ncv0 INTEGER ::= 0\ncv2 INTEGER ::= 2\ncv5 INTEGER ::= 5\ncv9 INTEGER ::= 9\n{body}\nEND\n"
    )
}

fn run_batch(base: usize, cases: &[Value]) -> Vec<Value> {
    let texts: Vec<String> = cases.iter().enumerate().map(|(i, c)| render(base + i, c)).collect();
    let (o, _) = run::compile_rasn1(&module(&texts.join("\n")));
    if o.status == "ok" {
        // a definition the generator gives up on is dropped with a warning that often does not
        // name it; so: item present -> judged; item absent and the batch has warnings -> "warn"
        let krate = rsproj::project(&o.generated);
        return cases.iter().enumerate().map(|(i, c)| observe(base + i, c, &texts[i], &o, &krate, false)).collect();
    }
    if cases.len() > 2 {
        let mid = cases.len() / 2;
        let mut a = run_batch(base, &cases[..mid]);
        a.extend(run_batch(base + mid, &cases[mid..]));
        return a;
    }
    cases
        .iter()
        .enumerate()
        .map(|(i, c)| {
            let (o, _) = run::compile_rasn1(&module(&texts[i]));
            let krate = rsproj::project(&o.generated);
            observe(base + i, c, &texts[i], &o, &krate, true)
        })
        .collect()
}

/// vharness c04 --cases <ndjson> --trace <ndjson>
pub fn drive(args: &[String]) -> i32 {
    let cases = util::read_ndjson(util::arg(args, "--cases").expect("--cases"));
    let batch: usize = util::arg(args, "--batch").and_then(|s| s.parse().ok()).unwrap_or(128);
    let events = util::par_chunks(&cases, batch, util::threads(), |base, chunk| {
        run::install_panic_hook();
        run_batch(base, chunk)
    });
    util::write_ndjson(util::arg(args, "--trace").expect("--trace"), &events);
    eprintln!("c04: {} cases, {} events", cases.len(), events.len());
    0
}
