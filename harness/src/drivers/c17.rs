//! C17 driver: single-token corruptions of generated documents; what position is reported?
use crate::drivers::c13::{tokenize, Tok};
use crate::notation::Table;
use crate::{run, util};
use rasn_compiler::prelude::*;
use serde_json::{json, Value};
use std::panic::{catch_unwind, AssertUnwindSafe};

struct Doc {
    text: String,
    /// byte spans of the top-level assignments, in document order
    spans: Vec<(usize, usize)>,
}

fn build_doc(table: &Table, crlf: bool, comments: bool) -> Doc {
    build_doc_layout(table, crlf, comments, false)
}

/// `spread`: every token of an assignment on a line of its own, so that an error deep inside an assignment lies many lines
/// below the line the assignment starts on
fn build_doc_layout(table: &Table, crlf: bool, comments: bool, spread: bool) -> Doc {
    build_doc_indented(table, crlf, comments, spread, false)
}

/// `indent`: the module body, END included, is indented by two spaces (as inside an asn1! invocation): no line after
/// the header starts in column 1
fn build_doc_indented(table: &Table, crlf: bool, comments: bool, spread: bool, indent: bool) -> Doc {
    build_doc_wide(table, crlf, comments, spread, indent, false)
}

/// `wide`: the comments contain characters of two, three and four bytes (ErrorPos.tla symbol "w": offsets are bytes)
fn build_doc_wide(table: &Table, crlf: bool, comments: bool, spread: bool, indent: bool, wide: bool) -> Doc {
    let w = if wide { " µm © – 語 😀" } else { "" };
    let nl = if crlf { "\r\n" } else { "\n" };
    let ind = if indent { "  " } else { "" };
    let mut text = String::new();
    let mut spans = vec![];
    for m in 1..=table.mods.tagdef.len() {
        let header = table.header(m);
        for l in header.lines() {
            text.push_str(l);
            text.push_str(nl);
        }
        for (i, d) in table.defs().iter().filter(|d| d.m == m).enumerate() {
            if comments && i % 2 == 0 {
                text.push_str(&format!("-- definition {i}{w}{nl}"));
            }
            if comments && i % 3 == 1 {
                // a longer run of comment and blank lines between two assignments
                text.push_str(&format!("-- a note that goes on{w}{nl}-- for several lines{nl}{nl}--{nl}-- and on{w}{nl}{nl}-- until here{nl}"));
            }
            let mut t = table.def_text(d.idx);
            if spread {
                let toks = tokenize(&t);
                // continuation lines are indented, as in hand-written modules
                t = toks.iter().map(|k| &t[k.start..k.end]).collect::<Vec<_>>().join(&format!("{nl}      "));
            }
            text.push_str(ind);
            let start = text.len();
            text.push_str(&t);
            spans.push((start, text.len()));
            if comments && i % 3 == 1 {
                text.push_str(" -- trailing comment");
                text.push_str(w);
            }
            text.push_str(nl);
        }
        text.push_str(ind);
        text.push_str("END");
        text.push_str(nl);
    }
    Doc { text, spans }
}

fn parse_line_from_display(s: &str) -> i64 {
    // "... while parsing line 4, column 2."  |  "... source file <path>:4:2."
    if let Some(p) = s.find("parsing line ") {
        let rest = &s[p + 13..];
        return rest.chars().take_while(|c| c.is_ascii_digit()).collect::<String>().parse().unwrap_or(-1);
    }
    let t = s.trim_end_matches('.');
    let mut parts = t.rsplit(':');
    let _col = parts.next();
    parts.next().and_then(|l| l.parse().ok()).unwrap_or(-1)
}

/// the source text shown on the row that carries the failure mark
fn marked_text(ctx: &str) -> Option<String> {
    for l in ctx.lines() {
        if let Some(p) = l.find("FAILED AT THIS LINE") {
            let row = &l[..p];
            let row = row.trim_end_matches(|c: char| c == '◀' || c == '▪' || c == ' ');
            return row.split_once('│').map(|x| x.1.trim().to_string());
        }
    }
    None
}

fn marked_line(ctx: &str) -> i64 {
    for l in ctx.lines() {
        if l.contains("FAILED AT THIS LINE") {
            let num: String = l.trim_start().chars().take_while(|c| c.is_ascii_digit()).collect();
            return num.parse().unwrap_or(-1);
        }
    }
    -1
}

fn one(ci: usize, plan: &Value, di: usize, table: &Table, dir: &str) -> Value {
    let crlf = plan["crlf"].as_bool().unwrap();
    let file = plan["file"].as_bool().unwrap();
    // every fifth document has its whole body indented
    // every second document with comments has multi-byte characters in them
    let doc = build_doc_wide(table, crlf, (ci + di) % 2 == 0, (ci + di) % 3 == 2, (ci + di) % 5 == 4, (ci + di) % 4 == 0);
    let _ = build_doc_layout;
    let mut a = plan["a"].as_u64().unwrap() as usize % doc.spans.len();
    let anchor = plan["anchor"].as_str().unwrap_or("nth");
    if anchor == "after_default" {
        // the first assignment from a onwards (cyclically) that has a DEFAULT
        let n = doc.spans.len();
        match (0..n).map(|k| (a + k) % n).find(|&k| tokenize(&doc.text[doc.spans[k].0..doc.spans[k].1]).iter().any(|t| &doc.text[doc.spans[k].0 + t.start..doc.spans[k].0 + t.end] == "DEFAULT")) {
            Some(k) => a = k,
            None => return json!({"ev": "errpos", "case": ci, "doc": di, "plan": plan, "status": "noanchor", "is_file": file}),
        }
    }
    let (s0, s1) = doc.spans[a];
    let toks: Vec<Tok> = tokenize(&doc.text[s0..s1]);
    let t = match anchor {
        "after_default" => (toks.iter().position(|t| &doc.text[s0 + t.start..s0 + t.end] == "DEFAULT").unwrap() + 1).min(toks.len() - 1),
        "last" => toks.len().saturating_sub(1),
        _ => plan["t"].as_u64().unwrap() as usize % toks.len().max(1),
    };
    let tok = &toks[t];
    let (ts, te) = (s0 + tok.start, s0 + tok.end);
    let stuff = match plan["stuff"].as_str().unwrap() {
        "notoken" => "#",
        "word" => "Zork",
        _ => "}",
    };
    let edit = plan["edit"].as_str().unwrap();
    let (text, bad_at) = match edit {
        "delete" => (format!("{}{}", &doc.text[..ts], &doc.text[te..]), ts),
        "replace" => (format!("{}{stuff}{}", &doc.text[..ts], &doc.text[te..]), ts),
        _ => (format!("{}{stuff} {}", &doc.text[..ts], &doc.text[ts..]), ts),
    };
    // lower bound: first token of the malformed assignment; an edit at its very first tokens can
    // make the text continue the previous assignment, which is then the first malformed one
    let lower = if t <= 1 && a > 0 { doc.spans[a - 1].0 } else if t <= 1 { 0 } else { s0 };
    // upper bound: the inserted character that starts no token; otherwise the end of the next assignment
    let delta = text.len() as i64 - doc.text.len() as i64;
    let upper = if edit != "delete" && stuff == "#" {
        bad_at as i64
    } else {
        doc.spans.get(a + 1).map(|s| s.1 as i64 + delta).unwrap_or(text.len() as i64)
    };
    // every seventh file source has a name that is not UTF-8 (a Latin-1 e-acute): the report then carries the lossy form
    let os_path: std::path::PathBuf = if (ci + di) % 7 == 3 {
        use std::os::unix::ffi::OsStrExt;
        let mut b = format!("{dir}/case{ci}_{di}-").into_bytes();
        b.extend_from_slice(b"\xE9.asn");
        std::path::PathBuf::from(std::ffi::OsStr::from_bytes(&b))
    } else {
        std::path::PathBuf::from(format!("{dir}/case{ci}_{di}.asn"))
    };
    let path = os_path.to_string_lossy().to_string();
    let mut ev = json!({"ev": "errpos", "case": ci, "doc": di, "plan": plan, "len": text.len(), "lower": lower, "upper": upper,
                        "is_file": file, "status": "", "offset": -1, "line": -1, "lf_before": -1, "column": -1,
                        "display_line": -1, "ctx_line": -1, "ctx_text_same": true, "ctx_panicked": false, "src_file": "", "display": "",
                        "asn": text.get(lower.min(text.len())..).map(|x| x.chars().take(160).collect::<String>()).unwrap_or_default().replace('\r', "\\r").replace('\n', "\\n")});
    if file {
        std::fs::write(&os_path, &text).unwrap();
    }
    let r = catch_unwind(AssertUnwindSafe(|| {
        if file {
            Compiler::<RasnBackend, _>::new().add_asn_by_path(&os_path).compile_to_string()
        } else {
            Compiler::<RasnBackend, _>::new().add_asn_literal(text.clone()).compile_to_string()
        }
    }));
    match r {
        Err(_) => ev["status"] = json!("panic"),
        Ok(Ok(_)) => ev["status"] = json!("ok"),
        Ok(Err(CompilerError::Lexer(e))) => match &e.kind {
            LexerErrorType::MatchingError(rd) => {
                ev["status"] = json!("lexer");
                ev["offset"] = json!(rd.offset);
                ev["line"] = json!(rd.line);
                ev["column"] = json!(rd.column);
                ev["lf_before"] = json!(text.as_bytes().iter().take(rd.offset.min(text.len())).filter(|b| **b == b'\n').count());
                ev["src_file"] = json!(rd.src_file.clone().unwrap_or_default());
                let d = e.to_string();
                ev["display_line"] = json!(parse_line_from_display(&d));
                ev["display"] = json!(d);
                match catch_unwind(AssertUnwindSafe(|| e.contextualize(&text))) {
                    Ok(c) => {
                        ev["ctx_line"] = json!(marked_line(&c));
                        // the marked row must show the text of that very line
                        let want = text.split('\n').nth(rd.line.saturating_sub(1)).unwrap_or("").trim_end_matches('\r').trim().to_string();
                        // (the excerpt starts at the context offset, which may lie inside the line: the row shows the line or its tail)
                        ev["ctx_text_same"] = json!(marked_text(&c).map(|t| want.ends_with(&t)).unwrap_or(true));
                    }
                    Err(_) => ev["ctx_panicked"] = json!(true),
                }
            }
            other => {
                ev["status"] = json!("lexer_other");
                ev["display"] = json!(format!("{other:?}"));
            }
        },
        Ok(Err(other)) => {
            ev["status"] = json!("err_other");
            ev["display"] = json!(other.to_string());
        }
    }
    if file {
        let _ = std::fs::remove_file(&os_path);
        ev["path"] = json!(path);
    }
    ev
}

/// vharness c17 --cases <plans> --inputs <module sets> --dir <scratch dir> --trace <ndjson>
pub fn drive(args: &[String]) -> i32 {
    let plans = util::read_ndjson(util::arg(args, "--cases").expect("--cases"));
    let sets = util::read_ndjson(util::arg(args, "--inputs").expect("--inputs"));
    let dir = util::arg(args, "--dir").expect("--dir").to_string();
    std::fs::create_dir_all(&dir).unwrap();
    let per_plan: usize = util::arg(args, "--docs").and_then(|s| s.parse().ok()).unwrap_or(3);
    let tables: Vec<Table> = sets.iter().map(Table::from_json).filter(|t| !t.defs().is_empty()).collect();
    let jobs: Vec<(usize, &Value)> = plans.iter().enumerate().collect();
    // documents that have a DEFAULT somewhere, for the plans anchored there
    let with_default: Vec<usize> = (0..tables.len()).filter(|i| tables[*i].text().contains(" DEFAULT ")).collect();
    let events = util::par_chunks(&jobs, 16, util::threads(), |_, chunk| {
        run::install_panic_hook();
        let mut evs = vec![];
        for (ci, p) in chunk {
            for k in 0..per_plan {
                let mut di = (ci * 5 + k * 7) % tables.len();
                if p["anchor"] == "after_default" && !with_default.is_empty() {
                    di = with_default[(ci * 5 + k * 7) % with_default.len()];
                }
                evs.push(one(*ci, p, di, &tables[di], &dir));
            }
        }
        evs
    });
    util::write_ndjson(util::arg(args, "--trace").expect("--trace"), &events);
    eprintln!("c17: {} plans x {per_plan} documents, {} events", plans.len(), events.len());
    0
}
