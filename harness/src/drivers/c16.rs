//! C16 driver: one ASN.1 name in one role per case; each case is compiled on its own (the
//! name is the subject, so cases cannot share a module).
use crate::{rsproj, run, util};
use serde_json::{json, Value};

fn asn_name(c: &Value) -> String {
    let kw = c["kw"].as_str().unwrap_or("");
    if kw.is_empty() {
        c["name"].as_array().unwrap().iter().map(|x| x.as_str().unwrap()).collect()
    } else {
        match c["spell"].as_str().unwrap() {
            "upper" => kw.to_uppercase(),
            "title" => {
                let mut ch = kw.chars();
                ch.next().map(|f| f.to_uppercase().collect::<String>() + ch.as_str()).unwrap_or_default()
            }
            _ => kw.to_string(),
        }
    }
}

fn render(c: &Value, name: &str) -> String {
    let body = match c["role"].as_str().unwrap() {
        "module" => return format!("{name} DEFINITIONS AUTOMATIC TAGS ::= BEGIN\nTx ::= BOOLEAN\nEND\n"),
        "type" => format!("{name} ::= SEQUENCE {{ f BOOLEAN }}"),
        "component" => format!("Tx ::= SEQUENCE {{ {name} BOOLEAN }}"),
        "alternative" => format!("Tx ::= CHOICE {{ {name} BOOLEAN }}"),
        "enumeral" => format!("Tx ::= ENUMERATED {{ {name} }}"),
        "value" => format!("{name} INTEGER ::= 5"),
        other => panic!("role {other}"),
    };
    format!("Idm DEFINITIONS AUTOMATIC TAGS ::= BEGIN\n{body}\nEND\n")
}

fn chars(s: &str) -> Vec<String> {
    s.chars().map(|c| c.to_string()).collect()
}

fn one(c: &Value) -> Value {
    let name = asn_name(c);
    let text = render(c, &name);
    let (o, _) = run::compile_rasn1(&text);
    let mut ev = c.clone();
    ev["ev"] = json!("ident");
    ev["asn"] = json!(name);
    ev["asn_chars"] = json!(chars(&name));
    ev["src"] = json!(text);
    ev["status"] = json!(if o.status == "ok" && !o.warnings.is_empty() { "warn".to_string() } else { o.status.clone() });
    ev["detail"] = json!(format!("{}{}{}", o.error, o.panic_msg, o.warnings.join(" | ")));
    ev["rust"] = json!("");
    ev["rust_chars"] = json!([]);
    ev["has_annot"] = json!(false);
    ev["annot"] = json!("");
    ev["parsed_ok"] = json!(false);
    if o.status != "ok" || !o.warnings.is_empty() {
        return ev;
    }
    let krate = rsproj::project(&o.generated);
    ev["parsed_ok"] = json!(krate.parsed_ok);
    if !krate.parsed_ok {
        ev["detail"] = json!(krate.parse_error);
        // still report the identifier text where it can be recovered from the token text
        return ev;
    }
    let module = krate.modules.iter().find(|m| !m.name.is_empty());
    let Some(module) = module else {
        ev["status"] = json!("missing");
        return ev;
    };
    let decl: Vec<&rsproj::RItem> = module.items.iter().filter(|i| i.kind != "impl" && i.kind != "fn").collect();
    let found: Option<(String, Option<String>)> = match c["role"].as_str().unwrap() {
        "module" => Some((module.name.clone(), None)),
        "type" => decl.first().map(|i| (i.name.clone(), i.attrs.nv("identifier"))),
        "component" => decl.first().and_then(|i| i.fields.first()).map(|f| (f.name.clone(), f.attrs.nv("identifier"))),
        "alternative" | "enumeral" => decl.first().and_then(|i| i.variants.first()).map(|v| (v.name.clone(), v.attrs.nv("identifier"))),
        "value" => decl.first().map(|i| (i.name.clone(), None)),
        _ => None,
    };
    match found {
        Some((rust, annot)) => {
            ev["rust_chars"] = json!(chars(&rust));
            ev["rust"] = json!(rust);
            ev["has_annot"] = json!(annot.is_some());
            ev["annot"] = json!(annot.unwrap_or_default());
        }
        None => ev["status"] = json!("missing"),
    }
    ev
}

/// The identifiers DERIVED from the name: the item of an anonymous inner type (<Parent><Member>), the default function of a
/// component (<parent>_<member>_default), the payload types of From impls.  The name is used as parent (role type) or as member
/// (roles component, alternative) of an inline SEQUENCE with a DEFAULT, compiled with generate_from_impls on.
fn derived(c: &Value) -> Option<Value> {
    if !c["kw"].as_str().unwrap_or("").is_empty() {
        return None;
    }
    let name = asn_name(c);
    let body = match c["role"].as_str().unwrap() {
        "type" => format!("{name} ::= CHOICE {{ inner SEQUENCE {{ f BOOLEAN DEFAULT TRUE }}, plain BOOLEAN }}"),
        "component" => format!("Tx ::= SEQUENCE {{ {name} SEQUENCE {{ f BOOLEAN DEFAULT TRUE }} OPTIONAL, plain INTEGER DEFAULT 5 }}"),
        "alternative" => format!("Tx ::= CHOICE {{ {name} SEQUENCE {{ f BOOLEAN DEFAULT TRUE }}, plain BOOLEAN }}"),
        _ => return None,
    };
    let text = format!("Idm DEFINITIONS AUTOMATIC TAGS ::= BEGIN\n{body}\nEND\n");
    let cfg = rasn_compiler::prelude::RasnConfig { generate_from_impls: true, ..Default::default() };
    let (o, _) = run::compile_rasn(&[text.clone()], cfg);
    let mut ev = c.clone();
    ev["ev"] = json!("derived");
    ev["variant"] = json!("derived");
    ev["asn"] = json!(name);
    ev["asn_chars"] = json!(chars(&name));
    ev["src"] = json!(text);
    ev["status"] = json!(if o.status == "ok" && !o.warnings.is_empty() { "warn".to_string() } else { o.status.clone() });
    ev["detail"] = json!(format!("{}{}{}", o.error, o.panic_msg, o.warnings.join(" | ")));
    ev["parsed_ok"] = json!(false);
    ev["idents"] = json!([]);
    ev["inner"] = json!([]);
    if o.status != "ok" || !o.warnings.is_empty() {
        return Some(ev);
    }
    let krate = rsproj::project(&o.generated);
    ev["parsed_ok"] = json!(krate.parsed_ok);
    if !krate.parsed_ok {
        ev["detail"] = json!(krate.parse_error);
        return Some(ev);
    }
    let mut idents: Vec<String> = vec![];
    let mut inner: Vec<String> = vec![];
    let words = |t: &str| -> Vec<String> {
        t.split(|ch: char| !(ch.is_alphanumeric() || ch == '_')).filter(|w| !w.is_empty() && !w.chars().next().unwrap().is_ascii_digit()).map(|w| w.to_string()).collect()
    };
    for m in &krate.modules {
        idents.push(m.name.clone());
        for it in &m.items {
            match it.kind.as_str() {
                "impl" => {
                    // impl From<Payload> for Choice
                    idents.extend(words(&it.ty));
                    idents.extend(words(&it.expr).into_iter().filter(|w| w != "From"));
                }
                "use" | "macro" | "other" => (),
                _ => {
                    idents.push(it.name.clone());
                    if it.kind != "fn" && it.name != "Tx" && !it.variants.iter().any(|v| v.name == "plain") && !it.fields.iter().any(|f| f.name == "plain") {
                        inner.push(it.name.clone());
                    }
                    idents.extend(it.fields.iter().map(|f| f.name.clone()));
                    idents.extend(it.variants.iter().map(|v| v.name.clone()));
                }
            }
        }
    }
    idents.sort();
    idents.dedup();
    ev["idents"] = json!(idents.iter().map(|i| json!({"s": i, "c": chars(i)})).collect::<Vec<_>>());
    ev["inner"] = json!(inner.iter().map(|i| chars(i)).collect::<Vec<_>>());
    Some(ev)
}

/// The identifier of a name in a role must not depend on where else the spelling is used: for the roles whose names start with
/// a lower-case letter (component, alternative, value) the case is compiled a second time in a module that uses the same
/// spelling in all three roles at once; the identifier of the case's own role is reported and judged like the first one.
fn crowded(c: &Value) -> Option<Value> {
    let role = c["role"].as_str().unwrap();
    if !matches!(role, "component" | "alternative" | "value") {
        return None;
    }
    let name = asn_name(c);
    let text = format!("Idm DEFINITIONS AUTOMATIC TAGS ::= BEGIN\n{name} INTEGER ::= 5\nTx ::= SEQUENCE {{ {name} BOOLEAN }}\nTy ::= CHOICE {{ {name} BOOLEAN }}\nEND\n");
    let (o, _) = run::compile_rasn1(&text);
    if o.status != "ok" || !o.warnings.is_empty() {
        return None; // the single-role event has reported what there is to report
    }
    let krate = rsproj::project(&o.generated);
    if !krate.parsed_ok {
        return None;
    }
    let module = krate.modules.iter().find(|m| !m.name.is_empty())?;
    let found: Option<(String, Option<String>)> = match role {
        "component" => module.items.iter().find(|i| i.name == "Tx").and_then(|i| i.fields.first()).map(|f| (f.name.clone(), f.attrs.nv("identifier"))),
        "alternative" => module.items.iter().find(|i| i.name == "Ty").and_then(|i| i.variants.first()).map(|v| (v.name.clone(), v.attrs.nv("identifier"))),
        _ => module.items.iter().find(|i| matches!(i.kind.as_str(), "const" | "static")).map(|i| (i.name.clone(), None)),
    };
    let (rust, annot) = found?;
    let mut ev = c.clone();
    ev["ev"] = json!("ident");
    ev["crowded"] = json!(true);
    ev["asn"] = json!(name);
    ev["asn_chars"] = json!(chars(&name));
    ev["src"] = json!(text);
    ev["status"] = json!("ok");
    ev["detail"] = json!("");
    ev["parsed_ok"] = json!(true);
    ev["rust_chars"] = json!(chars(&rust));
    ev["rust"] = json!(rust);
    ev["has_annot"] = json!(annot.is_some());
    ev["annot"] = json!(annot.unwrap_or_default());
    Some(ev)
}

/// vharness c16 --cases <ndjson> --trace <ndjson>
pub fn drive(args: &[String]) -> i32 {
    let cases = util::read_ndjson(util::arg(args, "--cases").expect("--cases"));
    let events = util::par_chunks(&cases, 64, util::threads(), |_, chunk| {
        run::install_panic_hook();
        chunk.iter().flat_map(|c| std::iter::once(one(c)).chain(derived(c)).chain(crowded(c))).collect()
    });
    util::write_ndjson(util::arg(args, "--trace").expect("--trace"), &events);
    eprintln!("c16: {} cases, {} events", cases.len(), events.len());
    0
}
