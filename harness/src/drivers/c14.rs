//! C14 driver: one ENUMERATED type per case.
use crate::{rsproj, run, util};
use rasn_compiler::prelude::ir::*;
use serde_json::{json, Value};

const NONUM: i64 = 99;

fn render(k: usize, case: &Value) -> (String, Vec<String>) {
    let root = util::as_i64s(&case["root"]);
    let ext = util::as_i64s(&case["ext"]);
    let marker = case["marker"].as_bool().unwrap_or(false);
    let mut ids = vec![];
    let item = |i: usize, n: i64, ids: &mut Vec<String>| {
        // the identifiers are it0, it1, ..; every fifth type spells them like Rust reserved words or with a hyphen, which the
        // generator has to rename and to keep recoverable through an identifier annotation
        const ODD: [&str; 8] = ["type", "final", "abstract", "in", "virtual", "dark-red", "x-1", "self"];
        let id = if k % 5 == 3 { ODD[i % ODD.len()].to_string() } else { format!("it{i}") };
        ids.push(id.clone());
        if n == NONUM { id } else { format!("{id}({n})") }
    };
    let mut parts: Vec<String> = root.iter().enumerate().map(|(i, n)| item(i, *n, &mut ids)).collect();
    if marker {
        parts.push("...".into());
    }
    for (j, n) in ext.iter().enumerate() {
        parts.push(item(root.len() + j, *n, &mut ids));
    }
    (format!("En{k} ::= ENUMERATED {{ {} }}", parts.join(", ")), ids)
}

fn observe(k: usize, case: &Value, ids: &[String], o: &run::Outcome, krate: &rsproj::RCrate, ir: &[ToplevelDefinition], text: &str) -> Value {
    let name = format!("En{k}");
    let mut ev = json!({
        "ev": "enum", "k": k, "root": case["root"], "ext": case["ext"], "marker": case["marker"],
        "src_ids": ids, "asn": text,
        "status": if o.status == "ok" && !o.warnings.is_empty() { "warn".to_string() } else { o.status.clone() },
        "discs": [], "ir": [], "out_ids": [], "extflags": [], "detail": "",
    });
    if o.status != "ok" {
        ev["detail"] = json!(format!("{}{}", o.error, o.panic_msg));
        return ev;
    }
    if let Some(w) = o.warnings.iter().find(|w| w.contains(&name)) {
        ev["detail"] = json!(w);
    }
    match krate.item(&name) {
        Some(it) if it.kind == "enum" => {
            ev["discs"] = json!(it.variants.iter().map(|v| v.disc.as_ref().and_then(|d| d.replace(' ', "").parse::<i64>().ok()).unwrap_or(-99999)).collect::<Vec<_>>());
            ev["out_ids"] = json!(it.variants.iter().map(|v| v.attrs.nv("identifier").unwrap_or(v.name.clone())).collect::<Vec<_>>());
            ev["extflags"] = json!(it.variants.iter().map(|v| v.attrs.has("extension_addition")).collect::<Vec<_>>());
            ev["status"] = json!("ok");
        }
        _ => {
            ev["status"] = json!("missing");
        }
    }
    for t in ir {
        if let ToplevelDefinition::Type(t) = t {
            if t.name == name {
                if let ASN1Type::Enumerated(e) = &t.ty {
                    ev["ir"] = json!(e.members.iter().map(|m| m.index as i64).collect::<Vec<_>>());
                }
            }
        }
    }
    ev
}

fn run_batch(base: usize, cases: &[Value]) -> Vec<Value> {
    let rendered: Vec<(String, Vec<String>)> = cases.iter().enumerate().map(|(i, c)| render(base + i, c)).collect();
    let module = |body: &str| format!("Enums DEFINITIONS AUTOMATIC TAGS ::= BEGIN\n{body}\nEND\n");
    let all = module(&rendered.iter().map(|r| r.0.clone()).collect::<Vec<_>>().join("\n"));
    let (o, ir) = run::compile_rasn1(&all);
    if o.clean() {
        let krate = rsproj::project(&o.generated);
        return cases.iter().enumerate().map(|(i, c)| observe(base + i, c, &rendered[i].1, &o, &krate, &ir, &rendered[i].0)).collect();
    }
    // something in the batch upset the compiler: one compilation per case, so that one case
    // cannot hide the others
    cases
        .iter()
        .enumerate()
        .map(|(i, c)| {
            let (o, ir) = run::compile_rasn1(&module(&rendered[i].0));
            let krate = rsproj::project(&o.generated);
            observe(base + i, c, &rendered[i].1, &o, &krate, &ir, &rendered[i].0)
        })
        .collect()
}

/// vharness c14 --cases <ndjson> --trace <ndjson> [--batch n]
pub fn drive(args: &[String]) -> i32 {
    let cases = util::read_ndjson(util::arg(args, "--cases").expect("--cases"));
    let batch: usize = util::arg(args, "--batch").and_then(|s| s.parse().ok()).unwrap_or(400);
    let events = util::par_chunks(&cases, batch, util::threads(), |base, chunk| {
        run::install_panic_hook();
        run_batch(base, chunk)
    });
    util::write_ndjson(util::arg(args, "--trace").expect("--trace"), &events);
    eprintln!("c14: {} cases, {} events", cases.len(), events.len());
    0
}
