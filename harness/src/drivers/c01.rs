//! C01 driver: writes the bindings of every warning-free compilation into a scratch crate (one
//! file per case); `cargo check` against the real rasn crate is run by the Python side.
use crate::drivers::c19::{choice_module, config_of};
use crate::notation::Table;
use crate::{rsproj, run, util};
use serde_json::{json, Value};

/// boundary ranges with a DEFAULT: field type and default function must agree on the integer type
fn width_module() -> String {
    let bounds: [(&str, &str); 14] = [("-128", "127"), ("-129", "127"), ("-128", "128"), ("0", "255"), ("0", "256"), ("-32768", "32767"), ("-32769", "0"),
                                      ("0", "65535"), ("-2147483648", "2147483647"), ("0", "4294967295"), ("-9223372036854775808", "9223372036854775807"),
                                      ("0", "18446744073709551615"), ("-1", "0"), ("-9223372036854775809", "5")];
    let mut comps = vec![];
    for (i, (lo, hi)) in bounds.iter().enumerate() {
        comps.push(format!("w{i} INTEGER ({lo}..{hi}) DEFAULT {lo}"));
        comps.push(format!("n{i} SEQUENCE {{ inner INTEGER ({lo}..{hi}) DEFAULT {hi} }} OPTIONAL"));
    }
    let named: Vec<String> = bounds.iter().enumerate().map(|(i, (lo, hi))| format!("Named{i} ::= INTEGER ({lo}..{hi})\nnv{i} Named{i} ::= {lo}")).collect();
    format!("Widths DEFINITIONS AUTOMATIC TAGS ::= BEGIN\nHolder ::= SEQUENCE {{ {} }}\n{}\nEND\n", comps.join(",\n  "), named.join("\n"))
}

/// does the module import anything? (comments are skipped roughly: good enough to select stand-alone modules)
fn has_imports(text: &str) -> bool {
    let mut clean = String::new();
    for line in text.lines() {
        clean.push_str(line.split("--").next().unwrap_or(""));
        clean.push('\n');
    }
    let mut rest = clean.as_str();
    while let Some(p) = rest.find("IMPORTS") {
        let after = &rest[p + 7..];
        match after.find(';') {
            Some(q) if after[..q].trim().is_empty() => rest = &after[q..],
            _ => return true,
        }
    }
    false
}

/// the same tokens, one item per line, so that a diagnostic's line names the item it is about
pub fn one_item_per_line(text: &str) -> String {
    use quote::ToTokens;
    let Ok(file) = syn::parse_file(text) else { return text.to_string() };
    let mut out = String::new();
    for it in &file.items {
        match it {
            syn::Item::Mod(m) if m.content.is_some() => {
                for a in &m.attrs {
                    out.push_str(&a.to_token_stream().to_string());
                    out.push('\n');
                }
                out.push_str(&format!("pub mod {} {{\n", m.ident));
                for inner in &m.content.as_ref().unwrap().1 {
                    out.push_str(&inner.to_token_stream().to_string());
                    out.push('\n');
                }
                out.push_str("}\n");
            }
            other => {
                out.push_str(&other.to_token_stream().to_string());
                out.push('\n');
            }
        }
    }
    out
}

/// vharness c01 --sets <ndjson> --cfgs <ndjson> --patterns <ndjson> --per-set <n> --crate <dir> --plan <json>
/// ENUMERATED types over every root of 1..3 items numbered from {none, -1, 0, 1, 2, 5} (explicit numbers distinct, in every
/// order), without marker, with a marker, and with one or two identifier-only additions: whatever numbers the compiler assigns,
/// the discriminants of one enum have to be distinct for rustc (E0081)
/// every strict and reserved Rust keyword (Idents.tla: Keywords) as component, alternative and enumeral name, `Self` also as
/// type name: whatever the generator makes of them must still be Rust
fn keyword_module() -> String {
    const KW: [&str; 51] = ["as", "break", "const", "continue", "crate", "else", "enum", "extern", "false", "fn", "for", "if", "impl", "in", "let", "loop", "match",
                            "mod", "move", "mut", "pub", "ref", "return", "self", "static", "struct", "super", "trait", "true", "type", "unsafe", "use", "where",
                            "while", "async", "await", "dyn", "abstract", "become", "box", "do", "final", "macro", "override", "priv", "typeof", "unsized",
                            "virtual", "yield", "try", "union"];
    let comps: Vec<String> = KW.iter().enumerate().map(|(i, k)| if i % 3 == 0 { format!("{k} INTEGER (0..7) DEFAULT 1") } else if i % 3 == 1 { format!("{k} BOOLEAN OPTIONAL") } else { format!("{k} NULL") }).collect();
    let alts: Vec<String> = KW.iter().map(|k| format!("{k} BOOLEAN")).collect();
    format!("Kwmod DEFINITIONS AUTOMATIC TAGS ::= BEGIN\nKwseq ::= SEQUENCE {{ {} }}\nKwcho ::= CHOICE {{ {} }}\nKwenu ::= ENUMERATED {{ {} }}\nSelf ::= INTEGER (0..7)\nKwuse ::= SEQUENCE {{ a Self, b Kwenu DEFAULT self }}\nEND\n",
            comps.join(", "), alts.join(", "), KW.join(", "))
}

/// SEQUENCE / SET types whose components all have a DEFAULT get an `impl Default` that calls the components' default functions:
/// definition and call must agree on the function's name for every shape of type name (Idents.tla: DefaultFnAgreement)
fn default_impl_module() -> String {
    let names = ["Plain", "PDU-Config", "MY-Seq", "Profile-2", "T4X", "NGAP-PDU-x", "Ab-CD-ef", "X509-Cert", "A-b", "ABc"];
    let defs: Vec<String> = names.iter().enumerate().map(|(i, n)| {
        let kind = if i % 2 == 0 { "SEQUENCE" } else { "SET" };
        format!("{n} ::= {kind} {{ a INTEGER (0..7) DEFAULT 1, b-c BOOLEAN DEFAULT TRUE, dE UTF8String DEFAULT \"x\" }}")
    }).collect();
    format!("Dfltmod DEFINITIONS AUTOMATIC TAGS ::= BEGIN\n{}\nEND\n", defs.join("\n"))
}

fn enum_module() -> String {
    const NUMS: [Option<i64>; 6] = [None, Some(-1), Some(0), Some(1), Some(2), Some(5)];
    let mut roots: Vec<Vec<Option<i64>>> = vec![];
    for a in NUMS {
        roots.push(vec![a]);
        for b in NUMS {
            roots.push(vec![a, b]);
            for c in NUMS {
                roots.push(vec![a, b, c]);
            }
        }
    }
    roots.retain(|r| {
        let ex: Vec<i64> = r.iter().flatten().copied().collect();
        (0..ex.len()).all(|i| (0..i).all(|j| ex[i] != ex[j]))
    });
    let mut lines = vec![];
    for (k, r) in roots.iter().enumerate() {
        for ext in 0..4 {
            let mut parts: Vec<String> = r.iter().enumerate().map(|(i, n)| match n { Some(n) => format!("e{i}({n})"), None => format!("e{i}") }).collect();
            if ext > 0 {
                parts.push("...".into());
            }
            for j in 1..ext {
                parts.push(format!("x{j}"));
            }
            lines.push(format!("En{k}x{ext} ::= ENUMERATED {{ {} }}", parts.join(", ")));
        }
    }
    format!("Enums DEFINITIONS AUTOMATIC TAGS ::= BEGIN\n{}\nEND\n", lines.join("\n"))
}

pub fn drive(args: &[String]) -> i32 {
    let sets = util::read_ndjson(util::arg(args, "--sets").expect("--sets"));
    let cfgs: Vec<Value> = util::read_ndjson(util::arg(args, "--cfgs").expect("--cfgs")).into_iter()
        .filter(|c| c["cfg"]["ann"] != "extra_derives" && c["cfg"]["ann"] != "with_copy" && c["cfg"]["ann"] != "path_derive").collect();
    let patterns = util::read_ndjson(util::arg(args, "--patterns").expect("--patterns"));
    let per_set: usize = util::arg(args, "--per-set").and_then(|s| s.parse().ok()).unwrap_or(1);
    let dir = util::arg(args, "--crate").expect("--crate").to_string();
    std::fs::create_dir_all(format!("{dir}/src")).unwrap();
    // inputs: CHOICE payload patterns and integer width boundaries under every boolean combination, generated sets under per_set configurations
    let mut jobs: Vec<(Vec<String>, usize, &str)> = vec![];
    let fixed = [(vec![choice_module(&patterns)], "patterns"), (vec![width_module()], "widths")];
    for (src, what) in &fixed {
        for (j, c) in cfgs.iter().enumerate() {
            if c["cfg"]["imports"] == 0 && c["cfg"]["ann"] == "default" {
                jobs.push((src.clone(), j, what));
            }
        }
    }
    // the enumeration module once, under the default configuration
    if let Some(j) = cfgs.iter().position(|c| c["cfg"]["imports"] == 0 && c["cfg"]["ann"] == "default" && c["cfg"]["opaque"] == true && c["cfg"]["wild"] == false
                                              && c["cfg"]["from"] == false && c["cfg"]["nostd"] == false) {
        jobs.push((vec![enum_module()], j, "enums"));
        jobs.push((vec![keyword_module()], j, "keywords"));
        jobs.push((vec![default_impl_module()], j, "default impls"));
    }
    // real-world modules of the repository that stand alone (no IMPORTS) -- beyond the generator grammar
    if let Some(dir) = util::arg(args, "--corpus") {
        let stride: usize = util::arg(args, "--corpus-stride").and_then(|s| s.parse().ok()).unwrap_or(6);
        let mut files: Vec<std::path::PathBuf> = std::fs::read_dir(dir).map(|d| d.flatten().map(|e| e.path()).collect()).unwrap_or_default();
        files.sort();
        for (k, f) in files.iter().enumerate() {
            if k % stride != 0 {
                continue;
            }
            let Ok(text) = std::fs::read_to_string(f) else { continue };
            if has_imports(&text) {
                continue;
            }
            jobs.push((vec![text], 0, "corpus"));
        }
    }
    for (i, s) in sets.iter().enumerate() {
        let t = Table::from_json(s);
        let src: Vec<String> = (1..=t.mods.tagdef.len()).map(|m| t.module_text(m, None)).collect();
        for k in 0..per_set {
            jobs.push((src.clone(), (i * 7 + k * 29) % cfgs.len(), "generated"));
        }
    }
    // imported names (MC_NestChains EmitImported): a type of every name shape imported and used by a second module, under the
    // wildcard-import and no_std options
    if let Some(named) = util::arg(args, "--named") {
        for s in util::read_ndjson(named) {
            let t = Table::from_json(&s);
            let src: Vec<String> = (1..=t.mods.tagdef.len()).map(|m| t.module_text(m, None)).collect();
            for (j, c) in cfgs.iter().enumerate() {
                if c["cfg"]["imports"] == 0 && c["cfg"]["ann"] == "default" && c["cfg"]["opaque"] == true && c["cfg"]["from"] == false {
                    jobs.push((src.clone(), j, "imported-names"));
                }
            }
        }
    }
    let default_cfg = cfgs.iter().find(|c| c["cfg"]["opaque"] == true && c["cfg"]["wild"] == false && c["cfg"]["from"] == false && c["cfg"]["nostd"] == false
                                       && c["cfg"]["imports"] == 0 && c["cfg"]["ann"] == "default").cloned().expect("default configuration");
    let idx: Vec<usize> = (0..jobs.len()).collect();
    let plan: Vec<Value> = util::par_chunks(&idx, 8, util::threads(), |_, chunk| {
        run::install_panic_hook();
        chunk.iter().map(|&i| {
            let (src, j, what) = &jobs[i];
            let mut cfgv = if *what == "corpus" { default_cfg.clone() } else { cfgs[*j].clone() };
            // custom imports name items of the scratch crate
            cfgv["custom_imports"] = json!(cfgv["custom_imports"].as_array().unwrap().iter().map(|x| format!("crate::{}", x.as_str().unwrap())).collect::<Vec<_>>());
            let (o, _) = run::compile_rasn(src, config_of(&cfgv));
            let status = if o.status == "ok" && !o.warnings.is_empty() { "warn".to_string() } else { o.status.clone() };
            let mut e = json!({"ev": "typecheck", "case": i, "input": what, "cfg": cfgv["cfg"], "status": status, "parsed": false, "file": "",
                               "types": 0, "asn": src.join("\n").chars().take(3000).collect::<String>(),
                               "detail": format!("{}{}{}", o.error, o.panic_msg, o.warnings.first().cloned().unwrap_or_default())});
            if status == "ok" {
                let k = rsproj::project(&o.generated);
                e["parsed"] = json!(k.parsed_ok);
                e["types"] = json!(k.all_items().filter(|x| matches!(x.kind.as_str(), "struct" | "tuple_struct" | "enum")).count());
                if k.parsed_ok {
                    let file = format!("case_{i}.rs");
                    std::fs::write(format!("{dir}/src/{file}"), one_item_per_line(&o.generated)).unwrap();
                    e["file"] = json!(file);
                } else {
                    e["detail"] = json!(k.parse_error);
                }
            }
            e
        }).collect()
    });
    let mut lib = String::from("#![allow(warnings)]\npub mod verif_a { pub struct Alpha; }\npub mod verif_b { pub struct Anything; }\npub mod verif_c { pub mod inner { pub struct Beta; pub struct Gamma; } }\n");
    for e in &plan {
        if let Some(f) = e["file"].as_str().filter(|f| !f.is_empty()) {
            lib.push_str(&format!("#[path = \"{f}\"]\npub mod {};\n", f.trim_end_matches(".rs")));
        }
    }
    std::fs::write(format!("{dir}/src/lib.rs"), lib).unwrap();
    std::fs::write(util::arg(args, "--plan").expect("--plan"), serde_json::to_string(&plan).unwrap()).unwrap();
    eprintln!("c01: {} compilations, {} written to the scratch crate", plan.len(), plan.iter().filter(|e| e["file"] != "").count());
    0
}
