//! C05 driver: one extensible-type layout per case.
use crate::{rsproj, run, util};
use rasn_compiler::prelude::ir::*;
use serde_json::{json, Value};

fn render_type(case: &Value) -> String {
    render_type_k(0, case)
}

/// `k` odd: the enumerals of an ENUMERATED carry explicit numbers that go *down* (an addition numbered below the root is legal,
/// X.680 20.4), so that the order of the numbers is not the order of the items
fn render_type_k(k: usize, case: &Value) -> String {
    let kind = case["kind"].as_str().unwrap();
    let numbered = kind == "ENUMERATED" && k % 2 == 1;
    let comp_ty = if kind == "ENUMERATED" { "" } else { " BOOLEAN" };
    let mut parts: Vec<String> = vec![];
    let mut n = 0usize;
    let mut group_no = 1;
    for x in case["layout"].as_array().unwrap() {
        match x["t"].as_str().unwrap() {
            "r" | "a" => {
                n += 1;
                parts.push(if numbered { format!("c{n}({})", 100 - n * 7) } else { format!("c{n}{comp_ty}") });
            }
            "m" => parts.push("...".into()),
            "g" => {
                group_no += 1;
                let cnt = x["n"].as_u64().unwrap() as usize;
                let comps: Vec<String> = (0..cnt)
                    .map(|_| {
                        n += 1;
                        format!("c{n}{comp_ty}")
                    })
                    .collect();
                let ver = if x["ver"].as_bool().unwrap() { format!("{group_no}: ") } else { String::new() };
                parts.push(format!("[[ {ver}{} ]]", comps.join(", ")));
            }
            other => panic!("layout element {other}"),
        }
    }
    format!("{kind} {{ {} }}", parts.join(", "))
}

fn render(k: usize, case: &Value) -> String {
    let _ = render_type;
    let ty = render_type_k(k, case);
    if case["nested"].as_bool().unwrap() {
        // among the outer types that make the layout "an anonymous component" the harness rotates: every third one also has a
        // component whose type is an object-class field type -- the linker rebuilds such a definition, nested types included
        if k % 3 == 1 {
            return format!("Tx{k} ::= SEQUENCE {{ key VCLS.&id, inner {ty} }}");
        }
        format!("Tx{k} ::= SEQUENCE {{ inner {ty} }}")
    } else {
        format!("Tx{k} ::= {ty}")
    }
}

fn ir_ext(ty: &ASN1Type) -> i64 {
    let e = match ty {
        ASN1Type::Sequence(s) | ASN1Type::Set(s) => s.extensible,
        ASN1Type::Choice(c) => c.extensible,
        ASN1Type::Enumerated(e) => e.extensible,
        _ => return -2,
    };
    e.map(|i| i as i64).unwrap_or(-1)
}

fn strip_opt(t: &str) -> (bool, String) {
    match t.strip_prefix("Option<").and_then(|s| s.strip_suffix('>')) {
        Some(inner) => (true, inner.to_string()),
        None => (false, t.to_string()),
    }
}

fn observe(k: usize, case: &Value, text: &str, o: &run::Outcome, krate: &rsproj::RCrate, ir: &[ToplevelDefinition]) -> Value {
    let name = format!("Tx{k}");
    let mut ev = json!({
        "ev": "ext", "k": k, "kind": case["kind"], "implied": case["implied"], "nested": case["nested"],
        "layout": case["layout"], "asn": text, "status": o.status, "detail": "",
        "non_exhaustive": false, "obs": [], "ir_ext": -3, "is_set": false,
    });
    if o.status != "ok" {
        ev["detail"] = json!(format!("{}{}", o.error, o.panic_msg));
        return ev;
    }
    if let Some(w) = o.warnings.iter().find(|w| w.contains(&name)) {
        ev["status"] = json!("warn");
        ev["detail"] = json!(w);
        return ev;
    }
    let nested = case["nested"].as_bool().unwrap();
    let Some(outer) = krate.item(&name) else {
        ev["status"] = json!("missing");
        return ev;
    };
    let item = if nested {
        let inner_ty = outer.fields.iter().find(|f| f.name == "inner").map(|f| strip_opt(&f.ty).1);
        match inner_ty.and_then(|t| krate.item(&t)) {
            Some(i) => i,
            None => {
                ev["status"] = json!("missing");
                return ev;
            }
        }
    } else {
        outer
    };
    ev["non_exhaustive"] = json!(item.attrs.non_exhaustive);
    ev["is_set"] = json!(item.attrs.has("set"));
    let mut obs = vec![];
    if item.kind == "enum" {
        for v in &item.variants {
            let role = if v.attrs.has("extension_addition_group") {
                "group"
            } else if v.attrs.has("extension_addition") {
                "add"
            } else {
                "root"
            };
            obs.push(json!({"role": role, "names": [v.attrs.nv("identifier").unwrap_or(v.name.clone())], "opt": false}));
        }
    } else {
        for f in &item.fields {
            let (opt, inner) = strip_opt(&f.ty);
            if f.attrs.has("extension_addition_group") {
                let names: Vec<String> = krate
                    .item(&inner)
                    .map(|g| g.fields.iter().map(|gf| gf.attrs.nv("identifier").unwrap_or(gf.name.clone())).collect())
                    .unwrap_or_else(|| vec![format!("<no item {inner}>")]);
                obs.push(json!({"role": "group", "names": names, "opt": opt}));
            } else {
                let role = if f.attrs.has("extension_addition") { "add" } else { "root" };
                obs.push(json!({"role": role, "names": [f.attrs.nv("identifier").unwrap_or(f.name.clone())], "opt": opt}));
            }
        }
    }
    ev["obs"] = json!(obs);
    for t in ir {
        if let ToplevelDefinition::Type(t) = t {
            if t.name == name {
                ev["ir_ext"] = json!(if nested {
                    match &t.ty {
                        ASN1Type::Sequence(s) => s.members.iter().find(|m| m.name == "inner").map(|m| ir_ext(&m.ty)).unwrap_or(-3),
                        _ => -3,
                    }
                } else {
                    ir_ext(&t.ty)
                });
            }
        }
    }
    ev
}

/// `flip` exchanges the alphabetical order of the two module names, so that over the batches
/// the EXTENSIBILITY IMPLIED module is generated both before and after its neighbour
fn module(implied: bool, flip: bool, body: &str, tags: Option<&str>) -> String {
    // the header points of the model give the TAGS clause (or none); the main sweep says AUTOMATIC TAGS
    let tags = match tags {
        Some("none") => String::new(),
        Some(t) => format!("{t} TAGS "),
        None => "AUTOMATIC TAGS ".into(),
    };
    let class = if body.contains("VCLS.&id") { "VCLS ::= CLASS { &id INTEGER UNIQUE, &Type }\n" } else { "" };
    format!(
        "Ext{} DEFINITIONS {tags}{}::= BEGIN\n{class}{body}\nEND\n",
        if implied != flip { "Zz" } else { "Aa" },
        if implied { "EXTENSIBILITY IMPLIED " } else { "" }
    )
}

fn run_batch(base: usize, cases: &[Value], force_flip: Option<bool>) -> Vec<Value> {
    let texts: Vec<String> = cases.iter().enumerate().map(|(i, c)| render(base + i, c)).collect();
    // 1. every case on its own: which layouts does the compiler accept at all?
    let mut events: Vec<Value> = cases
        .iter()
        .enumerate()
        .map(|(i, c)| {
            let (o, ir) = run::compile_rasn(&[module(c["implied"].as_bool().unwrap(), false, &texts[i], c["tags"].as_str())], run::default_config());
            let krate = rsproj::project(&o.generated);
            let mut ev = observe(base + i, c, &texts[i], &o, &krate, &ir);
            if let Some(t) = c["tags"].as_str() {
                ev["tags"] = json!(t);
                ev["asn"] = json!(module(c["implied"].as_bool().unwrap(), false, &texts[i], Some(t)).replace('\n', " "));
            }
            ev
        })
        .collect();
    // 2. the accepted ones together, in two neighbouring modules (EXTENSIBILITY IMPLIED / not); the
    //    alphabetical order of the two module names alternates from batch to batch, so that each
    //    module is generated both before and after its neighbour
    let good: Vec<usize> = (0..cases.len()).filter(|i| events[*i]["status"] == "ok" && cases[*i]["tags"].is_null()).collect();
    let flip = force_flip.unwrap_or((base / cases.len().max(1)) % 2 == 1);
    let mut srcs = vec![];
    for imp in [false, true] {
        let b: Vec<String> = good.iter().filter(|i| cases[**i]["implied"].as_bool().unwrap() == imp).map(|i| texts[*i].clone()).collect();
        if !b.is_empty() {
            srcs.push(module(imp, flip, &b.join("\n"), None));
        }
    }
    if srcs.len() == 2 {
        let (o, ir) = run::compile_rasn(&srcs, run::default_config());
        if o.clean() {
            let krate = rsproj::project(&o.generated);
            for i in good {
                events[i] = observe(base + i, &cases[i], &texts[i], &o, &krate, &ir);
                events[i]["neighbour"] = json!(true);
            }
        }
    }
    events
}

/// vharness c05 --cases <ndjson> --trace <ndjson>
pub fn drive(args: &[String]) -> i32 {
    let cases = util::read_ndjson(util::arg(args, "--cases").expect("--cases"));
    let batch: usize = util::arg(args, "--batch").and_then(|s| s.parse().ok()).unwrap_or(128);
    let force_flip = util::arg(args, "--flip").map(|f| f == "1");
    let events = util::par_chunks(&cases, batch, util::threads(), |base, chunk| {
        run::install_panic_hook();
        run_batch(base, chunk, force_flip)
    });
    util::write_ndjson(util::arg(args, "--trace").expect("--trace"), &events);
    eprintln!("c05: {} cases, {} events", cases.len(), events.len());
    0
}
