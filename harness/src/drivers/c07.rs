//! C07 driver: value notation terms (spec/mc/MC_C07.tla) rendered as value assignments and
//! DEFAULTs, compiled, and the generated initialisers evaluated symbolically (rseval.rs).
use crate::rseval::{value_parts, Ctx};
use crate::{rsproj, run, util};
use serde_json::{json, Value};

fn s(v: &Value) -> &str {
    v.as_str().unwrap_or("")
}

/// the ASN.1 notation of a type descriptor; `at` is the decimal value a constraint is built around
fn type_text(ty: &Value, at: Option<&str>) -> String {
    match s(&ty["k"]) {
        "INTEGER" => {
            let named = ty["named"].as_array().map(|a| a.iter().map(|n| format!("{}({})", s(&n["n"]), s(&n["dec"]))).collect::<Vec<_>>()).unwrap_or_default();
            let mut t = String::from("INTEGER");
            if !named.is_empty() {
                t.push_str(&format!(" {{ {} }}", named.join(", ")));
            }
            if let Some(v) = at {
                match s(&ty["con"]) {
                    "exact" => t.push_str(&format!(" ({v}..{v})")),
                    "upto" => t.push_str(&format!(" (MIN..{v})")),
                    "from" => t.push_str(&format!(" ({v}..MAX)")),
                    _ => (),
                }
            }
            t
        }
        "BOOLEAN" => "BOOLEAN".into(),
        "NULL" => "NULL".into(),
        "BITSTRING" => {
            let named = ty["named"].as_array().map(|a| a.iter().map(|n| format!("{}({})", s(&n["n"]), n["p"])).collect::<Vec<_>>()).unwrap_or_default();
            if named.is_empty() { "BIT STRING".into() } else { format!("BIT STRING {{ {} }}", named.join(", ")) }
        }
        "OCTETSTRING" => "OCTET STRING".into(),
        "ENUMERATED" => {
            let items: Vec<String> = ty["named"].as_array().unwrap().iter().map(|n| if s(&n["dec"]).is_empty() { s(&n["n"]).to_string() } else { format!("{}({})", s(&n["n"]), s(&n["dec"])) }).collect();
            format!("ENUMERATED {{ {} }}", items.join(", "))
        }
        "OID" => "OBJECT IDENTIFIER".into(),
        "RELOID" => "RELATIVE-OID".into(),
        "CHOICE" => format!("CHOICE {{ {} }}", ty["alts"].as_array().unwrap().iter().map(|a| format!("{} {}", s(&a["n"]), type_text(&a["ty"], None))).collect::<Vec<_>>().join(", ")),
        k @ ("SEQUENCE" | "SET") => format!("{k} {{ {} }}", ty["comps"].as_array().unwrap().iter().map(|c| {
            let base = format!("{} {}", s(&c["n"]), type_text(&c["ty"], None));
            match s(&c["opt"]) {
                "optional" => format!("{base} OPTIONAL"),
                "default" => format!("{base} DEFAULT {}", value_text(&c["dflt"], &mut vec![], &c["ty"])),
                _ => base,
            }
        }).collect::<Vec<_>>().join(", ")),
        "SEQOF" => format!("SEQUENCE OF {}", type_text(&ty["elem"], None)),
        other => other.to_string(),
    }
}

/// the value notation of a term; value assignments a reference needs are pushed to `extra`
fn value_text(t: &Value, extra: &mut Vec<(String, Value)>, ty: &Value) -> String {
    match s(&t["f"]) {
        "int" => s(&t["dec"]).to_string(),
        "namednum" | "enum" => s(&t["name"]).to_string(),
        "bool" => if t["b"] == true { "TRUE".into() } else { "FALSE".into() },
        "null" => "NULL".into(),
        "cstring" => format!("\"{}\"", t["chars"].as_array().unwrap().iter().map(|c| if s(c) == "\"" { "\"\"".to_string() } else { s(c).to_string() }).collect::<String>()),
        "bstring" => format!("'{}'B", t["bits"].as_array().unwrap().iter().map(|b| b.to_string()).collect::<String>()),
        "hstring" => format!("'{}'H", t["digits"].as_array().unwrap().iter().map(|d| s(d).to_string()).collect::<String>()),
        "namedbits" => format!("{{ {} }}", t["chosen"].as_array().unwrap().iter().map(|c| s(c).to_string()).collect::<Vec<_>>().join(", ")),
        "oid" => {
            let mut parts = vec![];
            if s(&t["prefix"]["f"]) != "none" {
                let name = format!("pfx{}x", extra.len());
                extra.push((name.clone(), t["prefix"].clone()));
                parts.push(name);
            }
            for a in t["arcs"].as_array().unwrap() {
                parts.push(match s(&a["form"]) {
                    "num" => s(&a["n"]).to_string(),
                    "name" => s(&a["name"]).to_string(),
                    _ => format!("{}({})", s(&a["name"]), s(&a["n"])),
                });
            }
            format!("{{ {} }}", parts.join(" "))
        }
        "choice" => {
            let alt = ty["alts"].as_array().and_then(|a| a.iter().find(|x| x["n"] == t["alt"])).map(|a| a["ty"].clone()).unwrap_or(json!({}));
            format!("{} : {}", s(&t["alt"]), value_text(&t["v"], extra, &alt))
        }
        "seq" => format!("{{ {} }}", t["fields"].as_array().unwrap().iter().map(|f| {
            let cty = ty["comps"].as_array().and_then(|a| a.iter().find(|x| x["n"] == f["n"])).map(|a| a["ty"].clone()).unwrap_or(json!({}));
            format!("{} {}", s(&f["n"]), value_text(&f["v"], extra, &cty))
        }).collect::<Vec<_>>().join(", ")),
        "seqof" => format!("{{ {} }}", t["items"].as_array().unwrap().iter().map(|i| value_text(i, extra, &ty["elem"])).collect::<Vec<_>>().join(", ")),
        "ref" => {
            let name = format!("src{}x", extra.len());
            extra.push((name.clone(), t["to"].clone()));
            name
        }
        other => format!("?{other}"),
    }
}

fn int_at(t: &Value) -> Option<String> {
    match s(&t["f"]) {
        "int" => Some(s(&t["dec"]).to_string()),
        "ref" => int_at(&t["to"]),
        _ => None,
    }
}

pub fn render(c: &Value) -> String {
    let ty = &c["ty"];
    let at = int_at(&c["term"]);
    let base = type_text(ty, at.as_deref());
    let mut lines = vec![];
    // the governing type: written in place, or reached through `chain` type references
    let inline_only = ty["inline"] == true;
    // constructed types are given a name before values of them are written
    let chain = if inline_only { 0 } else if matches!(s(&ty["k"]), "ENUMERATED" | "CHOICE" | "SEQUENCE" | "SET" | "SEQOF") { c["chain"].as_u64().unwrap().max(1) } else { c["chain"].as_u64().unwrap() };
    let gov = match chain {
        0 => base.clone(),
        1 => {
            lines.push(format!("Tgov1 ::= {base}"));
            "Tgov1".to_string()
        }
        _ => {
            lines.push(format!("Tgov1 ::= {base}"));
            lines.push("Tgov2 ::= Tgov1".to_string());
            "Tgov2".to_string()
        }
    };
    let mut extra = vec![];
    let text = value_text(&c["term"], &mut extra, ty);
    // referenced value assignments (their own references, if any, are rendered in turn)
    let mut i = 0;
    while i < extra.len() {
        let (name, term) = extra[i].clone();
        let t = value_text(&term, &mut extra, ty);
        let vt = if s(&term["f"]) == "oid" && s(&ty["k"]) != "RELOID" { "OBJECT IDENTIFIER".to_string() } else { gov.clone() };
        lines.push(format!("{name} {vt} ::= {t}"));
        i += 1;
    }
    // a named number takes precedence over a value assignment of the same name (X.680 19.10): a decoy with another number
    if s(&c["term"]["f"]) == "namednum" {
        lines.push(format!("{} INTEGER ::= 4711", s(&c["term"]["name"])));
    }
    if s(&c["pos"]) == "assign" {
        lines.push(format!("val {gov} ::= {text}"));
    } else {
        lines.push(format!("Holder ::= SEQUENCE {{ pad BOOLEAN, fld {gov} DEFAULT {text} }}"));
    }
    format!("Vals DEFINITIONS AUTOMATIC TAGS ::= BEGIN\n{}\nEND\n", lines.join("\n"))
}

pub fn events_for_case(ci: usize, c: &Value) -> Value {
    let text = render(c);
    let (o, _) = run::compile_rasn1(&text);
    let status = if o.status == "ok" && !o.warnings.is_empty() { "warn".to_string() } else { o.status.clone() };
    let mut ev = json!({"ev": "value", "case": ci, "fam": c["fam"], "pos": c["pos"], "via": c["via"], "chain": c["chain"], "ty": c["ty"], "term": c["term"],
                        "status": status, "generated": false, "obs": {"k": "none"}, "rust": "", "asn": text,
                        "detail": format!("{}{}{}", o.error, o.panic_msg, o.warnings.first().cloned().unwrap_or_default())});
    if o.status != "ok" {
        return ev;
    }
    let k = rsproj::project(&o.generated);
    if !k.parsed_ok {
        ev["detail"] = json!(format!("bindings do not parse: {}", k.parse_error));
        ev["generated"] = json!(true);
        ev["obs"] = json!({"k": "unknown", "v": "bindings do not parse as Rust"});
        return ev;
    }
    let mut ctx = Ctx::new(&k);
    if s(&c["pos"]) == "assign" {
        if let Some(it) = k.all_items().find(|i| i.name == "VAL" && matches!(i.kind.as_str(), "const" | "static")) {
            if let Some((_, ty, expr)) = value_parts(it) {
                ev["generated"] = json!(true);
                ev["rust"] = json!(format!("{ty} = {expr}").chars().take(400).collect::<String>());
                ev["obs"] = ctx.eval_str(&expr);
            }
        }
    } else if let Some(holder) = k.all_items().find(|i| i.name == "Holder" && i.kind == "struct") {
        if let Some(f) = holder.fields.iter().find(|f| f.name == "fld") {
            if let Some(fname) = f.attrs.nv("default") {
                if let Some(func) = k.all_items().find(|i| i.kind == "fn" && i.name == fname) {
                    ev["generated"] = json!(true);
                    ev["rust"] = json!(format!("{} = {}", func.ty, func.expr).chars().take(400).collect::<String>());
                    ev["obs"] = ctx.eval_str(&func.expr);
                }
            } else {
                // the component is there, its DEFAULT is not
                ev["generated"] = json!(true);
                ev["obs"] = json!({"k": "unknown", "v": "the component has no default annotation"});
            }
        }
    }
    ev
}

/// vharness c07 --cases <ndjson> --trace <ndjson>
pub fn drive(args: &[String]) -> i32 {
    let cases = util::read_ndjson(util::arg(args, "--cases").expect("--cases"));
    let indexed: Vec<(usize, Value)> = cases.into_iter().enumerate().collect();
    let events = util::par_chunks(&indexed, 32, util::threads(), |_, chunk| {
        run::install_panic_hook();
        chunk.iter().map(|(i, c)| events_for_case(*i, c)).collect()
    });
    util::write_ndjson(util::arg(args, "--trace").expect("--trace"), &events);
    eprintln!("c07: {} cases, {} events", indexed.len(), events.len());
    0
}
