pub mod c14;
pub mod misc;
