pub mod c03;
pub mod c04;
pub mod c05;
pub mod c06;
pub mod c14;
pub mod c15;
pub mod c16;
pub mod misc;
