//! C20 driver: compile() / the command-line tool against real file-system states, one child
//! process per scenario (so that standard output and a crash are observable, and so that the
//! call can run without root's permission override).  spec/Delivery.tla says what must be there
//! afterwards; this file only sets the scene and records what it finds.
use crate::notation::Table;
use crate::{run, util};
use rasn_compiler::prelude::*;
use rasn_compiler::OutputMode;
use serde_json::{json, Value};
use std::collections::BTreeMap;
use std::fs;
use std::os::unix::fs::PermissionsExt;
use std::path::{Path, PathBuf};
use std::process::{Command, Stdio};

// ------------------------------------------------------------------------------ the child

fn compile_with<B: Backend + Default>(spec: &Value) -> Result<Vec<String>, String> {
    let paths: Vec<PathBuf> = spec["paths"].as_array().unwrap().iter().map(|p| PathBuf::from(p.as_str().unwrap())).collect();
    let mode = match spec["mode"].as_str().unwrap() {
        "stdout" => OutputMode::Stdout,
        "none" => OutputMode::NoOutput,
        _ => OutputMode::SingleFile(PathBuf::from(spec["dest_path"].as_str().unwrap())),
    };
    let r = match spec["srcform"].as_str().unwrap() {
        "literal" => {
            let lits: Vec<String> = spec["literals"].as_array().unwrap().iter().map(|l| l.as_str().unwrap().to_string()).collect();
            let mut c = Compiler::<B, _>::new().add_asn_literal(lits[0].clone());
            for l in &lits[1..] {
                c = c.add_asn_literal(l.clone());
            }
            c.set_output_mode(mode).compile()
        }
        "path" => {
            // one add_asn_by_path per file, and the older set_output_path where it applies
            let mut c = Compiler::<B, _>::new().add_asn_by_path(paths[0].clone());
            for p in &paths[1..] {
                c = c.add_asn_by_path(p.clone());
            }
            match mode {
                #[allow(deprecated)]
                OutputMode::SingleFile(p) => c.set_output_path(p).compile(),
                other => c.set_output_mode(other).compile(),
            }
        }
        _ => Compiler::<B, _>::new().add_asn_sources_by_path(paths.into_iter()).set_output_mode(mode).compile(),
    };
    match r {
        Ok(w) => Ok(w.iter().map(|x| x.to_string()).collect()),
        Err(e) => Err(e.to_string()),
    }
}

/// vharness c20child <spec.json> : one compile() call; the verdict goes to standard error
pub fn child(args: &[String]) -> i32 {
    let spec: Value = serde_json::from_str(&fs::read_to_string(&args[0]).expect("spec")).expect("spec json");
    // the pipeline hooks of this call (cfg(rasn_verif)): which steps were reached, in which order
    rasn_compiler::verif::enable();
    let r = if spec["backend"] == "rasn" { compile_with::<RasnBackend>(&spec) } else { compile_with::<TypescriptBackend>(&spec) };
    let hooks: Vec<String> = rasn_compiler::verif::take().iter().filter_map(|h| serde_json::from_str::<Value>(h).ok())
        .filter_map(|h| h["hook"].as_str().map(|x| x.to_string())).collect();
    let delivers = hooks.iter().filter(|h| *h == "deliver").count();
    let deliver_last = hooks.last().map(|h| h == "deliver").unwrap_or(false);
    match r {
        Ok(w) => eprintln!("C20RESULT {}", json!({"result": "ok", "warnings": w, "delivers": delivers, "deliver_last": deliver_last, "hooks": hooks.len()})),
        Err(e) => eprintln!("C20RESULT {}", json!({"result": "err", "error": e, "delivers": delivers, "deliver_last": deliver_last, "hooks": hooks.len()})),
    }
    0
}

// ------------------------------------------------------------------------------ the scene

fn snapshot(root: &Path) -> BTreeMap<String, Option<Vec<u8>>> {
    fn walk(root: &Path, p: &Path, out: &mut BTreeMap<String, Option<Vec<u8>>>) {
        let Ok(rd) = fs::read_dir(p) else { return };
        for e in rd.flatten() {
            let path = e.path();
            let rel = path.strip_prefix(root).unwrap().to_string_lossy().to_string();
            if path.is_dir() {
                out.insert(rel, None);
                walk(root, &path, out);
            } else {
                out.insert(rel, Some(fs::read(&path).unwrap_or_default()));
            }
        }
    }
    let mut m = BTreeMap::new();
    walk(root, root, &mut m);
    m
}

fn chmod(p: &Path, mode: u32) {
    fs::set_permissions(p, fs::Permissions::from_mode(mode)).unwrap();
}

fn classify(content: Option<&Vec<u8>>, old: &[u8], text: Option<&str>) -> &'static str {
    match content {
        None => "absent",
        Some(c) if !old.is_empty() && c.as_slice() == old => "OLD",
        Some(c) if text.is_some_and(|t| c.as_slice() == t.as_bytes()) => "NEW",
        Some(c) if c.is_empty() => "EMPTY",
        Some(_) => "OTHER",
    }
}

fn reference<B: Backend + Default>(plan: &Value, literals: &[String], paths: &[PathBuf]) -> run::Outcome {
    let r = std::panic::catch_unwind(std::panic::AssertUnwindSafe(|| {
        if plan["srcform"] == "literal" {
            let mut c = Compiler::<B, _>::new().add_asn_literal(literals[0].clone());
            for l in &literals[1..] {
                c = c.add_asn_literal(l.clone());
            }
            c.compile_to_string()
        } else {
            Compiler::<B, _>::new().add_asn_sources_by_path(paths.iter().cloned()).compile_to_string()
        }
    }));
    match r {
        Ok(Ok(res)) => run::Outcome { status: "ok".into(), generated: res.generated, warnings: res.warnings.iter().map(|w| w.to_string()).collect(), ..Default::default() },
        Ok(Err(e)) => run::Outcome { status: "err".into(), error: e.to_string(), ..Default::default() },
        Err(_) => run::Outcome { status: "panic".into(), ..Default::default() },
    }
}

/// the text's shape with respect to a line-buffered stream whose buffer holds STDOUT_BUF bytes (std: 1024)
const STDOUT_BUF: usize = 1024;
fn shape_of(text: &str) -> &'static str {
    if text.is_empty() {
        return "no_text";
    }
    let rest = text.len() - text.rfind('\n').map(|i| i + 1).unwrap_or(0);
    match (text.contains('\n'), rest) {
        (true, 0) => "ends_in_newline",
        (true, r) if r < STDOUT_BUF => "newline_and_small_rest",
        (true, _) => "newline_and_large_rest",
        (false, r) if r < STDOUT_BUF => "small_no_newline",
        (false, _) => "large_no_newline",
    }
}

struct Ctx {
    dir: String,
    cli: String,
    me: String,
    drop_root: bool,
}

fn scenario(ctx: &Ctx, ci: usize, plan: &Value, si: usize, table: &Table) -> Value {
    let s = PathBuf::from(format!("{}/s{ci}_{si}", ctx.dir));
    let _ = fs::remove_dir_all(&s);
    let (src, out) = (s.join("src"), s.join("out"));
    fs::create_dir_all(&src).unwrap();
    fs::create_dir_all(&out).unwrap();
    let backend = plan["backend"].as_str().unwrap();
    let ext = if backend == "rasn" { "rs" } else { "ts" };
    let (api, form, mode, dest, input) = (plan["api"].as_str().unwrap(), plan["srcform"].as_str().unwrap(), plan["mode"].as_str().unwrap(),
                                          plan["dest"].as_str().unwrap(), plan["input"].as_str().unwrap());
    // ---- sources
    let nmods = table.mods.tagdef.len();
    let mut literals: Vec<String> = (1..=nmods).map(|m| table.module_text(m, None)).collect();
    if input == "malformed" {
        // the last module does not lex: everything before it does
        let last = literals.last_mut().unwrap();
        *last = last.replacen("BEGIN", "BEGIN\n# ", 1);
    }
    let mut paths: Vec<PathBuf> = vec![];
    if form != "literal" {
        for (i, l) in literals.iter().enumerate() {
            // for the directory search: nested directories, both extensions
            let p = if form == "dir" {
                let d = match i % 3 { 0 => src.clone(), 1 => src.join("nested"), _ => src.join("nested/deeper") };
                fs::create_dir_all(&d).unwrap();
                d.join(format!("m{i}.{}", if i % 2 == 0 { "asn" } else { "asn1" }))
            } else {
                src.join(format!("m{i}.asn"))
            };
            fs::write(&p, l).unwrap();
            paths.push(p);
        }
        if form == "dir" {
            // files the search must not pick up
            fs::write(src.join("notes.txt"), "this is not ASN.1 ::= #").unwrap();
            fs::write(src.join("old.asn.bak"), "neither ::= is # this").unwrap();
        }
        if input == "missing_source" {
            if form == "dir" {
                for p in &paths {
                    fs::remove_file(p).unwrap();
                }
                paths.clear();
            } else {
                let p = src.join("does-not-exist.asn");
                paths.push(p);
            }
        }
    }
    paths.sort();
    // ---- what compile_to_string() says about these sources
    let refo = if form == "dir" && input == "missing_source" {
        run::Outcome { status: "err".into(), error: "no modules".into(), ..Default::default() }
    } else if backend == "rasn" {
        reference::<RasnBackend>(plan, &literals, &paths)
    } else {
        reference::<TypescriptBackend>(plan, &literals, &paths)
    };
    let text = if refo.status == "ok" { Some(refo.generated.as_str()) } else { None };
    // ---- destination
    let long_old: Vec<u8> = format!("// stale bindings {}\n", "x".repeat(40)).repeat(refo.generated.len() / 40 + 50).into_bytes();
    let short_old: Vec<u8> = b"// old\n".to_vec();
    let mut old: Vec<u8> = vec![];
    let file_target = out.join(format!("bindings.{ext}"));
    let dir_target = out.join(format!("generated.{ext}"));
    let (dest_path, target) = match mode {
        "file" => {
            match dest {
                "other_short" => old = short_old,
                "other_long" | "readonly" => old = long_old,
                _ => (),
            }
            if !old.is_empty() {
                fs::write(&file_target, &old).unwrap();
            }
            if !old.is_empty() {
                chmod(&file_target, if dest == "readonly" { 0o444 } else { 0o666 });
            }
            if dest == "noparent" {
                let t = out.join(format!("missing/bindings.{ext}"));
                (t.clone(), t)
            } else {
                (file_target.clone(), file_target.clone())
            }
        }
        "dir" | "default" => {
            if dest == "dir_other" || dest == "dir_readonly_file" {
                old = long_old;
                fs::write(&dir_target, &old).unwrap();
            }
            if !old.is_empty() {
                chmod(&dir_target, if dest == "dir_readonly_file" { 0o444 } else { 0o666 });
            }
            (out.clone(), dir_target.clone())
        }
        _ => (PathBuf::new(), PathBuf::new()),
    };
    chmod(&out, if dest == "dir_readonly" { 0o555 } else { 0o777 });
    chmod(&s, 0o755);
    let before = snapshot(&s);
    // ---- the call
    let mut cmd;
    if api == "lib" {
        let spec = json!({"backend": backend, "srcform": form, "literals": literals, "paths": paths.iter().map(|p| p.to_string_lossy().to_string()).collect::<Vec<_>>(),
                          "mode": mode, "dest_path": dest_path.to_string_lossy()});
        let spec_path = s.join("spec.json");
        fs::write(&spec_path, serde_json::to_string(&spec).unwrap()).unwrap();
        cmd = Command::new(&ctx.me);
        cmd.arg("c20child").arg(&spec_path);
    } else {
        cmd = Command::new(&ctx.cli);
        cmd.arg("-b").arg(backend);
        match mode {
            "stdout" => { cmd.arg("--stdout"); }
            "none" => { cmd.arg("--no-output"); }
            "default" => (),
            _ => { cmd.arg("-o").arg(&dest_path); }
        }
        if form == "dir" {
            cmd.arg("-d").arg(&src);
        } else {
            cmd.arg("-m");
            for p in &paths {
                cmd.arg(p);
            }
        }
    }
    cmd.current_dir(&out).stdin(Stdio::null()).stdout(Stdio::piped()).stderr(Stdio::piped());
    // a standard output that takes nothing: a full device, or a stream whose reader is gone before the call starts
    match dest {
        "stdout_full" => match fs::OpenOptions::new().write(true).open("/dev/full") {
            Ok(f) => { cmd.stdout(Stdio::from(f)); }
            Err(e) => return json!({"ev": "deliver", "case": ci, "set": si, "api": api, "backend": backend, "srcform": form, "mode": mode, "dest": dest, "input": input,
                                    "compiled": "unstaged", "result": "unstaged", "detail": format!("/dev/full: {e}")}),
        },
        "stdout_epipe" => {
            let (ours, theirs) = std::os::unix::net::UnixStream::pair().expect("socket pair");
            drop(ours);
            cmd.stdout(Stdio::from(std::os::fd::OwnedFd::from(theirs)));
        }
        _ => (),
    }
    for k in ["CARGO_HOME", "CARGO", "RUSTFMT"] {
        cmd.env_remove(k);
    }
    // a formatter in reach (Delivery!Formatters): the rasn backend looks for $CARGO_HOME/bin/rustfmt.  "identity" copies its
    // input (the delivered text stays the unformatted one, byte for byte); "fails" reads it and exits with status 1
    let fmt = plan["fmt"].as_str().unwrap_or("absent");
    if fmt != "absent" {
        let home = s.join("cargo_home");
        fs::create_dir_all(home.join("bin")).unwrap();
        let script = home.join("bin/rustfmt");
        fs::write(&script, if fmt == "identity" { "#!/bin/sh\ncat\n" } else { "#!/bin/sh\ncat > /dev/null\nexit 1\n" }).unwrap();
        chmod(&script, 0o755);
        chmod(&home, 0o755);
        chmod(&home.join("bin"), 0o755);
        cmd.env("CARGO_HOME", &home);
    }
    if ctx.drop_root {
        use std::os::unix::process::CommandExt;
        cmd.uid(65534).gid(65534);
    }
    let before = snapshot(&s);
    let before = { let mut b = before; b.remove("spec.json"); b };
    let output = cmd.output();
    let mut after = snapshot(&s);
    after.remove("spec.json");
    // ---- what is there now
    let rel = |p: &Path| p.strip_prefix(&s).map(|x| x.to_string_lossy().to_string()).unwrap_or_default();
    let target_rel = rel(&target);
    let target_after = if target_rel.is_empty() { "absent" } else { classify(after.get(&target_rel).and_then(|x| x.as_ref()), &old, text) };
    let mut others: Vec<String> = vec![];
    for (k, v) in &after {
        if *k != target_rel && before.get(k) != Some(v) {
            others.push(format!("created or changed: {k}"));
        }
    }
    for k in before.keys() {
        if *k != target_rel && !after.contains_key(k) {
            others.push(format!("removed: {k}"));
        }
    }
    let mut hook_facts = json!({"delivers": -1, "deliver_last": false, "hooks": -1});
    let (result, stdout_cls, detail, warnings) = match output {
        Err(e) => ("spawn-failed".to_string(), "empty", e.to_string(), None),
        Ok(o) => {
            let stderr = String::from_utf8_lossy(&o.stderr).to_string();
            let stdout_cls = if o.stdout.is_empty() { "empty" } else if text.is_some_and(|t| o.stdout == t.as_bytes()) { "NEW" } else { "OTHER" };
            let code = o.status.code().unwrap_or(-1);
            if api == "lib" {
                match stderr.lines().find_map(|l| l.strip_prefix("C20RESULT ")) {
                    Some(j) => {
                        let v: Value = serde_json::from_str(j).unwrap_or(json!({}));
                        hook_facts = json!({"delivers": v["delivers"], "deliver_last": v["deliver_last"], "hooks": v["hooks"]});
                        (v["result"].as_str().unwrap_or("?").to_string(), stdout_cls, v["error"].as_str().unwrap_or("").to_string(),
                         v["warnings"].as_array().map(|a| a.iter().map(|x| x.as_str().unwrap_or("").to_string()).collect::<Vec<_>>()))
                    }
                    None => (if code == 101 { "panic".into() } else { format!("exit:{code}") }, stdout_cls, stderr.chars().take(300).collect(), None),
                }
            } else {
                let r = match code { 0 => "ok".to_string(), 1 => "err".to_string(), 101 => "panic".to_string(), c => format!("exit:{c}") };
                (r, stdout_cls, stderr.lines().filter(|l| l.contains("error")).take(2).collect::<Vec<_>>().join(" | ").chars().take(300).collect(), None)
            }
        }
    };
    chmod(&out, 0o777);
    let ev = json!({"ev": "deliver", "case": ci, "set": si, "api": api, "backend": backend, "srcform": form, "mode": mode, "dest": dest, "input": input, "fmt": fmt,
                    "compiled": refo.status, "result": result, "target_after": target_after, "others": others, "stdout": stdout_cls,
                    "warnings_same": warnings.map(|w| w == refo.warnings).unwrap_or(true), "detail": detail,
                    "delivers": hook_facts["delivers"], "deliver_last": hook_facts["deliver_last"], "hooks": hook_facts["hooks"],
                    "text_bytes": refo.generated.len(), "old_bytes": old.len(), "modules": nmods,
                    "shape": shape_of(&refo.generated),
                    "asn": literals.join("\n").chars().take(400).collect::<String>()});
    let _ = fs::remove_dir_all(&s);
    ev
}

/// vharness c20 --cases <plans> --sets <module sets> --per-plan <n> --dir <scratch> --cli <binary> --trace <ndjson>
pub fn drive(args: &[String]) -> i32 {
    let plans = util::read_ndjson(util::arg(args, "--cases").expect("--cases"));
    let sets = util::read_ndjson(util::arg(args, "--sets").expect("--sets"));
    let per_plan: usize = util::arg(args, "--per-plan").and_then(|s| s.parse().ok()).unwrap_or(2);
    let dir = util::arg(args, "--dir").expect("--dir").to_string();
    fs::create_dir_all(&dir).unwrap();
    chmod(Path::new(&dir), 0o755);
    // only module sets that compile cleanly with both backends are of use here
    let tables: Vec<Table> = sets.iter().map(Table::from_json).filter(|t| !t.defs().is_empty()).collect();
    let ctx = Ctx { dir, cli: util::arg(args, "--cli").expect("--cli").to_string(), me: std::env::current_exe().unwrap().to_string_lossy().to_string(),
                    drop_root: fs::metadata("/proc/self").map(|m| std::os::unix::fs::MetadataExt::uid(&m) == 0).unwrap_or(false) };
    // standard output is line buffered (Delivery.tla): texts whose unterminated rest stays below the stream's buffer behave
    // differently from the generated sets' texts, so every standard-output plan also runs on two tiny modules
    let mut tables = tables;
    let ngen = tables.len();
    for kind in ["BOOLEAN", "NULL"] {
        tables.push(Table::from_json(&json!({"mods": [{"tagdef": "AUTOMATIC", "implied": false}], "nodes": [
            {"k": kind, "p": 0, "m": 1, "role": "def", "opt": "req", "kw": "none", "add": false, "ref": 0, "qual": false, "c": 0, "tagall": false,
             "marker": false, "vk": "", "fault": "none", "ft": 0}]})));
    }
    // a module without assignments: the TypeScript backend's text for it is the empty string (Delivery.tla: EmptyText), which
    // must be delivered like any other -- the destination exists afterwards and is empty, an unwritable one is an Err
    tables.push(Table::from_json(&json!({"mods": [{"tagdef": "AUTOMATIC", "implied": false}], "nodes": []})));
    let mut jobs: Vec<(usize, usize)> = (0..plans.len()).flat_map(|ci| (0..per_plan).map(move |k| (ci, (ci * 3 + k * 7) % ngen))).collect();
    for (ci, p) in plans.iter().enumerate() {
        if p["mode"] == "stdout" {
            jobs.push((ci, ngen));
            jobs.push((ci, ngen + 1));
        }
        jobs.push((ci, ngen + 2));
    }
    let events = util::par_chunks(&jobs, 8, util::threads(), |_, chunk| {
        run::install_panic_hook();
        chunk.iter().map(|(ci, si)| scenario(&ctx, *ci, &plans[*ci], *si, &tables[*si])).collect()
    });
    util::write_ndjson(util::arg(args, "--trace").expect("--trace"), &events);
    eprintln!("c20: {} plans x {per_plan} module sets, {} events, children run as {}", plans.len(), events.len(), if ctx.drop_root { "uid 65534" } else { "the caller" });
    0
}

// ------------------------------------------------------------------------------ the builder (spec/Builder.tla)

/// Compiler<B, S> in whichever typestate it currently is
enum Bld<B: Backend> {
    M(Compiler<B, rasn_compiler::CompilerMissingParams>),
    S(Compiler<B, rasn_compiler::CompilerSourcesSet>),
    O(Compiler<B, rasn_compiler::CompilerOutputSet>),
    R(Compiler<B, rasn_compiler::CompilerReady>),
}

const BUILDER_SOURCES: [&str; 3] = [
    "BldA DEFINITIONS AUTOMATIC TAGS ::= BEGIN\nTa ::= INTEGER (0..7)\nEND\n",
    "BldB DEFINITIONS AUTOMATIC TAGS ::= BEGIN\nIMPORTS Ta FROM BldA;\nTb ::= SEQUENCE { a Ta, b BOOLEAN }\nEND\n",
    "BldC DEFINITIONS EXPLICIT TAGS ::= BEGIN\nTc ::= CHOICE { x [0] NULL, y [1] IA5String }\nEND\n",
];

/// what a replay carries along
struct Replay<'a> {
    next: usize,
    files: &'a [PathBuf],
    illegal: String,
    target: Option<PathBuf>,
    d: PathBuf,
    ext: &'a str,
}

/// one call of the sequence on the builder in whichever typestate it is
fn step<X: Backend>(b: Bld<X>, c: &Value, st: &mut Replay) -> Bld<X> {
    let (op, n) = (c["op"].as_str().unwrap(), c["n"].as_u64().unwrap() as usize);
    let (files, d, ext) = (st.files, st.d.clone(), st.ext);
    match op {
            "add_asn_literal" => {
                let t = BUILDER_SOURCES[st.next];
                st.next += 1;
                match b {
                    Bld::M(x) => Bld::S(x.add_asn_literal(t)),
                    Bld::S(x) => Bld::S(x.add_asn_literal(t)),
                    Bld::O(x) => Bld::R(x.add_asn_literal(t)),
                    Bld::R(x) => Bld::R(x.add_asn_literal(t)),
                }
            }
            "add_asn_by_path" => {
                let p = files[st.next].clone();
                st.next += 1;
                match b {
                    Bld::M(x) => Bld::S(x.add_asn_by_path(p)),
                    Bld::S(x) => Bld::S(x.add_asn_by_path(p)),
                    Bld::O(x) => Bld::R(x.add_asn_by_path(p)),
                    Bld::R(x) => Bld::R(x.add_asn_by_path(p)),
                }
            }
            "add_asn_sources_by_path" => {
                let ps: Vec<PathBuf> = files[st.next..st.next + n].to_vec();
                st.next += n;
                match b {
                    Bld::M(x) => Bld::S(x.add_asn_sources_by_path(ps.into_iter())),
                    Bld::S(x) => Bld::S(x.add_asn_sources_by_path(ps.into_iter())),
                    Bld::O(x) => Bld::R(x.add_asn_sources_by_path(ps.into_iter())),
                    Bld::R(x) => Bld::R(x.add_asn_sources_by_path(ps.into_iter())),
                }
            }
            _ => {
                let out = c["out"].as_str().unwrap();
                let file = d.join(format!("given.{ext}"));
                let mode = match out {
                    "mode_dir" => {
                        st.target = Some(d.join("outdir").join(format!("generated.{ext}")));
                        OutputMode::SingleFile(d.join("outdir"))
                    }
                    "mode_none" => OutputMode::NoOutput,
                    _ => {
                        st.target = Some(file.clone());
                        OutputMode::SingleFile(file.clone())
                    }
                };
                match (b, out) {
                    #[allow(deprecated)]
                    (Bld::M(x), "path_file") => Bld::O(x.set_output_path(file)),
                    #[allow(deprecated)]
                    (Bld::S(x), "path_file") => Bld::R(x.set_output_path(file)),
                    (Bld::M(x), _) => Bld::O(x.set_output_mode(mode)),
                    (Bld::S(x), _) => Bld::R(x.set_output_mode(mode)),
                    (other, _) => {
                        st.illegal = "set_output in a typestate that has no such method".into();
                        other
                    }
                }
            }
    }
}

fn exchange<X: Backend, Y: Backend + Default>(b: Bld<X>) -> Bld<Y> {
    match b {
        Bld::M(x) => Bld::M(x.with_backend(Y::default())),
        Bld::S(x) => Bld::S(x.with_backend(Y::default())),
        Bld::O(x) => Bld::O(x.with_backend(Y::default())),
        Bld::R(x) => Bld::R(x.with_backend(Y::default())),
    }
}

/// one call sequence of MC_Builder replayed through the real typestate API
fn builder_case<B0: Backend + Default, B: Backend + Default>(backend: &str, ci: usize, case: &Value, dir: &Path) -> Value {
    let d = dir.join(format!("b{ci}_{backend}"));
    let _ = fs::remove_dir_all(&d);
    fs::create_dir_all(d.join("outdir")).unwrap();
    let ext = if backend == "rasn" { "rs" } else { "ts" };
    let files: Vec<PathBuf> = BUILDER_SOURCES.iter().enumerate().map(|(i, t)| {
        let p = d.join(format!("m{i}.asn1"));
        fs::write(&p, t).unwrap();
        p
    }).collect();
    let reference = {
        let mut c = Compiler::<B, _>::new().add_asn_literal(BUILDER_SOURCES[0]);
        for t in &BUILDER_SOURCES[1..] {
            c = c.add_asn_literal(*t);
        }
        c.compile_to_string()
    };
    let (ref_text, ref_warnings) = match &reference {
        Ok(r) => (r.generated.clone(), r.warnings.len() as i64),
        Err(_) => (String::new(), -1),
    };
    // with_backend: the sequence starts on the other backend B0 and is exchanged for B at that call
    let mut st = Replay { next: 0, files: &files, illegal: String::new(), target: None, d: d.clone(), ext };
    let calls = case["calls"].as_array().unwrap();
    let switch_at = calls.iter().position(|c| c["op"] == "with_backend");
    let mut b: Bld<B> = match switch_at {
        None => {
            let mut b = Bld::M(Compiler::<B, _>::new());
            for c in calls {
                b = step(b, c, &mut st);
            }
            b
        }
        Some(k) => {
            let mut b0 = Bld::M(Compiler::<B0, _>::new());
            for c in &calls[..k] {
                b0 = step(b0, c, &mut st);
            }
            let mut b: Bld<B> = exchange(b0);
            for c in &calls[k + 1..] {
                b = step(b, c, &mut st);
            }
            b
        }
    };
    let _ = &mut b;
    let (mut illegal, target) = (st.illegal.clone(), st.target.clone());
    let state = match &b {
        Bld::M(_) => "MissingParams",
        Bld::S(_) => "SourcesSet",
        Bld::O(_) => "OutputSet",
        Bld::R(_) => "Ready",
    };
    // the final call, with the pipeline hooks recording which modules were lexed
    rasn_compiler::verif::enable();
    let fin = case["final"].as_str().unwrap();
    let (result, text, nwarn): (String, Option<String>, i64) = match (b, fin) {
        (Bld::S(x), "compile_to_string") => match x.compile_to_string() {
            Ok(r) => ("ok".into(), Some(r.generated), r.warnings.len() as i64),
            Err(e) => (format!("err: {e}"), None, -1),
        },
        (Bld::R(x), "compile_to_string") => match x.compile_to_string() {
            Ok(r) => ("ok".into(), Some(r.generated), r.warnings.len() as i64),
            Err(e) => (format!("err: {e}"), None, -1),
        },
        (Bld::R(x), "compile") => match x.compile() {
            Ok(w) => ("ok".into(), None, w.len() as i64),
            Err(e) => (format!("err: {e}"), None, -1),
        },
        _ => {
            illegal = format!("{fin} in typestate {state}");
            ("illegal".into(), None, -1)
        }
    };
    let lexed: Vec<String> = rasn_compiler::verif::take().iter().filter_map(|h| serde_json::from_str::<Value>(h).ok())
        .filter(|h| h["hook"] == "lexed").filter_map(|h| h["module"].as_str().map(|m| m.to_string())).collect();
    // where is the text now?
    let delivered = target.as_ref().and_then(|t| fs::read_to_string(t).ok());
    let written: Vec<String> = snapshot(&d).into_iter().filter(|(k, v)| v.is_some() && !k.starts_with('m')).map(|(k, _)| k).collect();
    let got = if fin == "compile" { delivered.clone() } else { text.clone() };
    let ev = json!({"ev": "builder", "backend": backend, "case": ci, "calls": case["calls"], "final": fin, "out": case["out"], "state": state,
                    "forms": case["forms"], "illegal": illegal, "result": if result.starts_with("err") { "err" } else { result.as_str() }, "detail": result,
                    "ref_ok": reference.is_ok(), "lexed": lexed, "same_text": got.as_deref() == Some(ref_text.as_str()),
                    "has_text": got.is_some(), "files_written": written.len(), "same_warnings": nwarn == ref_warnings,
                    "asn": format!("{} ; {fin}", case["calls"].as_array().unwrap().iter().map(|c| if c["op"] == "set_output" { format!("set_output({})", c["out"].as_str().unwrap()) } else { format!("{}[{}]", c["op"].as_str().unwrap(), c["n"]) }).collect::<Vec<_>>().join(" . "))});
    let _ = fs::remove_dir_all(&d);
    ev
}

/// vharness c20builder --cases <call sequences> --dir <scratch> --trace <ndjson>
pub fn builder(args: &[String]) -> i32 {
    let cases = util::read_ndjson(util::arg(args, "--cases").expect("--cases"));
    let dir = PathBuf::from(util::arg(args, "--dir").expect("--dir"));
    fs::create_dir_all(&dir).unwrap();
    let indexed: Vec<(usize, Value)> = cases.into_iter().enumerate().collect();
    let events = util::par_chunks(&indexed, 16, util::threads(), |_, chunk| {
        run::install_panic_hook();
        chunk.iter().flat_map(|(ci, c)| vec![builder_case::<TypescriptBackend, RasnBackend>("rasn", *ci, c, &dir), builder_case::<RasnBackend, TypescriptBackend>("typescript", *ci, c, &dir)]).collect()
    });
    util::write_ndjson(util::arg(args, "--trace").expect("--trace"), &events);
    eprintln!("c20builder: {} call sequences x 2 backends, {} events", indexed.len(), events.len());
    0
}

// ------------------------------------------------------------------------------ the asn1! macro

fn lib_status(text: &str) -> (String, String) {
    let (o, _) = run::compile_rasn1(text);
    (o.status.clone(), if o.status == "ok" { o.generated } else { format!("{}{}", o.error, o.panic_msg) })
}

/// vharness c20macro-gen --sets <module sets> --n <count> --bins <probe src/bin dir> --manifest <json>
/// One probe binary per snippet: bare definitions (the macro wraps them), whole modules, and
/// malformed variants of both.
pub fn macro_gen(args: &[String]) -> i32 {
    let sets = util::read_ndjson(util::arg(args, "--sets").expect("--sets"));
    let n: usize = util::arg(args, "--n").and_then(|s| s.parse().ok()).unwrap_or(4);
    let bins = util::arg(args, "--bins").expect("--bins");
    fs::create_dir_all(bins).unwrap();
    for e in fs::read_dir(bins).unwrap().flatten() {
        if e.file_name().to_string_lossy().starts_with("mac") {
            let _ = fs::remove_file(e.path());
        }
    }
    let tables: Vec<Table> = sets.iter().map(Table::from_json).filter(|t| !t.defs().is_empty()).collect();
    let mut items = vec![];
    for k in 0..n {
        // even: the bare definitions of the first module without imports; odd: all modules as they are
        let render = |t: &Table| -> (&'static str, String, String) {
            if k % 2 == 0 {
                let m = (1..=t.mods.tagdef.len()).find(|m| t.imports(*m).is_empty()).unwrap_or(1);
                let body: Vec<String> = t.defs().iter().filter(|d| d.m == m).map(|d| t.def_text(d.idx)).collect();
                let bare = body.join("\n");
                ("bare", bare.clone(), format!("Asn1 DEFINITIONS AUTOMATIC TAGS ::= BEGIN\n{bare}\nEND\n"))
            } else {
                let text = t.text();
                ("modules", text.clone(), text)
            }
        };
        // the first module set from a rotating start whose snippet the library accepts
        let start = (k * 5) % tables.len();
        let t = (0..tables.len()).map(|i| &tables[(start + i) % tables.len()]).find(|t| lib_status(&render(t).2).0 == "ok").unwrap_or(&tables[start]);
        let (form, snippet, reference) = render(t);
        // every fourth snippet is broken
        let (snippet, reference) = if k % 4 >= 2 { (snippet.replacen("::=", "::= # ", 1), reference.replacen("::=", "::= # ", 2)) } else { (snippet, reference) };
        let name = format!("mac{k}");
        fs::write(format!("{bins}/{name}.rs"), format!("rasn_compiler_derive::asn1!(r####\"{snippet}\"####);\nfn main() {{}}\n")).unwrap();
        let (status, out) = lib_status(&reference);
        items.push(json!({"bin": name, "form": form, "snippet": snippet, "reference": reference, "lib_status": status, "lib_out": out}));
    }
    fs::write(util::arg(args, "--manifest").expect("--manifest"), serde_json::to_string(&items).unwrap()).unwrap();
    eprintln!("c20macro-gen: {} probe binaries", items.len());
    0
}

/// use lines as a set: the macro runs inside cargo, where the library finds rustfmt, which reorders them
fn sorted(v: &[String]) -> Vec<String> {
    // ... and unwraps single-name lists: use a::{B} -> use a::B
    let mut v: Vec<String> = v.iter().map(|u| match (u.rfind("::{"), u.ends_with('}'), u.contains(',')) {
        (Some(p), true, false) => format!("{}::{}", &u[..p], &u[p + 3..u.len() - 1]),
        _ => u.clone(),
    }).collect();
    v.sort();
    v
}

fn comparable(m: &crate::rsproj::RModule) -> Vec<String> {
    // derive output (trait impls other than the generator's own From impls, anonymous consts) is not part of the bindings
    m.items.iter().filter(|i| !i.attrs.other.iter().any(|a| a.contains("automatically_derived")) && !(i.kind == "const" && i.name == "_")
                              && !(i.kind == "impl" && !i.expr.is_empty() && !i.expr.starts_with("From<")))
        .map(|i| {
            let mut x = i.clone();
            x.attrs.derives.clear();
            x.attrs.other.clear();
            // rustc's pretty printer writes a closure body as a block: || { e }  for  || e
            if x.expr.starts_with("LazyLock::new(||{") && x.expr.ends_with("})") {
                x.expr = format!("LazyLock::new(||{})", &x.expr["LazyLock::new(||{".len()..x.expr.len() - 2]);
            }
            serde_json::to_string(&x).unwrap()
        }).collect()
}

/// vharness c20macro-cmp --manifest <json> --expanded <dir with <bin>.expanded / <bin>.failed> --trace <ndjson>
pub fn macro_cmp(args: &[String]) -> i32 {
    let items: Vec<Value> = serde_json::from_str(&fs::read_to_string(util::arg(args, "--manifest").expect("--manifest")).unwrap()).unwrap();
    let dir = util::arg(args, "--expanded").expect("--expanded");
    let mut evs = vec![];
    for (i, it) in items.iter().enumerate() {
        let bin = it["bin"].as_str().unwrap();
        let expanded = fs::read_to_string(format!("{dir}/{bin}.expanded")).ok();
        let failed = fs::read_to_string(format!("{dir}/{bin}.failed")).ok();
        let derive = std::path::Path::new(&format!("{dir}/{bin}.derive")).exists();
        let mut ev = json!({"ev": "macro", "case": i, "form": it["form"], "lib_status": it["lib_status"], "expands": expanded.is_some() || derive, "comparable": !derive, "same_items": false,
                            "detail": "", "asn": it["snippet"].as_str().unwrap().chars().take(600).collect::<String>()});
        match expanded {
            Some(x) => {
                let ek = crate::rsproj::project(&x);
                let lk = crate::rsproj::project(it["lib_out"].as_str().unwrap());
                // the expansion of a crate root: modules of the bindings in order
                let em: Vec<&crate::rsproj::RModule> = ek.modules.iter().filter(|m| !m.name.is_empty()).collect();
                let lm: Vec<&crate::rsproj::RModule> = lk.modules.iter().filter(|m| !m.name.is_empty()).collect();
                let bare = it["form"] == "bare";
                let same = ek.parsed_ok && it["lib_status"] == "ok" && em.len() == lm.len()
                    && em.iter().zip(&lm).all(|(a, b)| (bare || a.name == b.name) && comparable(a) == comparable(b) && sorted(&a.uses) == sorted(&b.uses));
                ev["same_items"] = json!(same);
                if !same {
                    let d = em.iter().zip(&lm).find_map(|(a, b)| {
                        let (ca, cb) = (comparable(a), comparable(b));
                        ca.iter().zip(&cb).find(|(x, y)| x != y).map(|(x, y)| format!("macro: {} | library: {}", x.chars().take(200).collect::<String>(), y.chars().take(200).collect::<String>()))
                            .or_else(|| if ca.len() != cb.len() { Some(format!("{} items in the expansion, {} in the library's output", ca.len(), cb.len())) } else { None })
                    });
                    ev["detail"] = json!(d.unwrap_or_else(|| format!("{} modules expanded, {} from the library; parse: {}", em.len(), lm.len(), ek.parse_error)));
                }
            }
            None => ev["detail"] = json!(failed.unwrap_or_default().lines().filter(|l| l.contains("error") || l.contains("panicked")).take(2).collect::<Vec<_>>().join(" | ").chars().take(300).collect::<String>()),
        }
        evs.push(ev);
    }
    let path = util::arg(args, "--trace").expect("--trace");
    let mut all = if Path::new(path).exists() { util::read_ndjson(path) } else { vec![] };
    all.extend(evs);
    util::write_ndjson(path, &all);
    eprintln!("c20macro-cmp: {} expansions compared", items.len());
    0
}
