//! C18 driver: generated module sets through the TypeScript backend; one event per type
//! assignment, per constructed type (also anonymous nested ones) and per namespace.
use crate::notation::{Table, CONTAINERS, LISTS};
use crate::tsproj::{self, TsType};
use crate::{run, util};
use serde_json::{json, Value};

fn cls(t: &TsType) -> String {
    match t {
        TsType::Prim { v } => match v.as_str() {
            "number" => "num".into(),
            "string" => "str".into(),
            "boolean" => "bool".into(),
            "null" => "null".into(),
            "any" => "any".into(),
            other => format!("prim:{other}"),
        },
        TsType::Ref { v } => format!("REF:{v}"),
        TsType::Lit { .. } => "lit".into(),
        TsType::Obj { members, index } => {
            let names: Vec<&str> = members.iter().map(|m| m.name.as_str()).collect();
            if !index && names == ["value", "length"] { "bits".into() } else { "obj".into() }
        }
        TsType::Arr { .. } => "arr".into(),
        TsType::Union { of } => {
            if of.iter().all(|x| matches!(x, TsType::Lit { .. })) {
                "enumunion".into()
            } else if of.len() == 2 && of.iter().all(|x| matches!(x, TsType::Prim { v } if v == "string" || v == "object")) {
                "strobj".into()
            } else if of.iter().all(|x| matches!(x, TsType::Obj { members, .. } if members.len() == 1)) {
                "choice".into()
            } else {
                "union".into()
            }
        }
        TsType::Unknown { v } => format!("unknown:{v}"),
    }
}

fn mangle(n: &str) -> String {
    n.replace('-', "_")
}

fn src_cls(table: &Table, i: usize) -> String {
    let n = table.node(i);
    if n.k == "REF" {
        // an external reference Module.Type stays qualified by the namespace
        let t = table.node(n.r);
        if n.qual && t.m != n.m { format!("REF:{}.{}", mangle(&table.module_name(t.m)), mangle(&table.def_name(n.r))) } else { format!("REF:{}", mangle(&table.def_name(n.r))) }
    } else {
        n.k.clone()
    }
}

fn refs_in(t: &TsType, out: &mut Vec<String>) {
    match t {
        TsType::Ref { v } => out.push(v.clone()),
        TsType::Obj { members, .. } => members.iter().for_each(|m| refs_in(&m.ty, out)),
        TsType::Arr { of } => refs_in(of, out),
        TsType::Union { of } => of.iter().for_each(|x| refs_in(x, out)),
        _ => (),
    }
}

/// events for the (possibly nested) type node `i` whose TypeScript type is `t`
fn node_events(ci: usize, table: &Table, i: usize, t: &TsType, evs: &mut Vec<Value>) {
    let n = table.node(i);
    let k = n.k.as_str();
    let implied = table.mods.implied[n.m - 1];
    let base = json!({"ev": "tsnode", "case": ci, "node": i, "kind": k, "nested": n.p != 0, "marker": n.marker, "implied": implied,
                      "asn": format!("{} (in {})", table.type_text(i), table.def_name(table.def_of(i))), "obs_cls": cls(t)});
    if CONTAINERS.contains(&k) {
        let src: Vec<Value> = n.children.iter().map(|c| {
            let ch = table.node(*c);
            json!({"name": table.comp_name(*c), "opt": ch.opt != "req", "cls": src_cls(table, *c)})
        }).collect();
        let mut ev = base.clone();
        ev["src"] = json!(src);
        // SEQUENCE / SET: an object; CHOICE: a union of single-key objects (or one such object)
        let (members, index): (Vec<Value>, bool) = match (k, t) {
            ("CHOICE", TsType::Union { of }) => (of.iter().filter_map(|x| match x {
                TsType::Obj { members, .. } if members.len() == 1 => Some(json!({"name": members[0].name, "opt": members[0].opt, "cls": cls(&members[0].ty)})),
                _ => None,
            }).collect(), false),
            ("CHOICE", TsType::Obj { members, index }) if members.len() == 1 => (vec![json!({"name": members[0].name, "opt": members[0].opt, "cls": cls(&members[0].ty)})], *index),
            (_, TsType::Obj { members, index }) => (members.iter().map(|m| json!({"name": m.name, "opt": m.opt, "cls": cls(&m.ty)})).collect(), *index),
            _ => (vec![], false),
        };
        ev["obs"] = json!(members);
        ev["index"] = json!(index);
        evs.push(ev);
        // recurse into the members
        let member_ty = |name: &str| -> Option<TsType> {
            match t {
                TsType::Obj { members, .. } => members.iter().find(|m| m.name == name).map(|m| m.ty.clone()),
                TsType::Union { of } => of.iter().find_map(|x| match x {
                    TsType::Obj { members, .. } if members.len() == 1 && members[0].name == name => Some(members[0].ty.clone()),
                    _ => None,
                }),
                _ => None,
            }
        };
        for c in &n.children {
            if let Some(mt) = member_ty(&table.comp_name(*c)) {
                node_events(ci, table, *c, &mt, evs);
            }
        }
    } else if LISTS.contains(&k) {
        let mut ev = base.clone();
        let elem = n.children.first().copied();
        ev["src_elem"] = json!(elem.map(|e| src_cls(table, e)).unwrap_or_default());
        match t {
            TsType::Arr { of } => {
                ev["obs_elem"] = json!(cls(of));
                evs.push(ev);
                if let Some(e) = elem {
                    node_events(ci, table, e, of, evs);
                }
            }
            _ => {
                ev["obs_elem"] = json!("");
                evs.push(ev);
            }
        }
    } else if k == "ENUMERATED" && n.p != 0 {
        let mut ev = base.clone();
        ev["src_names"] = json!(["ea", "eb", "ec"]);
        ev["obs_names"] = json!(match t {
            TsType::Union { of } => of.iter().filter_map(|x| if let TsType::Lit { v } = x { Some(v.clone()) } else { None }).collect::<Vec<_>>(),
            TsType::Lit { v } => vec![v.clone()],
            _ => vec![],
        });
        evs.push(ev);
    }
}

pub fn events_for_case(ci: usize, case: &Value) -> Vec<Value> {
    let table = Table::from_json(case);
    let mut text = table.text();
    // every third module set carries a comment in front of each definition (the backend copies those into the output): its
    // text has what would end a TypeScript block comment and open brackets that are never closed
    if ci % 3 == 1 {
        let mut out = String::new();
        for l in text.lines() {
            if l.contains(" ::= ") && !l.contains(" DEFINITIONS ") {
                out.push_str("-- the range is closed */ at { both [ ends ( of it\n");
            }
            out.push_str(l);
            out.push('\n');
        }
        text = out;
    }
    let (o, _) = run::compile_ts(&[text.clone()]);
    let status = if o.status == "ok" && !o.warnings.is_empty() { "warn".to_string() } else { o.status.clone() };
    let mut evs = vec![json!({"ev": "tsbegin", "case": ci, "status": status, "asn": text,
                              "detail": format!("{}{}{}", o.error, o.panic_msg, o.warnings.first().cloned().unwrap_or_default())})];
    if o.status != "ok" {
        evs[0]["balanced"] = json!(true);
        return evs;
    }
    let file = tsproj::project(&o.generated);
    evs[0]["balanced"] = json!(file.balanced);
    for m in 1..=table.mods.tagdef.len() {
        let nsname = mangle(&table.module_name(m));
        let ns = file.namespaces.iter().find(|n| n.name == nsname);
        let declared: Vec<String> = ns.map(|n| n.decls.iter().map(|d| d.name.clone()).chain(n.imports.iter().map(|i| i.0.clone())).collect()).unwrap_or_default();
        let mut mentioned = vec![];
        if let Some(ns) = ns {
            for d in &ns.decls {
                if let Some(t) = &d.ty {
                    refs_in(t, &mut mentioned);
                }
            }
        }
        mentioned.sort();
        mentioned.dedup();
        // Name: declared in the namespace or imported; Module.Name: declared in that namespace
        let unresolved: Vec<String> = mentioned.iter().filter(|r| match r.split_once('.') {
            Some((q, name)) => !file.namespaces.iter().any(|n| n.name == q && n.decls.iter().any(|d| d.name == name)),
            None => !declared.contains(r),
        }).cloned().collect();
        // import aliases must point at a declaration of the exporting namespace
        let dangling: Vec<String> = ns.map(|n| n.imports.iter().filter(|(_, module, remote)| {
            !file.namespaces.iter().any(|x| &x.name == module && x.decls.iter().any(|d| &d.name == remote))
        }).map(|(l, m, r)| format!("{l} = {m}.{r}")).collect()).unwrap_or_default();
        // the imported names of this module that consist of capital letters and hyphens only (mangled as they are mentioned)
        let allcaps: Vec<String> = table.imports(m).iter().map(|(_, n)| n.clone()).filter(|n| n.chars().all(|c| c.is_ascii_uppercase() || c == '-')).map(|n| mangle(&n)).collect();
        evs.push(json!({"ev": "tsns", "case": ci, "module": table.module_name(m), "found": ns.is_some(), "unresolved": unresolved, "dangling": dangling,
                        "allcaps_imports": allcaps, "asn": table.module_text(m, None)}));
        for d in table.defs().iter().filter(|d| d.m == m && d.k != "VALUE") {
            let name = mangle(&table.def_name(d.idx));
            let decls: Vec<&tsproj::TsDecl> = ns.map(|n| n.decls.iter().filter(|x| x.name == name).collect()).unwrap_or_default();
            let mut ev = json!({"ev": "tsdecl", "case": ci, "def": name, "kind": d.k, "count": decls.len(),
                                "decl_kind": decls.first().map(|x| x.kind.clone()).unwrap_or_default(),
                                "asn": table.def_text(d.idx), "enum_names": [], "enum_values": [],
                                "src_names": ["ea", "eb", "ec"], "src_mangled": ["ea", "eb", "ec"]});
            if let Some(dd) = decls.first() {
                if dd.kind == "enum" {
                    ev["enum_names"] = json!(dd.members.iter().map(|m| m.0.clone()).collect::<Vec<_>>());
                    ev["enum_values"] = json!(dd.members.iter().map(|m| m.1.clone()).collect::<Vec<_>>());
                }
                ev["obs_cls"] = json!(dd.ty.as_ref().map(cls).unwrap_or_else(|| dd.kind.clone()));
            }
            evs.push(ev);
            if let Some(t) = decls.first().and_then(|x| x.ty.clone()) {
                node_events(ci, &table, d.idx, &t, &mut evs);
            }
        }
    }
    evs
}

/// identifiers with hyphens: type references, component and alternative names, enumerals (the generated module sets have none)
pub fn hyphen_events(ci: usize) -> Vec<Value> {
    let text = "Hyph-Mod DEFINITIONS AUTOMATIC TAGS ::= BEGIN\nDir-ection ::= ENUMERATED { going-down, up-2, plain }\nRec-ord ::= SEQUENCE { first-name UTF8String, nick-name UTF8String OPTIONAL, dir Dir-ection, inl ENUMERATED { in-line, other }, ... }\nCho-ice ::= CHOICE { alt-one INTEGER, alt-two Rec-ord }\nLst-of ::= SEQUENCE OF Dir-ection\nempty-list SEQUENCE OF INTEGER ::= {}\nsome-list SEQUENCE OF INTEGER ::= { 1, 2 }\nEND\n".to_string();
    let (o, _) = run::compile_ts(&[text.clone()]);
    let status = if o.status == "ok" && !o.warnings.is_empty() { "warn".to_string() } else { o.status.clone() };
    let mut evs = vec![json!({"ev": "tsbegin", "case": ci, "status": status, "asn": text, "balanced": true,
                              "detail": format!("{}{}{}", o.error, o.panic_msg, o.warnings.first().cloned().unwrap_or_default())})];
    if o.status != "ok" {
        return evs;
    }
    let file = tsproj::project(&o.generated);
    evs[0]["balanced"] = json!(file.balanced);
    let ns = file.namespaces.iter().find(|n| n.name == "Hyph_Mod");
    evs.push(json!({"ev": "tsns", "case": ci, "module": "Hyph-Mod", "found": ns.is_some(), "unresolved": [], "dangling": [], "allcaps_imports": [], "asn": text}));
    let decl = |name: &str| ns.and_then(|n| n.decls.iter().find(|d| d.name == name));
    let count = |name: &str| ns.map(|n| n.decls.iter().filter(|d| d.name == name).count()).unwrap_or(0);
    // the ENUMERATED: members named by the mangled enumerals, valued by the original ones
    let mut e = json!({"ev": "tsdecl", "case": ci, "def": "Dir_ection", "kind": "ENUMERATED", "count": count("Dir_ection"),
                       "decl_kind": decl("Dir_ection").map(|d| d.kind.clone()).unwrap_or_default(), "asn": "Dir-ection ::= ENUMERATED { going-down, up-2, plain }",
                       "enum_names": [], "enum_values": [], "src_names": ["going-down", "up-2", "plain"], "src_mangled": ["going_down", "up_2", "plain"], "obs_cls": "enum"});
    if let Some(d) = decl("Dir_ection") {
        e["enum_names"] = json!(d.members.iter().map(|m| m.0.clone()).collect::<Vec<_>>());
        e["enum_values"] = json!(d.members.iter().map(|m| m.1.clone()).collect::<Vec<_>>());
    }
    evs.push(e);
    // the SEQUENCE and the CHOICE: member names are the mangled component names
    for (name, kind, asn, src) in [("Rec_ord", "SEQUENCE", "Rec-ord ::= SEQUENCE { first-name UTF8String, nick-name UTF8String OPTIONAL, dir Dir-ection, inl ENUMERATED { in-line, other }, ... }",
                                    json!([{"name": "first_name", "opt": false, "cls": "UTF8String"}, {"name": "nick_name", "opt": true, "cls": "UTF8String"},
                                           {"name": "dir", "opt": false, "cls": "REF:Dir_ection"}, {"name": "inl", "opt": false, "cls": "ENUMERATED"}])),
                                   ("Cho_ice", "CHOICE", "Cho-ice ::= CHOICE { alt-one INTEGER, alt-two Rec-ord }",
                                    json!([{"name": "alt_one", "opt": false, "cls": "INTEGER"}, {"name": "alt_two", "opt": false, "cls": "REF:Rec_ord"}]))] {
        evs.push(json!({"ev": "tsdecl", "case": ci, "def": name, "kind": kind, "count": count(name), "decl_kind": decl(name).map(|d| d.kind.clone()).unwrap_or_default(),
                        "asn": asn, "enum_names": [], "enum_values": [], "src_names": [], "src_mangled": [],
                        "obs_cls": decl(name).and_then(|d| d.ty.as_ref().map(cls)).unwrap_or_default()}));
        if let Some(t) = decl(name).and_then(|d| d.ty.clone()) {
            let (members, index): (Vec<Value>, bool) = match &t {
                TsType::Union { of } => (of.iter().filter_map(|x| match x {
                    TsType::Obj { members, .. } if members.len() == 1 => Some(json!({"name": members[0].name, "opt": members[0].opt, "cls": cls(&members[0].ty)})),
                    _ => None,
                }).collect(), false),
                TsType::Obj { members, index } => (members.iter().map(|m| json!({"name": m.name, "opt": m.opt, "cls": cls(&m.ty)})).collect(), *index),
                _ => (vec![], false),
            };
            evs.push(json!({"ev": "tsnode", "case": ci, "node": 0, "kind": kind, "nested": false, "marker": kind == "SEQUENCE", "implied": false, "asn": asn,
                            "obs_cls": cls(&t), "src": src, "obs": members, "index": index}));
            // the inline ENUMERATED keeps the original enumeral names as string literals
            if let TsType::Obj { members, .. } = &t {
                if let Some(m) = members.iter().find(|m| m.name == "inl") {
                    evs.push(json!({"ev": "tsnode", "case": ci, "node": 0, "kind": "ENUMERATED", "nested": true, "marker": false, "implied": false,
                                    "asn": "inl ENUMERATED { in-line, other } (in Rec-ord)", "obs_cls": cls(&m.ty), "src_names": ["in-line", "other"],
                                    "obs_names": match &m.ty { TsType::Union { of } => of.iter().filter_map(|x| if let TsType::Lit { v } = x { Some(v.clone()) } else { None }).collect::<Vec<_>>(), _ => vec![] }}));
                }
            }
        }
    }
    evs
}

/// vharness c18 --cases <ndjson> --trace <ndjson>
pub fn drive(args: &[String]) -> i32 {
    let cases = util::read_ndjson(util::arg(args, "--cases").expect("--cases"));
    let indexed: Vec<(usize, Value)> = cases.into_iter().enumerate().collect();
    let mut events = util::par_chunks(&indexed, 8, util::threads(), |_, chunk| {
        run::install_panic_hook();
        chunk.iter().flat_map(|(i, c)| events_for_case(*i, c)).collect()
    });
    events.extend(hyphen_events(indexed.len()));
    util::write_ndjson(util::arg(args, "--trace").expect("--trace"), &events);
    eprintln!("c18: {} cases, {} events", indexed.len(), events.len());
    0
}
