//! cstring driver (spec/CString.tla; C15 and C07): one spelling of the lexical item "cstring" per case,
//! written as the single string of a FROM constraint, as a character string value and as a DEFAULT.
//! The harness prints and projects; what the string represents is decided by the trace specification.
use crate::rseval::{value_parts, Ctx};
use crate::{rsproj, run, util};
use serde_json::{json, Value};

fn sym_text(s: &str) -> &'static str {
    match s {
        "a" => "A",
        "b" => "z",
        "sp" => " ",
        "ht" => "\t",
        "lf" => "\n",
        "crlf" => "\r\n",
        "qq" => "\"\"",
        _ => "?",
    }
}

fn char_name(c: char) -> String {
    match c {
        'A' => "a".into(),
        'z' => "b".into(),
        ' ' => "sp".into(),
        '\t' => "ht".into(),
        '"' => "q".into(),
        '\n' => "nl".into(),
        '\r' => "cr".into(),
        other => format!("other:{}", other as u32),
    }
}

fn spelling(c: &Value) -> String {
    c["syms"].as_array().unwrap().iter().map(|s| sym_text(s.as_str().unwrap())).collect()
}

fn render(k: usize, c: &Value) -> String {
    let sp = spelling(c);
    let mut s = String::new();
    if c["empty"] != true {
        s += &format!("Cs{k} ::= IA5String (FROM (\"{sp}\"))\n");
    }
    s += &format!("cv{k} IA5String ::= \"{sp}\"\n");
    s += &format!("Ch{k} ::= SEQUENCE {{ pad BOOLEAN, fld UTF8String DEFAULT \"{sp}\" }}\n");
    s
}

fn names(v: Value) -> Value {
    // {"k":"str","v":[chars]} -> the same with character names
    if v["k"] == "str" {
        let cs: Vec<String> = v["v"].as_array().unwrap().iter().map(|c| char_name(c.as_str().unwrap().chars().next().unwrap_or('?'))).collect();
        json!({"k": "str", "v": cs})
    } else {
        json!({"k": v["k"], "v": [v["v"].to_string().chars().take(160).collect::<String>()]})
    }
}

fn observe(k: usize, c: &Value, text: &str, o: &run::Outcome, krate: &rsproj::RCrate) -> Value {
    let none = json!({"k": "none", "v": []});
    let mut ev = json!({"ev": "cstr", "k": k, "syms": c["syms"], "empty": c["empty"], "asn": text, "status": o.status,
                        "detail": format!("{}{}", o.error, o.panic_msg), "alpha_has": false, "alpha": [], "raw": "",
                        "value": none, "dflt": none});
    if o.status != "ok" {
        return ev;
    }
    if !o.warnings.is_empty() {
        let mine = [format!("Cs{k}"), format!("cv{k}"), format!("Ch{k}")];
        if let Some(w) = o.warnings.iter().find(|w| mine.iter().any(|n| w.contains(n.as_str()))) {
            ev["status"] = json!("warn");
            ev["detail"] = json!(w);
            return ev;
        }
    }
    // the alphabet annotation
    if let Some(item) = krate.item(&format!("Cs{k}")) {
        if let Some(rsproj::Meta::List { a: args, .. }) = item.attrs.find("from") {
            ev["alpha_has"] = json!(true);
            let lits: Vec<String> = args.iter().filter_map(|m| if let rsproj::Meta::Lit { v } = m { Some(v.clone()) } else { None }).collect();
            ev["raw"] = json!(lits.join(","));
            let mut set = std::collections::BTreeSet::new();
            for l in &lits {
                if let Some(p) = l.find("..=") {
                    let a: Vec<char> = l[..p].chars().collect();
                    let b: Vec<char> = l[p + 3..].chars().collect();
                    if a.len() == 1 && b.len() == 1 && (b[0] as u32).saturating_sub(a[0] as u32) < 256 {
                        for cp in a[0] as u32..=b[0] as u32 {
                            set.insert(char_name(char::from_u32(cp).unwrap_or('?')));
                        }
                    } else {
                        set.insert(format!("other:{l}"));
                    }
                } else {
                    let cs: Vec<char> = l.chars().collect();
                    if cs.len() == 1 {
                        set.insert(char_name(cs[0]));
                    } else {
                        set.insert(format!("other:{l}"));
                    }
                }
            }
            ev["alpha"] = json!(set.into_iter().collect::<Vec<_>>());
        }
    }
    let mut ctx = Ctx::new(krate);
    if let Some(it) = krate.all_items().find(|i| i.name == format!("CV{k}") && matches!(i.kind.as_str(), "const" | "static")) {
        if let Some((_, _, expr)) = value_parts(it) {
            ev["value"] = names(ctx.eval_str(&expr));
        }
    }
    if let Some(holder) = krate.all_items().find(|i| i.name == format!("Ch{k}") && i.kind == "struct") {
        if let Some(f) = holder.fields.iter().find(|f| f.name == "fld") {
            if let Some(fname) = f.attrs.nv("default") {
                if let Some(func) = krate.all_items().find(|i| i.kind == "fn" && i.name == fname) {
                    ev["dflt"] = names(ctx.eval_str(&func.expr));
                }
            }
        }
    }
    ev
}

fn module(body: &str) -> String {
    format!("CStrings DEFINITIONS AUTOMATIC TAGS ::= BEGIN\n{body}\nEND\n")
}

fn run_batch(base: usize, cases: &[Value]) -> Vec<Value> {
    let texts: Vec<String> = cases.iter().enumerate().map(|(i, c)| render(base + i, c)).collect();
    let (o, _) = run::compile_rasn1(&module(&texts.join("")));
    if o.status == "ok" && o.warnings.is_empty() {
        let krate = rsproj::project(&o.generated);
        return cases.iter().enumerate().map(|(i, c)| observe(base + i, c, &texts[i], &o, &krate)).collect();
    }
    if cases.len() > 1 {
        let mid = cases.len() / 2;
        let mut a = run_batch(base, &cases[..mid]);
        a.extend(run_batch(base + mid, &cases[mid..]));
        return a;
    }
    let krate = rsproj::project(&o.generated);
    vec![observe(base, &cases[0], &texts[0], &o, &krate)]
}

/// vharness cstr --cases <ndjson> --trace <ndjson>
pub fn drive(args: &[String]) -> i32 {
    let cases = util::read_ndjson(util::arg(args, "--cases").expect("--cases"));
    let events = util::par_chunks(&cases, 32, util::threads(), |base, chunk| {
        run::install_panic_hook();
        run_batch(base, chunk)
    });
    util::write_ndjson(util::arg(args, "--trace").expect("--trace"), &events);
    eprintln!("cstr: {} cases, {} events", cases.len(), events.len());
    0
}
