//! C02 driver: every constructed type (SEQUENCE, SET, CHOICE, SEQUENCE OF, SET OF, also
//! anonymous nested ones) of every generated module set: source components vs generated fields.
use crate::notation::{Table, CONTAINERS, LISTS};
use crate::{rsproj, run, util};
use rasn_compiler::prelude::RasnConfig;
use serde_json::{json, Value};

pub fn strip_wrappers(t: &str) -> (bool, bool, String) {
    // (optional, boxed, inner)
    let mut s = t.to_string();
    let mut opt = false;
    let mut boxed = false;
    loop {
        if let Some(i) = s.strip_prefix("Option<").and_then(|x| x.strip_suffix('>')) {
            // RustShape: an OPTIONAL component IS an Option<_>; an Option inside a Box (Box<Option<T>>) is a required
            // field of another type and does not count
            opt = opt || !boxed;
            s = i.to_string();
        } else if let Some(i) = s.strip_prefix("Box<").and_then(|x| x.strip_suffix('>')) {
            boxed = true;
            s = i.to_string();
        } else {
            break;
        }
    }
    (opt, boxed, s)
}

fn last_segment(t: &str) -> String {
    t.rsplit("::").next().unwrap_or(t).to_string()
}

/// abstract class of a Rust type expression, comparable with an ASN.1 kind of Notation
pub fn classify(krate: &rsproj::RCrate, table: &Table, ty: &str, depth: usize) -> String {
    let (_, _, inner) = strip_wrappers(ty);
    let t = inner.as_str();
    if depth > 8 {
        return format!("UNKNOWN:{t}");
    }
    if let Some(e) = t.strip_prefix("SequenceOf<").and_then(|x| x.strip_suffix('>')) {
        let _ = e;
        return "SEQOF".into();
    }
    if let Some(e) = t.strip_prefix("SetOf<").and_then(|x| x.strip_suffix('>')) {
        let _ = e;
        return "SETOF".into();
    }
    let prim = match t {
        "()" => "NULL",
        "bool" => "BOOLEAN",
        "u8" | "u16" | "u32" | "u64" | "i8" | "i16" | "i32" | "i64" | "Integer" => "INTEGER",
        "BitString" => "BITSTRING",
        "OctetString" => "OCTETSTRING",
        "ObjectIdentifier" => "OID",
        "RelativeOid" => "RELOID",
        "NumericString" => "NumericString",
        "PrintableString" => "PrintableString",
        "VisibleString" => "VisibleString",
        "Ia5String" => "IA5String",
        "BmpString" => "BMPString",
        "UniversalString" => "UniversalString",
        "Utf8String" => "UTF8String",
        "TeletexString" => "TeletexString",
        "GeneralString" => "GeneralString",
        "GraphicString" => "GraphicString",
        "UtcTime" => "UTCTime",
        "GeneralizedTime" => "GeneralizedTime",
        "Any" => "ANY",
        _ => "",
    };
    if !prim.is_empty() {
        return prim.into();
    }
    if t.starts_with("FixedBitString<") {
        return "BITSTRING".into();
    }
    if t.starts_with("FixedOctetString<") {
        return "OCTETSTRING".into();
    }
    let name = last_segment(t);
    if table.defs().iter().any(|d| d.k != "VALUE" && table.def_name(d.idx) == name) {
        return format!("REF:{name}");
    }
    // a definition whose Rust name differs from its ASN.1 name carries the latter as identifier annotation
    if let Some(asn) = krate.item(&name).and_then(|it| it.attrs.nv("identifier")) {
        if table.defs().iter().any(|d| d.k != "VALUE" && table.def_name(d.idx) == asn) {
            return format!("REF:{asn}");
        }
    }
    match krate.item(&name) {
        Some(it) if it.kind == "enum" && it.attrs.has("enumerated") => "ENUMERATED".into(),
        Some(it) if it.kind == "enum" && it.attrs.has("choice") => "CHOICE".into(),
        Some(it) if it.kind == "struct" || it.kind == "unit_struct" => if it.attrs.has("set") { "SET".into() } else { "SEQUENCE".into() },
        Some(it) if it.kind == "tuple_struct" && it.fields.len() == 1 => classify(krate, table, &it.fields[0].ty, depth + 1),
        _ => format!("UNKNOWN:{name}"),
    }
}

/// expected class of a source node
fn src_class(table: &Table, i: usize) -> String {
    let n = table.node(i);
    if n.k == "REF" { format!("REF:{}", table.def_name(n.r)) } else { n.k.clone() }
}

/// names of the definitions referenced anywhere under node i (i included)
fn refs_under(table: &Table, i: usize) -> Vec<String> {
    let n = table.node(i);
    let mut v = vec![];
    if n.k == "REF" {
        v.push(table.def_name(n.r));
    }
    for c in &n.children {
        for r in refs_under(table, *c) {
            if !v.contains(&r) {
                v.push(r);
            }
        }
    }
    v
}

fn src_members(table: &Table, i: usize) -> Vec<Value> {
    table
        .node(i)
        .children
        .iter()
        .map(|c| {
            let ch = table.node(*c);
            json!({"name": table.comp_name(*c), "cls": src_class(table, *c), "opt": ch.opt, "add": ch.add, "node": c,
                   "refs": refs_under(table, *c)})
        })
        .collect()
}

/// `SequenceOf<X>` / `SetOf<X>` -> (list kind, X)
fn split_list(t: &str) -> Option<(&'static str, String)> {
    if let Some(e) = t.strip_prefix("SequenceOf<").and_then(|x| x.strip_suffix('>')) {
        return Some(("SEQOF", e.to_string()));
    }
    if let Some(e) = t.strip_prefix("SetOf<").and_then(|x| x.strip_suffix('>')) {
        return Some(("SETOF", e.to_string()));
    }
    None
}

/// follow delegate newtypes from a type expression down to a list type expression
fn resolve_list(krate: &rsproj::RCrate, ty: &str, depth: usize) -> Option<(&'static str, String)> {
    let (_, _, inner) = strip_wrappers(ty);
    if let Some(l) = split_list(&inner) {
        return Some(l);
    }
    if depth > 6 {
        return None;
    }
    let it = krate.item(&last_segment(&inner))?;
    if it.kind == "tuple_struct" && it.fields.len() == 1 {
        resolve_list(krate, &it.fields[0].ty, depth + 1)
    } else {
        None
    }
}

/// the Rust type expression that stands for the (possibly anonymous) type node `i`, found by
/// following the types of the enclosing items -- never by predicting a name
fn rust_type_of(krate: &rsproj::RCrate, table: &Table, i: usize) -> Option<String> {
    let n = table.node(i);
    if n.p == 0 {
        // the item of a definition: named like the definition, or carrying its ASN.1 name as identifier annotation
        let asn = table.def_name(i);
        return Some(krate.all_items().find(|it| it.kind != "impl" && it.kind != "fn" && it.attrs.nv("identifier").as_deref() == Some(asn.as_str()))
            .map(|it| it.name.clone()).unwrap_or(asn));
    }
    let pn = table.node(n.p);
    let pty = rust_type_of(krate, table, n.p)?;
    if LISTS.contains(&pn.k.as_str()) {
        return resolve_list(krate, &pty, 0).map(|(_, e)| e);
    }
    let parent = item_for_type(krate, &pty)?;
    let cname = table.comp_name(i);
    if parent.kind == "enum" {
        parent.variants.iter().find(|v| v.attrs.nv("identifier").as_deref() == Some(&cname) || v.name == cname)?.ty.clone()
    } else {
        parent.fields.iter().find(|f| f.attrs.nv("identifier").as_deref() == Some(&cname) || f.name == cname).map(|f| f.ty.clone())
    }
}

/// the struct / enum item a type expression names (through delegate newtypes)
fn item_for_type<'a>(krate: &'a rsproj::RCrate, ty: &str) -> Option<&'a rsproj::RItem> {
    let (_, _, inner) = strip_wrappers(ty);
    let mut it = krate.item(&last_segment(&inner))?;
    for _ in 0..6 {
        if it.kind == "tuple_struct" && it.fields.len() == 1 {
            let (_, _, inner) = strip_wrappers(&it.fields[0].ty);
            match krate.item(&last_segment(&inner)) {
                Some(next) => it = next,
                None => break,
            }
        } else {
            break;
        }
    }
    Some(it)
}

fn observe_members(krate: &rsproj::RCrate, table: &Table, it: &rsproj::RItem) -> Vec<Value> {
    let module_fns: Vec<&rsproj::RItem> = krate.all_items().filter(|x| x.kind == "fn").collect();
    if it.kind == "enum" {
        it.variants
            .iter()
            .map(|v| {
                let ty = v.ty.clone().unwrap_or_default();
                let (opt, boxed, _) = strip_wrappers(&ty);
                json!({"name": v.attrs.nv("identifier").unwrap_or(v.name.clone()), "cls": classify(krate, table, &ty, 0),
                       "optional": opt, "boxed": boxed, "has_default": false, "fn_found": false, "fn_type_matches": false,
                       "ext": v.attrs.has("extension_addition"), "ty": ty})
            })
            .collect()
    } else {
        it.fields
            .iter()
            .map(|f| {
                let (opt, boxed, _) = strip_wrappers(&f.ty);
                let dfn = f.attrs.nv("default");
                let found = dfn.as_ref().and_then(|d| module_fns.iter().find(|x| &x.name == d));
                json!({"name": f.attrs.nv("identifier").unwrap_or(f.name.clone()), "cls": classify(krate, table, &f.ty, 0),
                       "optional": opt, "boxed": boxed, "has_default": dfn.is_some(), "fn_found": found.is_some(),
                       "fn_type_matches": found.map(|x| x.ty == f.ty).unwrap_or(false),
                       "ext": f.attrs.has("extension_addition"), "ty": f.ty})
            })
            .collect()
    }
}

/// by-value containment edges between generated items (Box and SequenceOf/SetOf break an edge)
fn by_value_edges(krate: &rsproj::RCrate) -> Vec<Value> {
    let mut edges = vec![];
    for it in krate.all_items() {
        if !matches!(it.kind.as_str(), "struct" | "tuple_struct" | "enum") {
            continue;
        }
        let tys: Vec<String> = it.fields.iter().map(|f| f.ty.clone()).chain(it.variants.iter().filter_map(|v| v.ty.clone())).collect();
        for t in tys {
            let mut s = t.clone();
            while let Some(i) = s.strip_prefix("Option<").and_then(|x| x.strip_suffix('>')) {
                s = i.to_string();
            }
            if s.starts_with("Box<") || s.starts_with("SequenceOf<") || s.starts_with("SetOf<") {
                continue;
            }
            let name = last_segment(&s);
            if krate.item(&name).is_some() {
                edges.push(json!([it.name, name]));
            }
        }
    }
    edges
}

pub fn events_for_case(ci: usize, case: &Value, config: RasnConfig) -> Vec<Value> {
    let table = Table::from_json(case);
    let text = table.text();
    let (o, _) = run::compile_rasn(&[text.clone()], config);
    let status = if o.status == "ok" && !o.warnings.is_empty() { "warn".to_string() } else { o.status.clone() };
    // reference edges between definitions: [owner definition, referenced definition, avoidable]
    let src_edges: Vec<Value> = table
        .nodes
        .iter()
        .filter(|n| n.k == "REF")
        .map(|n| json!([table.def_name(table.def_of(n.idx)), table.def_name(n.r)]))
        .collect();
    let mut evs = vec![];
    let krate = if status == "ok" { rsproj::project(&o.generated) } else { rsproj::RCrate::default() };
    evs.push(json!({"ev": "begin", "case": ci, "status": status, "parsed_ok": krate.parsed_ok,
                    "detail": format!("{}{}{}", o.error, o.panic_msg, o.warnings.first().cloned().unwrap_or_default()),
                    "src_edges": src_edges, "obs_edges": if status == "ok" { by_value_edges(&krate) } else { vec![] },
                    "asn": text}));
    if status != "ok" {
        return evs;
    }
    for n in &table.nodes {
        let k = n.k.as_str();
        if !(CONTAINERS.contains(&k) || LISTS.contains(&k)) {
            continue;
        }
        let mut ev = json!({"ev": "ctype", "case": ci, "node": n.idx, "kind": k, "nested": n.p != 0,
                            "def": table.def_name(table.def_of(n.idx)),
                            "asn": format!("{} (in {})", table.type_text(n.idx), table.def_name(table.def_of(n.idx))),
                            "found": false, "item_kind": "", "is_set": false, "src": src_members(&table, n.idx), "obs": [],
                            "src_elem": "", "obs_elem": "", "obs_list": "", "elem_boxed": false});
        let rty = rust_type_of(&krate, &table, n.idx);
        if LISTS.contains(&k) {
            if let Some((list, elem)) = rty.as_deref().and_then(|t| resolve_list(&krate, t, 0)) {
                ev["found"] = json!(true);
                ev["obs_list"] = json!(list);
                ev["obs_elem"] = json!(classify(&krate, &table, &elem, 0));
                ev["elem_boxed"] = json!(strip_wrappers(&elem).1);
                ev["src_elem"] = json!(n.children.first().map(|e| src_class(&table, *e)).unwrap_or_default());
            }
        } else if let Some(it) = rty.as_deref().and_then(|t| item_for_type(&krate, t)) {
            ev["found"] = json!(true);
            ev["item_kind"] = json!(it.kind);
            ev["is_set"] = json!(it.attrs.has("set"));
            ev["obs"] = json!(observe_members(&krate, &table, it));
        }
        evs.push(ev);
    }
    evs
}

/// vharness c02 --cases <ndjson> --trace <ndjson>
pub fn drive(args: &[String]) -> i32 {
    let cases = util::read_ndjson(util::arg(args, "--cases").expect("--cases"));
    let indexed: Vec<(usize, Value)> = cases.into_iter().enumerate().collect();
    let events = util::par_chunks(&indexed, 8, util::threads(), |_, chunk| {
        run::install_panic_hook();
        chunk.iter().flat_map(|(i, c)| events_for_case(*i, c, run::default_config())).collect()
    });
    util::write_ndjson(util::arg(args, "--trace").expect("--trace"), &events);
    eprintln!("c02: {} cases, {} events", indexed.len(), events.len());
    0
}
