//! C06 driver: one constrained INTEGER per case, in the syntactic position the case names.
use crate::{rsproj, run, util};
use serde_json::{json, Value};

const KS: [u32; 8] = [7, 8, 15, 16, 31, 32, 63, 64];

/// the 53 boundary points in increasing order (index 1..=53; 1 = MIN, 53 = MAX), mirroring
/// IntWidth!Points; finite points as numbers
pub fn points() -> Vec<Option<i128>> {
    let mut v: Vec<Option<i128>> = vec![None];
    for k in KS.iter().rev() {
        for d in [-1i128, 0, 1] {
            v.push(Some(-(1i128 << k) + d));
        }
    }
    v.extend([Some(-1), Some(0), Some(1)]);
    for k in KS.iter() {
        for d in [-1i128, 0, 1] {
            v.push(Some((1i128 << k) + d));
        }
    }
    v.push(None);
    v
}

fn bound(pts: &[Option<i128>], i: usize) -> String {
    match pts[i - 1] {
        Some(n) => n.to_string(),
        None if i == 1 => "MIN".into(),
        None => "MAX".into(),
    }
}

pub const PRIMS: [&str; 10] = ["u8", "u16", "u32", "u64", "i8", "i16", "i32", "i64", "Integer", "i128"];

/// follow newtype wrappers down to a primitive integer type
pub fn chase(krate: &rsproj::RCrate, ty: &str, depth: usize) -> String {
    if PRIMS.contains(&ty) || depth > 8 {
        return ty.to_string();
    }
    for wrap in ["Option<", "Box<", "SequenceOf<", "SetOf<", "LazyLock<"] {
        if let Some(inner) = ty.strip_prefix(wrap).and_then(|s| s.strip_suffix('>')) {
            return chase(krate, inner, depth + 1);
        }
    }
    match krate.item(ty) {
        Some(it) if it.kind == "tuple_struct" && it.fields.len() == 1 => chase(krate, &it.fields[0].ty, depth + 1),
        _ => ty.to_string(),
    }
}

/// all integer literals (value, suffix) in a normalised expression; identifiers containing
/// digits are not literals
pub fn int_literals(expr: &str) -> Vec<(i128, String)> {
    let c: Vec<char> = expr.chars().collect();
    let mut out = vec![];
    let mut i = 0;
    while i < c.len() {
        let prev_ident = i > 0 && (c[i - 1].is_alphanumeric() || c[i - 1] == '_' || c[i - 1] == '.');
        if c[i].is_ascii_digit() && !prev_ident {
            let mut j = i;
            while j < c.len() && (c[j].is_ascii_digit() || c[j] == '_') {
                j += 1;
            }
            let digits: String = c[i..j].iter().filter(|x| **x != '_').collect();
            let mut k = j;
            while k < c.len() && (c[k].is_alphanumeric()) {
                k += 1;
            }
            let suffix: String = c[j..k].iter().collect();
            let mut neg = false;
            let mut b = i;
            while b > 0 && c[b - 1] == ' ' {
                b -= 1;
            }
            if b > 0 && c[b - 1] == '-' {
                neg = true;
            }
            if let Ok(n) = digits.parse::<i128>() {
                out.push((if neg { -n } else { n }, suffix));
            } else {
                out.push((i128::MAX, format!("unparsable{suffix}")));
            }
            i = k;
        } else if c[i].is_alphanumeric() || c[i] == '_' {
            while i < c.len() && (c[i].is_alphanumeric() || c[i] == '_') {
                i += 1;
            }
        } else {
            i += 1;
        }
    }
    out
}

struct Rendered {
    text: String,
    k: usize,
}

fn render(k: usize, case: &Value, pts: &[Option<i128>]) -> Rendered {
    let lo = case["lo"].as_u64().unwrap() as usize;
    let hi = case["hi"].as_u64().unwrap() as usize;
    let ext = case["ext"].as_bool().unwrap();
    // the model's cases are abstract; among the equivalent spellings of the marker the harness rotates
    let e = if ext { [", ...", " , ...", ",...", "\n, ..."][k % 4] } else { "" };
    let op = case["op"].as_str().unwrap_or("none");
    let (lo2, hi2) = (case["lo2"].as_u64().unwrap_or(0) as usize, case["hi2"].as_u64().unwrap_or(0) as usize);
    let second = |pts: &[Option<i128>]| if lo2 == hi2 { bound(pts, lo2) } else { format!("{}..{}", bound(pts, lo2), bound(pts, hi2)) };
    // ... and every fifth extensible range / single value is written with the elements in parentheses of their own and the
    // marker behind them, ((lo..hi), ...): the marker then stands on the level of the element set (X.680 50.1), same meaning
    let outer = ext && k % 5 == 4 && op == "none" && matches!(case["form"].as_str().unwrap_or("range"), "range" | "single");
    let c = if outer {
        if case["form"] == "single" { format!("(({}), ...)", bound(pts, lo)) } else { format!("(({}..{}), ...)", bound(pts, lo), bound(pts, hi)) }
    } else if case["form"] == "single" {
        format!("({}{e})", bound(pts, lo))
    } else {
        match op {
            "|" => format!("({}..{} | {}{e})", bound(pts, lo), bound(pts, hi), second(pts)),
            "^" => format!("({}..{} ^ {}{e})", bound(pts, lo), bound(pts, hi), second(pts)),
            "serial" => format!("({}..{})({}{e})", bound(pts, lo), bound(pts, hi), second(pts)),
            // open range ends: the same range spelled with the neighbouring boundary point and "<"
            _ => match case["form"].as_str().unwrap_or("range") {
                "open_lo" => format!("({}<..{}{e})", bound(pts, lo - 1), bound(pts, hi)),
                "open_hi" => format!("({}..<{}{e})", bound(pts, lo), bound(pts, hi + 1)),
                "open_both" => format!("({}<..<{}{e})", bound(pts, lo - 1), bound(pts, hi + 1)),
                _ => format!("({}..{}{e})", bound(pts, lo), bound(pts, hi)),
            },
        }
    };
    let val = case["val"].as_u64().unwrap_or(0) as usize;
    let v = if val > 0 { bound(pts, val) } else { String::new() };
    let text = match case["pos"].as_str().unwrap() {
        "assignment" => format!("Ta{k} ::= INTEGER {c}"),
        "component" => format!("Tc{k} ::= SEQUENCE {{ f INTEGER {c} }}"),
        "element" => format!("Te{k} ::= SEQUENCE OF INTEGER {c}"),
        "reference" => format!("Tb{k} ::= INTEGER\nTr{k} ::= Tb{k} {c}"),
        "value" => format!("Tv{k} ::= INTEGER {c}\nvv{k} Tv{k} ::= {v}"),
        "default" => format!("Td{k} ::= SEQUENCE {{ f INTEGER {c} DEFAULT {v} }}"),
        other => panic!("unknown position {other}"),
    };
    Rendered { text, k }
}

fn observe(case: &Value, r: &Rendered, o: &run::Outcome, krate: &rsproj::RCrate, pts: &[Option<i128>]) -> Value {
    let k = r.k;
    let mut ev = json!({
        "ev": "int", "k": k, "lo": case["lo"], "hi": case["hi"], "ext": case["ext"], "pos": case["pos"],
        "form": case["form"], "val": case["val"], "asn": r.text,
        "op": case.get("op").cloned().unwrap_or(json!("none")), "lo2": case.get("lo2").cloned().unwrap_or(json!(0)),
        "hi2": case.get("hi2").cloned().unwrap_or(json!(0)),
        "status": o.status, "ty": "", "haslit": false, "lit_pt": 0, "lit_ty": "", "detail": "",
    });
    if o.status != "ok" {
        ev["detail"] = json!(format!("{}{}", o.error, o.panic_msg));
        return ev;
    }
    let names = [format!("Ta{k}"), format!("Tc{k}"), format!("Te{k}"), format!("Tr{k}"), format!("Tv{k}"), format!("Td{k}"), format!("vv{k}")];
    if let Some(w) = o.warnings.iter().find(|w| names.iter().any(|n| w.contains(n.as_str()))) {
        ev["status"] = json!("warn");
        ev["detail"] = json!(w);
        return ev;
    }
    let pos = case["pos"].as_str().unwrap();
    let field_ty = |item: &str, field: &str| -> Option<String> {
        krate.item(item).and_then(|it| it.fields.iter().find(|f| f.name == field).map(|f| f.ty.clone()))
    };
    let ty = match pos {
        "assignment" => field_ty(&format!("Ta{k}"), "0"),
        "component" => field_ty(&format!("Tc{k}"), "f"),
        "element" => field_ty(&format!("Te{k}"), "0"),
        "reference" => field_ty(&format!("Tr{k}"), "0"),
        "value" => field_ty(&format!("Tv{k}"), "0"),
        "default" => field_ty(&format!("Td{k}"), "f"),
        _ => None,
    };
    let Some(ty) = ty else {
        ev["status"] = json!("missing");
        return ev;
    };
    ev["ty"] = json!(chase(krate, &ty, 0));
    // the emitted literal of a value assignment / DEFAULT
    let lit_src: Option<(String, String)> = match pos {
        "value" => krate.item(&format!("VV{k}")).map(|it| (it.ty.clone(), it.expr.clone())),
        "default" => krate
            .item(&format!("Td{k}"))
            .and_then(|it| it.fields.iter().find(|f| f.name == "f").and_then(|f| f.attrs.nv("default")))
            .and_then(|fname| krate.item(&fname).map(|it| (it.ty.clone(), it.expr.clone()))),
        _ => None,
    };
    if pos == "value" || pos == "default" {
        match lit_src {
            None => {
                ev["status"] = json!("missing");
            }
            Some((decl_ty, expr)) => {
                let lits = int_literals(&expr);
                ev["haslit"] = json!(true);
                ev["lit_expr"] = json!(expr);
                if lits.len() == 1 {
                    let (n, suffix) = &lits[0];
                    ev["lit_pt"] = json!(pts.iter().position(|p| *p == Some(*n)).map(|i| i as i64 + 1).unwrap_or(-1));
                    ev["lit_ty"] = json!(if suffix.is_empty() { chase(krate, &decl_ty, 0) } else { suffix.clone() });
                } else {
                    ev["lit_pt"] = json!(-1);
                    ev["lit_ty"] = json!(chase(krate, &decl_ty, 0));
                }
            }
        }
    }
    ev
}

fn run_batch(base: usize, cases: &[Value]) -> Vec<Value> {
    let pts = points();
    let rendered: Vec<Rendered> = cases.iter().enumerate().map(|(i, c)| render(base + i, c, &pts)).collect();
    let module = |body: &str| format!("Ints DEFINITIONS AUTOMATIC TAGS ::= BEGIN\n{body}\nEND\n");
    let all = module(&rendered.iter().map(|r| r.text.clone()).collect::<Vec<_>>().join("\n"));
    let (o, _) = run::compile_rasn1(&all);
    if o.clean() {
        let krate = rsproj::project(&o.generated);
        return cases.iter().zip(&rendered).map(|(c, r)| observe(c, r, &o, &krate, &pts)).collect();
    }
    if cases.len() > 8 {
        // split: keeps compilations large while isolating the cases that upset the compiler
        let mid = cases.len() / 2;
        let mut a = run_batch(base, &cases[..mid]);
        a.extend(run_batch(base + mid, &cases[mid..]));
        return a;
    }
    cases
        .iter()
        .zip(&rendered)
        .map(|(c, r)| {
            let (o, _) = run::compile_rasn1(&module(&r.text));
            let krate = rsproj::project(&o.generated);
            observe(c, r, &o, &krate, &pts)
        })
        .collect()
}

/// vharness c06 --cases <ndjson> --trace <ndjson>
pub fn drive(args: &[String]) -> i32 {
    let cases = util::read_ndjson(util::arg(args, "--cases").expect("--cases"));
    let batch: usize = util::arg(args, "--batch").and_then(|s| s.parse().ok()).unwrap_or(256);
    let events = util::par_chunks(&cases, batch, util::threads(), |base, chunk| {
        run::install_panic_hook();
        run_batch(base, chunk)
    });
    util::write_ndjson(util::arg(args, "--trace").expect("--trace"), &events);
    eprintln!("c06: {} cases, {} events", cases.len(), events.len());
    0
}
