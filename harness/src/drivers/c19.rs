//! C19 driver: every input is compiled under the default configuration and under other
//! configurations; the two syn projections are differenced aspect by aspect (spec/Options.tla).
//! The difference is recorded, not judged.
use crate::notation::Table;
use crate::rsproj::{self, RItem, RModule};
use crate::{run, util};
use rasn_compiler::prelude::RasnConfig;
use serde_json::{json, Value};
use std::collections::BTreeMap;

pub fn config_of(c: &Value) -> RasnConfig {
    let cfg = &c["cfg"];
    let strs = |v: &Value| -> Vec<String> { v.as_array().map(|a| a.iter().map(|x| x.as_str().unwrap().to_string()).collect()).unwrap_or_default() };
    RasnConfig {
        opaque_open_types: cfg["opaque"].as_bool().unwrap(),
        default_wildcard_imports: cfg["wild"].as_bool().unwrap(),
        generate_from_impls: cfg["from"].as_bool().unwrap(),
        no_std_compliant_bindings: cfg["nostd"].as_bool().unwrap(),
        custom_imports: strs(&c["custom_imports"]),
        type_annotations: strs(&c["type_annotations"]),
    }
}

/// a CHOICE per payload pattern; payload symbols 1.. map to distinct Rust types.  Symbol 1 is written
/// as two different ASN.1 types that are one Rust type (u8), depending on the position
pub fn choice_module(patterns: &[Value]) -> String {
    let payload = ["INTEGER (0..100)", "BOOLEAN", "Wrapped", "IA5String", "INTEGER"];
    let mut s = String::from("Choices DEFINITIONS AUTOMATIC TAGS ::= BEGIN\nWrapped ::= SEQUENCE { x INTEGER }\n");
    for (i, p) in patterns.iter().enumerate() {
        let alts: Vec<String> = p["p"].as_array().unwrap().iter().enumerate().map(|(k, t)| {
            let sym = (t.as_u64().unwrap() as usize - 1) % payload.len();
            format!("a{k} {}", if sym == 0 && k % 2 == 1 { "INTEGER (0..255)" } else { payload[sym] })
        }).collect();
        s.push_str(&format!("Ch{i}x ::= CHOICE {{ {} }}\n", alts.join(", ")));
    }
    // value assignments of every initialiser form the generator has (const, lazily initialised, CHOICE with a const and with a
    // lazily initialised alternative): no option may change the value itself
    s.push_str("dflt Wrapped ::= { x 5 }\n\
Msg ::= CHOICE { raw OCTET STRING, num INTEGER, rec Wrapped, flag BOOLEAN, small INTEGER (0..100) }\n\
msgRaw Msg ::= raw : '0102'H\nmsgNum Msg ::= num : 5\nmsgRec Msg ::= rec : { x 7 }\nmsgFlag Msg ::= flag : TRUE\nmsgSmall Msg ::= small : 9\n\
octs OCTET STRING ::= 'AB'H\nbits BIT STRING ::= '101'B\noid OBJECT IDENTIFIER ::= { iso standard 8571 }\ntxt IA5String ::= \"abc\"\n\
big INTEGER ::= 123456789012345678901234567890\nsmall INTEGER (0..100) ::= 42\nyes BOOLEAN ::= TRUE\nEND\n");
    s
}

/// information objects: the only input class on which opaque_open_types = false adds items
fn object_module() -> Vec<String> {
    vec!["Objects DEFINITIONS AUTOMATIC TAGS ::= BEGIN
MSG ::= CLASS { &id INTEGER (0..255) UNIQUE, &Type } WITH SYNTAX { &Type IDENTIFIED BY &id }
Msgs MSG ::= { { BOOLEAN IDENTIFIED BY 1 } | { IA5String IDENTIFIED BY 2 } }
Envelope ::= SEQUENCE { kind MSG.&id ({Msgs}), body MSG.&Type ({Msgs}{@kind}) }
Plain ::= SEQUENCE { a INTEGER, b BOOLEAN OPTIONAL }
Pick ::= CHOICE { one INTEGER, two BOOLEAN, three INTEGER }
limit INTEGER ::= 7
END
".to_string()]
}

/// IMPORTS of types and values from two modules: the use lines an option may (wildcard) or may not touch
fn import_modules() -> Vec<String> {
    vec!["Pkix-Base DEFINITIONS AUTOMATIC TAGS ::= BEGIN
Certificate ::= SEQUENCE { serial INTEGER, name Name }
Name ::= IA5String
Key-Id ::= OCTET STRING
max-chain INTEGER ::= 8
END
".to_string(), "Pkix-More DEFINITIONS AUTOMATIC TAGS ::= BEGIN
Policy ::= ENUMERATED { strict, lax }
END
".to_string(), "Pkix-User DEFINITIONS AUTOMATIC TAGS ::= BEGIN
IMPORTS Certificate, Name, Key-Id, max-chain FROM Pkix-Base Policy FROM Pkix-More;
Chain ::= SEQUENCE (SIZE (1..max-chain)) OF Certificate
Holder ::= SEQUENCE { name Name, key Key-Id OPTIONAL, policy Policy DEFAULT strict }
END
".to_string()]
}

#[derive(Debug, Clone, PartialEq)]
struct ValueItem {
    name: String,
    ty: String,
    value: String,
    form: String,
}

/// static / const / lazy_static! items as (name, type, value, form)
fn value_item(it: &RItem) -> Option<ValueItem> {
    match it.kind.as_str() {
        "const" => Some(ValueItem { name: it.name.clone(), ty: it.ty.clone(), value: it.expr.clone(), form: "const".into() }),
        "static" => {
            let lazy = it.ty.starts_with("LazyLock<") && it.expr.starts_with("LazyLock::new(||");
            if lazy {
                Some(ValueItem { name: it.name.clone(), ty: it.ty["LazyLock<".len()..it.ty.len() - 1].to_string(),
                                 value: it.expr["LazyLock::new(||".len()..it.expr.len() - 1].to_string(), form: "LazyLock".into() })
            } else {
                Some(ValueItem { name: it.name.clone(), ty: it.ty.clone(), value: it.expr.clone(), form: "static".into() })
            }
        }
        "macro" if it.name == "lazy_static" => {
            let body = &it.expr;
            let at = body.find("pub static ref ")?;
            let rest = &body[at + "pub static ref ".len()..];
            let colon = rest.find(':')?;
            let name = rest[..colon].trim().to_string();
            let rest = &rest[colon + 1..];
            let eq = rest.find('=')?;
            let ty = rest[..eq].trim().to_string();
            let value = rest[eq + 1..].trim().trim_end_matches(';').to_string();
            Some(ValueItem { name, ty, value, form: "lazy_static".into() })
        }
        _ => None,
    }
}

fn is_type_item(it: &RItem) -> bool {
    matches!(it.kind.as_str(), "struct" | "tuple_struct" | "unit_struct" | "enum")
}

/// the payload type of an `impl From<T> for X`
fn from_payload(it: &RItem) -> Option<String> {
    if it.kind == "impl" && it.expr.starts_with("From<") && it.expr.ends_with('>') {
        Some(it.expr[5..it.expr.len() - 1].to_string())
    } else {
        None
    }
}

/// everything of an item except the derives and the non-rasn attributes
fn body_of(it: &RItem) -> String {
    let mut x = it.clone();
    x.attrs.derives.clear();
    x.attrs.other.clear();
    serde_json::to_string(&x).unwrap()
}

fn key_of(it: &RItem) -> String {
    match value_item(it) {
        Some(v) => format!("value {}", v.name),
        None if it.kind == "impl" => format!("impl {} {} [{}]", it.name, it.expr, it.fns.join(",")),
        None => format!("{} {}", it.kind, it.name),
    }
}

fn classify_uses(m: &RModule) -> (Vec<String>, Vec<String>, Vec<Value>, Vec<String>) {
    let (mut core, mut lazy, mut sup, mut other) = (vec![], vec![], vec![], vec![]);
    for u in &m.uses {
        if u == "extern crate alloc" || u == "core::borrow::Borrow" || u == "rasn::prelude::*" {
            core.push(u.clone());
        } else if u == "std::sync::LazyLock" || u == "lazy_static::lazy_static" {
            lazy.push(u.clone());
        } else if let Some(rest) = u.strip_prefix("super::") {
            let (module, list) = match rest.split_once("::") {
                Some((m, l)) => (m.to_string(), l.trim_start_matches('{').trim_end_matches('}').split(',').map(|x| x.trim().to_string()).filter(|x| !x.is_empty()).collect::<Vec<_>>()),
                None => (rest.to_string(), vec![]),
            };
            sup.push(json!({"module": module, "list": list}));
        } else {
            other.push(u.clone());
        }
    }
    (core, lazy, sup, other)
}

fn pairs<T: Ord + Clone + serde::Serialize>(v: Vec<T>) -> Vec<(T, usize)> {
    let mut m = BTreeMap::new();
    for x in v {
        *m.entry(x).or_insert(0usize) += 1;
    }
    m.into_iter().collect()
}

fn short(s: &str) -> String {
    s.chars().take(300).collect()
}

fn module_event(ci: usize, cfg: &Value, base: &RModule, obs: &RModule, asn: &str) -> Value {
    let (bcore, blazy, bsup, bother) = classify_uses(base);
    let (ocore, olazy, osup, oother) = classify_uses(obs);
    // CHOICE enums of the base output
    let choices: Vec<&RItem> = base.items.iter().filter(|i| i.kind == "enum" && i.attrs.has("choice")).collect();
    let is_choice = |n: &str| choices.iter().any(|c| c.name == n);
    let is_from = |i: &RItem| from_payload(i).is_some() && is_choice(&i.name);
    let bitems: Vec<&RItem> = base.items.iter().filter(|i| !is_from(i)).collect();
    let oitems: Vec<&RItem> = obs.items.iter().filter(|i| !is_from(i)).collect();
    let bkeys: Vec<String> = bitems.iter().map(|i| key_of(i)).collect();
    let okeys: Vec<String> = oitems.iter().map(|i| key_of(i)).collect();
    let missing: Vec<String> = bkeys.iter().filter(|k| !okeys.contains(k)).cloned().collect();
    let extra: Vec<Value> = oitems.iter().filter(|i| !bkeys.contains(&key_of(i))).map(|i| json!({"kind": i.kind, "name": i.name, "trait": i.expr.chars().take(80).collect::<String>()})).collect();
    let common_b: Vec<&String> = bkeys.iter().filter(|k| okeys.contains(k)).collect();
    let common_o: Vec<&String> = okeys.iter().filter(|k| bkeys.contains(k)).collect();
    let mut body_diffs = vec![];
    let mut value_diffs = vec![];
    let (mut derive_pairs, mut attr_pairs, mut form_pairs) = (vec![], vec![], vec![]);
    let mut dup_keys = 0usize;
    for (k, b) in bkeys.iter().zip(&bitems) {
        if bkeys.iter().filter(|x| *x == k).count() > 1 {
            dup_keys += 1;
            continue;
        }
        let Some(o) = okeys.iter().position(|x| x == k).map(|p| oitems[p]) else { continue };
        if let (Some(bv), Some(ov)) = (value_item(b), value_item(o)) {
            if bv.ty != ov.ty || bv.value != ov.value {
                value_diffs.push(json!({"item": bv.name, "base": short(&format!("{}={}", bv.ty, bv.value)), "obs": short(&format!("{}={}", ov.ty, ov.value))}));
            }
            if b.attrs.docs != o.attrs.docs {
                value_diffs.push(json!({"item": bv.name, "base": "docs", "obs": "docs differ"}));
            }
            form_pairs.push((bv.form, ov.form));
            continue;
        }
        if body_of(b) != body_of(o) {
            body_diffs.push(json!({"item": k, "base": short(&body_of(b)), "obs": short(&body_of(o))}));
        }
        if is_type_item(b) {
            derive_pairs.push((b.attrs.derives.clone(), o.attrs.derives.clone()));
            attr_pairs.push((b.attrs.other.clone(), o.attrs.other.clone()));
        } else if b.attrs.derives != o.attrs.derives || b.attrs.other != o.attrs.other {
            body_diffs.push(json!({"item": k, "base": "attributes of a non-type item", "obs": "differ"}));
        }
    }
    // per CHOICE: payload types and the From impls found after it
    let mut choice_facts = vec![];
    for c in &choices {
        let payloads: Vec<String> = c.variants.iter().map(|v| v.ty.clone().unwrap_or_default()).collect();
        let variants: Vec<String> = c.variants.iter().map(|v| v.name.clone()).collect();
        let from: Vec<(String, String)> = obs.items.iter().filter(|i| i.name == c.name).filter_map(|i| {
            let p = from_payload(i)?;
            // fn from(value: T) -> Self { Self::Variant(value) }
            let variant = i.body.split("Self::").nth(1).map(|r| r.chars().take_while(|ch| ch.is_alphanumeric() || *ch == '_').collect::<String>()).unwrap_or_default();
            let wellformed = i.fns == ["from"] && i.body.contains(&format!("(value:{p})->Self")) && i.body.contains(&format!("Self::{variant}(value)"));
            Some((p, if wellformed { variant } else { format!("?{}", short(&i.body)) }))
        }).collect();
        let base_from = base.items.iter().filter(|i| i.name == c.name && from_payload(i).is_some()).count();
        choice_facts.push((payloads, variants, from, base_from));
    }
    let n_types = bitems.iter().filter(|i| is_type_item(i)).count();
    json!({"ev": "cfgmod", "case": ci, "cfg": cfg["cfg"], "module": base.name, "asn": asn,
           "mod_attrs_same": base.attrs == obs.attrs,
           "core_base": bcore, "core_obs": ocore, "lazy_base": blazy, "lazy_obs": olazy,
           "super_base": bsup, "super_obs": osup, "other_base": bother, "other_obs": oother,
           "order_same": common_b == common_o,
           "order_detail": if common_b == common_o { json!("") } else { json!({"base": common_b.iter().take(12).collect::<Vec<_>>(), "obs": common_o.iter().take(12).collect::<Vec<_>>()}) }, "missing": missing, "extra": extra, "dup_keys": dup_keys,
           "body_diffs": body_diffs.iter().take(4).collect::<Vec<_>>(), "n_body_diffs": body_diffs.len(),
           "value_diffs": value_diffs.iter().take(4).collect::<Vec<_>>(), "n_value_diffs": value_diffs.len(),
           "n_types": n_types,
           "derive_pairs": pairs(derive_pairs).into_iter().map(|((b, o), n)| json!({"base": b, "obs": o, "n": n})).collect::<Vec<_>>(),
           "attr_pairs": pairs(attr_pairs).into_iter().map(|((b, o), n)| json!({"base": b, "obs": o, "n": n})).collect::<Vec<_>>(),
           "form_pairs": pairs(form_pairs).into_iter().map(|((b, o), n)| json!({"base": b, "obs": o, "n": n})).collect::<Vec<_>>(),
           "choices": pairs(choice_facts).into_iter().map(|((p, v, f, bf), n)| json!({"payloads": p, "variants": v,
                        "from": f.iter().map(|(p, v)| json!({"payload": p, "variant": v})).collect::<Vec<_>>(), "base_from": bf, "n": n})).collect::<Vec<_>>()})
}

struct Input {
    sources: Vec<String>,
    base: run::Outcome,
    base_crate: rsproj::RCrate,
}

fn status_of(o: &run::Outcome) -> String {
    if o.status == "ok" && !o.warnings.is_empty() { "warn".into() } else { o.status.clone() }
}

/// the Rust names that the use lines of the default output import from sibling modules, sorted, each once
fn imported_symbols(k: &rsproj::RCrate) -> Vec<String> {
    let mut syms: Vec<String> = vec![];
    for m in &k.modules {
        let (_, _, sup, _) = classify_uses(m);
        for u in sup {
            for n in u["list"].as_array().cloned().unwrap_or_default() {
                if let Some(n) = n.as_str() {
                    if n != "*" && !syms.contains(&n.to_string()) {
                        syms.push(n.to_string());
                    }
                }
            }
        }
    }
    syms.sort();
    syms
}

fn events_for(ci: usize, input: &Input, cfg: &Value) -> Vec<Value> {
    // imports = 9: custom imports made from the module set's own imported symbols (Options!Colliding)
    let syms = imported_symbols(&input.base_crate);
    let mut cfg = cfg.clone();
    if cfg["cfg"]["imports"] == 9 {
        cfg["custom_imports"] = json!(syms.iter().map(|n| format!("verif_s::Pinned{n}")).collect::<Vec<_>>());
    }
    let cfg = &cfg;
    let (o, _) = run::compile_rasn(&input.sources, config_of(cfg));
    let text = input.sources.join("\n");
    let mut evs = vec![json!({"ev": "cfgrun", "case": ci, "cfg": cfg["cfg"], "base_status": status_of(&input.base), "obs_status": status_of(&o),
                              "same_warnings": input.base.warnings == o.warnings, "same_error": input.base.error == o.error,
                              "detail": format!("{}{}", o.error, o.panic_msg), "parsed": true, "modules_base": [], "modules_obs": [], "asn": short(&text)})];
    if !input.base.ok() || !o.ok() {
        return evs;
    }
    let k = rsproj::project(&o.generated);
    evs[0]["parsed"] = json!(k.parsed_ok && input.base_crate.parsed_ok);
    evs[0]["modules_base"] = json!(input.base_crate.modules.iter().map(|m| m.name.clone()).collect::<Vec<_>>());
    evs[0]["modules_obs"] = json!(k.modules.iter().map(|m| m.name.clone()).collect::<Vec<_>>());
    evs[0]["loose_same"] = json!(input.base_crate.loose.iter().map(body_of).collect::<Vec<_>>() == k.loose.iter().map(body_of).collect::<Vec<_>>());
    for b in &input.base_crate.modules {
        if let Some(m) = k.modules.iter().find(|m| m.name == b.name) {
            let asn = input.sources.iter().find(|s| s.to_lowercase().replace('-', "_").starts_with(&b.name)).cloned().unwrap_or_else(|| text.clone());
            let mut ev = module_event(ci, cfg, b, m, &asn);
            ev["syms"] = json!(syms);
            evs.push(ev);
        }
    }
    evs
}

/// vharness c19 --cfgs <ndjson> --patterns <ndjson> --sets <ndjson> --per-set <n> --trace <ndjson>
pub fn drive(args: &[String]) -> i32 {
    let cfgs = util::read_ndjson(util::arg(args, "--cfgs").expect("--cfgs"));
    let patterns = util::read_ndjson(util::arg(args, "--patterns").expect("--patterns"));
    let sets = util::read_ndjson(util::arg(args, "--sets").expect("--sets"));
    let per_set: usize = util::arg(args, "--per-set").and_then(|s| s.parse().ok()).unwrap_or(8);
    // inputs: the CHOICE pattern module, the information-object module, then the generated module sets
    let mut sources: Vec<Vec<String>> = vec![vec![choice_module(&patterns)], object_module(), import_modules()];
    for s in &sets {
        let t = Table::from_json(s);
        sources.push((1..=t.mods.tagdef.len()).map(|m| t.module_text(m, None)).collect());
    }
    let idx: Vec<usize> = (0..sources.len()).collect();
    let inputs: Vec<Input> = util::par_chunks(&idx, 4, util::threads(), |_, chunk| {
        run::install_panic_hook();
        chunk.iter().map(|i| {
            let (base, _) = run::compile_rasn(&sources[*i], RasnConfig::default());
            let base_crate = if base.ok() { rsproj::project(&base.generated) } else { rsproj::RCrate::default() };
            Input { sources: sources[*i].clone(), base, base_crate }
        }).collect()
    });
    let mut jobs: Vec<(usize, usize)> = vec![];
    for i in 0..inputs.len() {
        if i < 3 || per_set >= cfgs.len() {
            jobs.extend((0..cfgs.len()).map(|j| (i, j)));
        } else {
            jobs.extend((0..per_set).map(|k| (i, (i * 7 + k * 29) % cfgs.len())));
        }
    }
    let events = util::par_chunks(&jobs, 8, util::threads(), |_, chunk| {
        run::install_panic_hook();
        chunk.iter().flat_map(|(i, j)| events_for(*i, &inputs[*i], &cfgs[*j])).collect()
    });
    util::write_ndjson(util::arg(args, "--trace").expect("--trace"), &events);
    eprintln!("c19: {} inputs, {} configurations, {} compilations, {} events", inputs.len(), cfgs.len(), jobs.len(), events.len());
    0
}
