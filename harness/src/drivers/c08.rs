//! C08 driver: inputs built from the plans of spec/Totality.tla are compiled in worker processes
//! (a panic is caught and located, an abort or a hang takes the worker down and is attributed to
//! the job in flight).  Nothing is judged here.
use crate::drivers::c13::tokenize;
use crate::notation::Table;
use crate::util;
use rasn_compiler::prelude::*;
use serde_json::{json, Value};
use std::cell::RefCell;
use std::io::{BufRead, BufReader, Write};
use std::panic::{catch_unwind, AssertUnwindSafe};
use std::process::{Command, Stdio};
use std::sync::atomic::{AtomicUsize, Ordering};
use std::sync::Mutex;
use std::time::{Duration, Instant};

// ------------------------------------------------------------------------------ the worker

thread_local! {
    static SITE: RefCell<String> = RefCell::new(String::new());
}

fn norm_msg(m: &str) -> String {
    // numbers and quoted material are input-dependent; the rest of a panic message names its cause
    let mut out = String::new();
    let mut in_digits = false;
    let mut quote: Option<char> = None;
    for c in m.chars().take(300) {
        if let Some(q) = quote {
            if c == q {
                quote = None;
                out.push(c);
            }
            continue;
        }
        if c == '"' || c == '`' {
            quote = Some(c);
            out.push(c);
            out.push('_');
            continue;
        }
        if c.is_ascii_digit() {
            if !in_digits {
                out.push('N');
            }
            in_digits = true;
        } else {
            in_digits = false;
            out.push(c);
        }
    }
    out.chars().take(120).collect()
}

fn install_hook() {
    std::panic::set_hook(Box::new(|info| {
        let msg = if let Some(s) = info.payload().downcast_ref::<&str>() {
            s.to_string()
        } else if let Some(s) = info.payload().downcast_ref::<String>() {
            s.clone()
        } else {
            "<non-string panic>".into()
        };
        // the innermost frame of the compiler: stable under line shifts, unlike file:line
        let bt = std::backtrace::Backtrace::force_capture().to_string();
        let func = bt.lines().map(|l| l.trim()).filter_map(|l| l.split_once(": ").map(|x| x.1)).find(|f| f.starts_with("rasn_compiler::") || f.starts_with("<rasn_compiler::"))
            .map(|f| f.split("::h").next().unwrap_or(f).to_string())
            .unwrap_or_else(|| info.location().map(|l| l.file().to_string()).unwrap_or_default());
        SITE.with(|s| *s.borrow_mut() = format!("{func} | {}", norm_msg(&msg)));
    }));
}

thread_local! { static OUT_BYTES: std::cell::Cell<usize> = const { std::cell::Cell::new(0) }; }

fn run_one<B: Backend + Default>(text: &str) -> Value {
    let mut step = "compile";
    let r = catch_unwind(AssertUnwindSafe(|| {
        let res = Compiler::<B, _>::new().add_asn_literal(text.to_string()).compile_to_string();
        let (verdict, errs, n): (&str, Vec<CompilerError>, usize) = match res {
            Ok(r) => ("ok", r.warnings, r.generated.len()),
            Err(e) => ("err", vec![e], 0),
        };
        OUT_BYTES.with(|o| o.set(n));
        (verdict, errs)
    }));
    let (verdict, errs) = match r {
        Ok(x) => x,
        Err(_) => return json!({"outcome": "panicked", "at": step, "site": SITE.with(|s| s.borrow().clone())}),
    };
    step = "display";
    if catch_unwind(AssertUnwindSafe(|| errs.iter().map(|e| e.to_string().len()).sum::<usize>())).is_err() {
        return json!({"outcome": "panicked", "at": step, "site": SITE.with(|s| s.borrow().clone())});
    }
    step = "contextualize";
    if catch_unwind(AssertUnwindSafe(|| errs.iter().map(|e| e.contextualize(text).len()).sum::<usize>())).is_err() {
        return json!({"outcome": "panicked", "at": step, "site": SITE.with(|s| s.borrow().clone())});
    }
    json!({"outcome": verdict, "at": "", "site": "", "messages": errs.len(), "out_bytes": OUT_BYTES.with(|o| o.get())})
}

/// vharness c08worker : jobs on stdin (one JSON per line), `START <id>` / `DONE <json>` on stdout
pub fn worker(_args: &[String]) -> i32 {
    install_hook();
    let stdin = std::io::stdin();
    let stdout = std::io::stdout();
    for line in stdin.lock().lines() {
        let Ok(line) = line else { break };
        let Ok(job) = serde_json::from_str::<Value>(&line) else { continue };
        let id = job["id"].as_u64().unwrap_or(0);
        {
            let mut o = stdout.lock();
            writeln!(o, "START {id}").ok();
            o.flush().ok();
        }
        let text = job["text"].as_str().unwrap_or("").to_string();
        let ts = job["backend"] == "typescript";
        // the formatting step: with CARGO_HOME set the rasn backend finds rustfmt and pipes the bindings through it, as it does
        // in a build script; without, the step is skipped (no job thread is running while the environment is changed)
        match job["fmt_home"].as_str() {
            Some(h) if !h.is_empty() => std::env::set_var("CARGO_HOME", h),
            _ => std::env::remove_var("CARGO_HOME"),
        }
        // the stack of a main thread: what a build script or a command-line tool runs on
        let res = std::thread::Builder::new().stack_size(8 * 1024 * 1024).spawn(move || {
            if ts { run_one::<TypescriptBackend>(&text) } else { run_one::<RasnBackend>(&text) }
        }).unwrap().join().unwrap_or_else(|_| json!({"outcome": "panicked", "at": "compile", "site": "worker thread died"}));
        let mut o = stdout.lock();
        writeln!(o, "DONE {}", json!({"id": id, "res": res})).ok();
        o.flush().ok();
    }
    0
}

// ------------------------------------------------------------------------------ the inputs

struct Rng(u64);
impl Rng {
    fn next(&mut self) -> u64 {
        self.0 ^= self.0 << 13;
        self.0 ^= self.0 >> 7;
        self.0 ^= self.0 << 17;
        self.0
    }
    fn below(&mut self, n: usize) -> usize {
        (self.next() % n.max(1) as u64) as usize
    }
}

fn apply_plan(plan: &Value, seed: &str, other: &str, npos: usize, salt: usize) -> String {
    let toks = tokenize(seed);
    if toks.is_empty() {
        return seed.to_string();
    }
    let pos = plan["pos"].as_u64().unwrap() as usize;
    let i = ((pos * toks.len()) / npos + salt % (toks.len() / npos).max(1)).min(toks.len() - 1);
    let (ts, te) = (toks[i].start, toks[i].end);
    let mat = plan["mat"].as_str().unwrap_or("");
    match plan["op"].as_str().unwrap() {
        "delete" => format!("{}{}", &seed[..ts], &seed[te..]),
        "insert" => format!("{}{mat} {}", &seed[..ts], &seed[ts..]),
        "replace" => format!("{}{mat}{}", &seed[..ts], &seed[te..]),
        "duplicate" => format!("{} {}{}", &seed[..te], &seed[ts..te], &seed[te..]),
        "swap" => {
            if i + 1 < toks.len() {
                let (ns, ne) = (toks[i + 1].start, toks[i + 1].end);
                format!("{}{}{}{}{}", &seed[..ts], &seed[ns..ne], &seed[te..ns], &seed[ts..te], &seed[ne..])
            } else {
                seed.to_string()
            }
        }
        "splice" => {
            let ot = tokenize(other);
            if ot.len() < 4 {
                return seed.to_string();
            }
            let a = (salt * 7) % (ot.len() - 3);
            let b = (a + 3 + salt % 20).min(ot.len() - 1);
            let j = (i + 1 + salt % 10).min(toks.len() - 1);
            format!("{}{}{}", &seed[..ts], &other[ot[a].start..ot[b].end], &seed[toks[j].end..])
        }
        "truncate" => seed[..ts].to_string(),
        _ => format!("{}{mat}", &seed[..ts]), // unclose: something is opened and the input ends
    }
}

fn def_name(i: usize) -> String {
    format!("N{}", (b'a' + i as u8) as char)
}

fn cycle_module(c: &Value) -> String {
    let kinds: Vec<&str> = c["kinds"].as_array().unwrap().iter().map(|k| k.as_str().unwrap()).collect();
    let tgt: Vec<usize> = c["tgt"].as_array().unwrap().iter().map(|t| t.as_u64().unwrap() as usize - 1).collect();
    let mut lines = vec!["CLS ::= CLASS { &id INTEGER UNIQUE, &Type }".to_string()];
    for (i, k) in kinds.iter().enumerate() {
        let (n, t) = (def_name(i), def_name(tgt[i]));
        lines.push(match *k {
            "alias" => format!("{n} ::= {t}"),
            "member" => format!("{n} ::= SEQUENCE {{ m {t} }}"),
            "optional" => format!("{n} ::= SEQUENCE {{ m {t} OPTIONAL }}"),
            "element" => format!("{n} ::= SEQUENCE OF {t}"),
            "choice" => format!("{n} ::= CHOICE {{ m {t}, e NULL }}"),
            "compof" => format!("{n} ::= SEQUENCE {{ x{i} INTEGER, COMPONENTS OF {t} }}"),
            "compof_in_choice" => format!("{n} ::= SEQUENCE {{ id{i} INTEGER, next{i} CHOICE {{ more SEQUENCE {{ COMPONENTS OF {t} }}, end NULL }} }}"),
            "compof_in_member" => format!("{n} ::= SEQUENCE {{ id{i} INTEGER, inner{i} SEQUENCE {{ COMPONENTS OF {t} }} OPTIONAL }}"),
            "compof_in_element" => format!("{n} ::= SEQUENCE {{ id{i} INTEGER, list{i} SEQUENCE OF SEQUENCE {{ COMPONENTS OF {t} }} }}"),
            "selection" => format!("{n} ::= m < {t}"),
            "constraint_incl" => format!("{n} ::= INTEGER (INCLUDES {t})"),
            "default_ref" => format!("{n} ::= INTEGER\nv{i} {n} ::= v{}", tgt[i]),
            "objectset" => format!("{n} CLS ::= {{ {t} }}"),
            _ => format!("{n} {{P}} ::= SEQUENCE {{ m {t} {{P}} OPTIONAL }}"),
        });
    }
    if kinds.contains(&"param") {
        lines.push("Inst ::= Na { INTEGER }".into());
    }
    match c["entry"].as_str().unwrap() {
        "before" => lines.push("Aentry ::= SEQUENCE { COMPONENTS OF Na, w Na OPTIONAL }".into()),
        "after" => lines.push("Wrapper ::= SEQUENCE { COMPONENTS OF Na, w Na OPTIONAL }".into()),
        _ => (),
    }
    format!("Cyc DEFINITIONS AUTOMATIC TAGS ::= BEGIN\n{}\nEND\n", lines.join("\n"))
}

const SOUP: [&str; 40] = ["{", "}", "(", ")", "[", "]", "[[", "]]", ",", "::=", "...", "..", ".", "|", "^", ":", ";", "<", "@", "&", "\"", "'", "--", "/*", "*/", " ", "\n",
                          "A", "a", "0", "-", "SEQUENCE", "DEFINITIONS", "BEGIN", "END", "ü", "\u{10FFFF}", "\u{0}", "\\", "INTEGER"];

struct Job {
    kind: &'static str,
    /// input class, for keying findings that have no panic site (aborts, hangs)
    class: String,
    what: String,
    backend: &'static str,
    text: String,
    /// run with rustfmt reachable (the formatting step of the rasn backend)
    fmt: bool,
    /// the size of output the job is meant to reach (0: none in particular)
    want_bytes: usize,
}

// ------------------------------------------------------------------------------ the supervisor

fn supervise(jobs: &[Job], timeout: Duration, nworkers: usize, fmt_home: &str) -> Vec<Value> {
    let me = std::env::current_exe().unwrap();
    let next = AtomicUsize::new(0);
    let results: Mutex<Vec<(usize, Value)>> = Mutex::new(vec![]);
    std::thread::scope(|s| {
        for _ in 0..nworkers {
            s.spawn(|| {
                // one worker process at a time per supervisor thread; it is replaced when it dies
                'outer: loop {
                    let mut child = Command::new(&me).arg("c08worker").stdin(Stdio::piped()).stdout(Stdio::piped()).stderr(Stdio::null()).spawn().expect("worker");
                    let mut stdin = child.stdin.take().unwrap();
                    let stdout = child.stdout.take().unwrap();
                    let (tx, rx) = std::sync::mpsc::channel::<String>();
                    let reader = std::thread::spawn(move || {
                        for l in BufReader::new(stdout).lines().map_while(Result::ok) {
                            if tx.send(l).is_err() {
                                break;
                            }
                        }
                    });
                    loop {
                        let i = next.fetch_add(1, Ordering::SeqCst);
                        if i >= jobs.len() {
                            drop(stdin);
                            let _ = child.wait();
                            let _ = reader.join();
                            break 'outer;
                        }
                        let line = serde_json::to_string(&json!({"id": i, "text": jobs[i].text, "backend": jobs[i].backend, "fmt_home": if jobs[i].fmt { fmt_home } else { "" }})).unwrap();
                        let sent = writeln!(stdin, "{line}").and_then(|_| stdin.flush()).is_ok();
                        let started = Instant::now();
                        let mut outcome: Option<Value> = None;
                        if sent {
                            loop {
                                let left = timeout.checked_sub(started.elapsed()).unwrap_or(Duration::ZERO);
                                match rx.recv_timeout(left) {
                                    Ok(l) if l.starts_with("DONE ") => {
                                        let v: Value = serde_json::from_str(&l[5..]).unwrap_or(json!({}));
                                        outcome = Some(v["res"].clone());
                                        break;
                                    }
                                    Ok(_) => continue,
                                    Err(std::sync::mpsc::RecvTimeoutError::Timeout) => {
                                        let _ = child.kill();
                                        outcome = Some(json!({"outcome": "hung", "at": "compile", "site": format!("no return within {} s", timeout.as_secs())}));
                                        break;
                                    }
                                    Err(_) => break, // the worker is gone
                                }
                            }
                        }
                        let died = outcome.is_none() || outcome.as_ref().unwrap()["outcome"] == "hung";
                        let res = outcome.unwrap_or_else(|| {
                            let status = child.wait().ok();
                            use std::os::unix::process::ExitStatusExt;
                            let sig = status.and_then(|s| s.signal()).unwrap_or(0);
                            json!({"outcome": "aborted", "at": "compile", "site": format!("worker process died with signal {sig}")})
                        });
                        results.lock().unwrap().push((i, res));
                        if died {
                            let _ = child.kill();
                            let _ = child.wait();
                            drop(stdin);
                            let _ = reader.join();
                            continue 'outer;
                        }
                    }
                }
            });
        }
    });
    let mut r = results.into_inner().unwrap();
    r.sort_by_key(|x| x.0);
    r.into_iter().map(|(i, res)| {
        let j = &jobs[i];
        json!({"ev": "total", "case": i, "kind": j.kind, "class": j.class, "what": j.what, "backend": j.backend, "outcome": res["outcome"], "at": res["at"], "site": res["site"],
               "fmt": j.fmt, "want_bytes": j.want_bytes, "out_bytes": res["out_bytes"].as_u64().unwrap_or(0),
               "bytes": j.text.len(), "asn": j.text.chars().take(700).collect::<String>(), "text": if res["outcome"] == "ok" || res["outcome"] == "err" { json!("") } else { json!(j.text) }})
    }).collect()
}

/// vharness c08 --plans <ndjson> --cycles <ndjson> --sets <ndjson> --extra <ndjson of {text}> --corpus <dir> --scale <n> --timeout-s <n> --trace <ndjson>
pub fn drive(args: &[String]) -> i32 {
    let plans = util::read_ndjson(util::arg(args, "--plans").expect("--plans"));
    let cycles = util::read_ndjson(util::arg(args, "--cycles").expect("--cycles"));
    let sets = util::read_ndjson(util::arg(args, "--sets").expect("--sets"));
    let extra = util::arg(args, "--extra").map(util::read_ndjson).unwrap_or_default();
    let corpus_dir = util::arg(args, "--corpus").expect("--corpus");
    let scale: usize = util::arg(args, "--scale").and_then(|s| s.parse().ok()).unwrap_or(1);
    let timeout = Duration::from_secs(util::arg(args, "--timeout-s").and_then(|s| s.parse().ok()).unwrap_or(30));
    let seed: u64 = std::env::var("VERIF_SEED").ok().and_then(|s| s.parse().ok()).unwrap_or(1);
    let mut rng = Rng(0x9E3779B97F4A7C15 ^ seed.wrapping_mul(0x2545F4914F6CDD1D));
    // ---- seeds
    let mut corpus: Vec<(String, String)> = std::fs::read_dir(corpus_dir).map(|d| d.flatten().filter_map(|e| {
        let p = e.path();
        let t = std::fs::read_to_string(&p).ok()?;
        Some((p.file_name()?.to_string_lossy().to_string(), t))
    }).collect()).unwrap_or_default();
    corpus.sort();
    let small: Vec<&(String, String)> = corpus.iter().filter(|(_, t)| t.len() < 12_000).collect();
    let generated: Vec<String> = sets.iter().map(|s| Table::from_json(s).text()).collect();
    let snippets: Vec<String> = extra.iter().filter_map(|e| e["text"].as_str().map(|s| s.to_string())).collect();
    let mut jobs: Vec<Job> = vec![];
    let both = |jobs: &mut Vec<Job>, kind: &'static str, what: String, text: String, ts_too: bool| {
        let class = match kind {
            "cycle" => if what.contains("\"param\"") { "cycle:param".to_string() } else { format!("cycle:{}", what.split(" -> ").next().unwrap_or("")) },
            "nesting" => format!("nesting:{}", what.split(" x ").nth(1).unwrap_or("")),
            k => k.to_string(),
        };
        if ts_too {
            jobs.push(Job { kind, class: class.clone(), what: what.clone(), backend: "typescript", text: text.clone(), fmt: false, want_bytes: 0 });
        }
        jobs.push(Job { kind, class, what, backend: "rasn", text, fmt: false, want_bytes: 0 });
    };
    // 1. the seeds as they are (every corpus module in the larger scale, a rotating sample otherwise)
    let ncorpus = if scale >= 4 { corpus.len() } else { 40 * scale };
    for k in 0..ncorpus.min(corpus.len()) {
        let (name, text) = &corpus[(k * 37 + seed as usize) % corpus.len()];
        both(&mut jobs, "seed", name.clone(), text.clone(), k % 4 == 0);
    }
    for (i, g) in generated.iter().enumerate() {
        both(&mut jobs, "seed", format!("generated {i}"), g.clone(), i % 2 == 0);
    }
    for (i, g) in snippets.iter().enumerate() {
        both(&mut jobs, "seed", format!("snippet {i}"), g.clone(), true);
    }
    // 2. token-level edits: every plan on `scale` real-world seeds, a generated seed and a snippet
    let npos = plans.iter().map(|p| p["pos"].as_u64().unwrap() as usize).max().unwrap_or(0) + 1;
    for (pi, p) in plans.iter().enumerate() {
        for k in 0..scale {
            let (name, text) = small[(pi * 13 + k * 101 + seed as usize) % small.len()];
            let other = &small[(pi * 7 + k + 1) % small.len()].1;
            both(&mut jobs, "edit", format!("{} @{} {:?} on {name}", p["op"], p["pos"], p["mat"].as_str().unwrap_or("")), apply_plan(p, text, other, npos, pi + k), pi % 5 == 0);
        }
        let g = &generated[(pi + seed as usize) % generated.len()];
        both(&mut jobs, "edit", format!("{} @{} {:?} on generated", p["op"], p["pos"], p["mat"].as_str().unwrap_or("")), apply_plan(p, g, &generated[(pi + 1) % generated.len()], npos, pi), false);
        if !snippets.is_empty() {
            let sn = &snippets[pi % snippets.len()];
            both(&mut jobs, "edit", format!("{} @{} {:?} on snippet {}", p["op"], p["pos"], p["mat"].as_str().unwrap_or(""), pi % snippets.len()), apply_plan(p, sn, &snippets[(pi + 1) % snippets.len()], npos, pi / snippets.len()), false);
        }
    }
    // 2b. the notation snippets are small: every token deleted, and replaced by each material of a short list
    for (si, sn) in snippets.iter().enumerate() {
        let toks = tokenize(sn);
        for (ti, t) in toks.iter().enumerate() {
            both(&mut jobs, "snipedit", format!("snippet {si} without token {ti}"), format!("{}{}", &sn[..t.start], &sn[t.end..]), false);
            for mat in ["\"\"", "MIN", "MAX", "...", "}", "(", "0", "Zork", "zork", "''B", "170141183460469231731687303715884105727", "-170141183460469231731687303715884105728",
                        "CONTAINING INTEGER", "SIZE", "FROM",
                        // bit and hex strings that stop inside an octet, with a 1-bit in the incomplete one
                        "'101'B", "'ABC'H",
                        // names spelled with NON-BREAKING HYPHEN (U+2011), which X.680 12.1 lets stand for the hyphen in names
                        "zo\u{2011}rk", "Zo\u{2011}rk"] {
                both(&mut jobs, "snipedit", format!("snippet {si} token {ti} replaced by {mat}"), format!("{}{mat}{}", &sn[..t.start], &sn[t.end..]), false);
            }
        }
    }
    // 3. every prefix, and a multi-byte character at every position, of small inputs
    let mut small_inputs: Vec<String> = generated.iter().take(scale).cloned().collect();
    small_inputs.extend(snippets.iter().take(2 * scale).cloned());
    for (si, text) in small_inputs.iter().enumerate() {
        for (b, _) in text.char_indices() {
            both(&mut jobs, "prefix", format!("input {si} cut at byte {b}"), text[..b].to_string(), b % 7 == 0);
            if b % 2 == 0 {
                both(&mut jobs, "multibyte", format!("input {si} with a multi-byte character at byte {b}"), format!("{}ü{}", &text[..b], &text[b..]), false);
            }
        }
    }
    // 4. byte soup and deep nesting
    for k in 0..300 * scale {
        let len = 1 + rng.below(if k % 10 == 0 { 400 } else { 40 });
        let text: String = (0..len).map(|_| SOUP[rng.below(SOUP.len())]).collect::<Vec<_>>().join(if k % 3 == 0 { " " } else { "" });
        let text = if k % 2 == 0 { format!("M DEFINITIONS ::= BEGIN {text}") } else { text };
        both(&mut jobs, "soup", format!("soup {k}"), text, k % 4 == 0);
    }
    // arbitrary characters: control characters, punctuation, letters, multi-byte and astral code points
    for k in 0..200 * scale {
        let len = 1 + rng.below(if k % 8 == 0 { 600 } else { 60 });
        let text: String = (0..len).map(|_| {
            let r = rng.below(100);
            let cp = if r < 35 { 0x20 + rng.below(0x5F) as u32 } else if r < 50 { rng.below(0x20) as u32 } else if r < 70 { 0xA0 + rng.below(0x2F00) as u32 }
                     else if r < 85 { 0x3000 + rng.below(0xA000) as u32 } else { 0x1_0000 + rng.below(0xF_FFFF) as u32 };
            char::from_u32(cp).unwrap_or('\u{FFFD}')
        }).collect();
        let text = match k % 3 { 0 => text, 1 => format!("M DEFINITIONS ::= BEGIN A ::= {text} END"), _ => format!("M DEFINITIONS ::= BEGIN a UTF8String ::= \"{text}") };
        both(&mut jobs, "chars", format!("characters {k}"), text, k % 4 == 0);
    }
    for depth in [10usize, 100, 1000, 5000] {
        for (open, close) in [("{", "}"), ("(", ")"), ("SEQUENCE { a ", " }"), ("SEQUENCE OF ", ""), ("/*", "*/"), ("[[", "]]")] {
            let text = format!("M DEFINITIONS ::= BEGIN T ::= {}INTEGER{} END", open.repeat(depth), close.repeat(depth));
            both(&mut jobs, "nesting", format!("{depth} x {open:?}"), text, false);
        }
    }
    // long runs of what the lexer treats as "more of the same": doubled quotes inside a character string, comment lines
    for n in [100usize, 2000, 20000] {
        both(&mut jobs, "nesting", format!("{n} x \"doubled quotes\""), format!("M DEFINITIONS ::= BEGIN v UTF8String ::= \"a{}b\" END", "\"\"".repeat(n)), false);
        both(&mut jobs, "nesting", format!("{n} x \"comment lines\""), format!("M DEFINITIONS ::= BEGIN {}A ::= INTEGER END", "-- c\n".repeat(n)), false);
    }
    // 5. reference cycles
    for (ci, c) in cycles.iter().enumerate() {
        both(&mut jobs, "cycle", format!("{} -> {} entry {}", c["kinds"], c["tgt"], c["entry"]), cycle_module(c), ci % 6 == 0);
    }
    // 6. the formatting step (spec/FmtPipe.tla): outputs below, at and above the pipe capacity, and seeds as a build script sees them
    let fmt_home = util::arg(args, "--rustfmt-home").unwrap_or("").to_string();
    if !fmt_home.is_empty() {
        let fmt_plans = util::arg(args, "--fmt-plans").map(util::read_ndjson).unwrap_or_default();
        for p in &fmt_plans {
            // the plan gives the output size in quarters of the pipe capacity (64 KiB on Linux)
            let want = p["quarters"].as_u64().unwrap_or(1) as usize * 16 * 1024;
            for (shape, per_type) in [("SEQUENCE { a INTEGER (0..255), b BOOLEAN OPTIONAL, c IA5String (SIZE (1..8)) }", 380usize), ("INTEGER (0..7)", 135)] {
                let n = want / per_type + 8;
                let body: String = (0..n).map(|i| format!("Fm{i}x ::= {shape}\n")).collect();
                jobs.push(Job { kind: "fmtsize", class: "fmtsize".into(), what: format!("{} quarters of the pipe capacity, {n} x {shape}", p["quarters"]), backend: "rasn",
                                text: format!("Fmt DEFINITIONS AUTOMATIC TAGS ::= BEGIN\n{body}END\n"), fmt: true, want_bytes: want });
            }
        }
        for k in 0..(12 * scale).min(corpus.len()) {
            let (name, text) = &corpus[(k * 53 + 11 + seed as usize) % corpus.len()];
            jobs.push(Job { kind: "seed", class: "seed".into(), what: format!("{name} with rustfmt"), backend: "rasn", text: text.clone(), fmt: true, want_bytes: 0 });
        }
        for (i, g) in generated.iter().enumerate().take(10 * scale) {
            jobs.push(Job { kind: "seed", class: "seed".into(), what: format!("generated {i} with rustfmt"), backend: "rasn", text: g.clone(), fmt: true, want_bytes: 0 });
        }
    }
    let t = Instant::now();
    let events = supervise(&jobs, timeout, util::threads(), &fmt_home);
    util::write_ndjson(util::arg(args, "--trace").expect("--trace"), &events);
    eprintln!("c08: {} jobs in {:.1}s ({} corpus modules, {} generated, {} snippets, {} plans, {} cycle topologies)", jobs.len(), t.elapsed().as_secs_f64(),
              corpus.len(), generated.len(), snippets.len(), plans.len(), cycles.len());
    0
}
