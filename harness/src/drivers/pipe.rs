//! Pipeline driver (C10, C11, C12): compiles generated module sets with the verification hooks
//! switched on and records one trace per compilation:
//!   input, <hook events in program order>, return        (+ compare events for C10)
use crate::notation::Table;
use crate::{rsproj, run, tsproj, util};
use serde_json::{json, Value};

pub struct Compiled {
    pub outcome: run::Outcome,
    pub hooks: Vec<Value>,
    pub krate: rsproj::RCrate,
    /// the projection of the TypeScript backend's output (None for the rasn backend)
    pub ts: Option<tsproj::TsFile>,
}

/// compile literal sources with the hooks recording
pub fn compile_hooked(sources: &[String]) -> Compiled {
    compile_hooked_with(sources, "rasn")
}

pub fn compile_hooked_with(sources: &[String], backend: &str) -> Compiled {
    rasn_compiler::verif::enable();
    let (o, _) = if backend == "typescript" { run::compile_ts(sources) } else { run::compile_rasn(sources, run::default_config()) };
    let hooks: Vec<Value> = rasn_compiler::verif::take()
        .iter()
        .map(|l| serde_json::from_str(l).unwrap_or_else(|e| json!({"hook": "unparsable", "raw": l, "err": e.to_string()})))
        .collect();
    if backend == "typescript" {
        let ts = if o.status == "ok" { tsproj::project(&o.generated) } else { tsproj::TsFile::default() };
        let krate = rsproj::RCrate { parsed_ok: ts.parse_error.is_empty(), ..Default::default() };
        return Compiled { outcome: o, hooks, krate, ts: Some(ts) };
    }
    let krate = if o.status == "ok" { rsproj::project(&o.generated) } else { rsproj::RCrate::default() };
    Compiled { outcome: o, hooks, krate, ts: None }
}

/// is definition `name` of ASN.1 module `module` represented under its own mangled name in its module / namespace?
pub fn is_present(c: &Compiled, module: &str, rust_module: &str, name: &str, is_value: bool) -> bool {
    match &c.ts {
        Some(ts) => {
            let (ns, decl) = (module.replace('-', "_"), name.replace('-', "_"));
            ts.namespaces.iter().any(|n| n.name == ns && n.decls.iter().any(|d| d.name == decl))
        }
        None => {
            let rust = if is_value { rust_const_name(name) } else { name.to_string() };
            c.krate.module(rust_module).is_some_and(|m| m.items.iter().any(|i| i.name == rust && i.kind != "impl"))
        }
    }
}

/// the declarations of the TypeScript output that belong to definition `name`, as canonical JSON
pub fn ts_items_of(ts: &tsproj::TsFile, name: &str) -> Vec<String> {
    let key = name.replace('-', "_").to_lowercase();
    let mut v: Vec<String> = ts
        .namespaces
        .iter()
        .flat_map(|n| n.decls.iter())
        .filter(|d| d.name.to_lowercase().contains(&key))
        .map(|d| serde_json::to_string(d).unwrap())
        .collect();
    v.sort();
    v
}

pub fn sources_for(table: &Table, order: &[usize], split: bool) -> Vec<String> {
    let texts: Vec<String> = order.iter().map(|m| table.module_text(*m, None)).collect();
    if split { texts } else { vec![texts.join("\n")] }
}

/// items of the generated crate that belong to definition `name` (by name containment, see
/// Table::def_name), as canonical JSON
pub fn items_of(krate: &rsproj::RCrate, name: &str) -> Vec<String> {
    let key = name.to_lowercase();
    let mut v: Vec<String> = krate
        .all_items()
        .filter(|i| i.name.to_lowercase().contains(&key) || i.ty.to_lowercase().contains(&key) && i.kind == "impl")
        .map(|i| serde_json::to_string(i).unwrap())
        .collect();
    v.sort();
    v
}

fn rust_const_name(n: &str) -> String {
    n.to_uppercase()
}

/// the trace of one compilation of `table` (modules handed over in `order`)
pub fn trace_case(ci: usize, table: &Table, order: &[usize], split: bool, label: &str) -> (Vec<Value>, Compiled) {
    trace_case_with(ci, table, order, split, label, "rasn")
}

pub fn trace_case_with(ci: usize, table: &Table, order: &[usize], split: bool, label: &str, backend: &str) -> (Vec<Value>, Compiled) {
    let srcs = sources_for(table, order, split);
    let c = compile_hooked_with(&srcs, backend);
    let status = c.outcome.status.clone();
    // faults as the code reported them
    let mut fault_of = std::collections::BTreeMap::<String, &str>::new();
    for h in &c.hooks {
        match h["hook"].as_str().unwrap_or("") {
            "validate" if h["ok"] == false => {
                fault_of.insert(h["name"].as_str().unwrap_or("").to_string(), "validate");
            }
            "gen" if h["outcome"] == "warning" => {
                fault_of.insert(h["name"].as_str().unwrap_or("").to_string(), "generate");
            }
            _ => (),
        }
    }
    let mut defs = serde_json::Map::new();
    for m in order {
        let list: Vec<Value> = table
            .defs()
            .iter()
            .filter(|d| d.m == *m)
            .map(|d| {
                let n = table.printed_name(d.idx);
                json!({"n": n, "kind": if d.k == "VALUE" { "value" } else { "type" },
                       "fault": fault_of.get(&n).copied().unwrap_or("none"), "injected": d.fault})
            })
            .collect();
        defs.insert(table.module_name(*m), json!(list));
    }
    let mut evs = vec![json!({"ev": "input", "case": ci, "label": label, "backend": backend, "order": order.iter().map(|m| table.module_name(*m)).collect::<Vec<_>>(),
                              "defs": defs, "split": split, "asn": srcs.join("\n")})];
    for h in &c.hooks {
        let mut e = h.clone();
        e["ev"] = h["hook"].clone();
        e["case"] = json!(ci);
        evs.push(e);
    }
    // which definitions have an item under their mangled name in their own module
    let mut present = vec![];
    if status == "ok" {
        for d in table.defs() {
            let n = table.printed_name(d.idx);
            if is_present(&c, &table.module_name(d.m), &table.rust_module_name(d.m), &n, d.k == "VALUE") {
                present.push(json!([table.module_name(d.m), n]));
            }
        }
    }
    evs.push(json!({"ev": "return", "case": ci, "ok": status == "ok", "status": status, "nwarnings": c.outcome.warnings.len(),
                    "present": present, "parsed_ok": c.krate.parsed_ok,
                    "detail": format!("{}{}", c.outcome.error, c.outcome.panic_msg)}));
    (evs, c)
}

/// definitions that (transitively) refer to a definition with an injected fault
fn affected(table: &Table) -> Vec<usize> {
    let defs: Vec<usize> = table.defs().iter().map(|d| d.idx).collect();
    let mut bad: Vec<usize> = defs.iter().copied().filter(|d| table.node(*d).fault != "none").collect();
    // the partner of a DUPNAME fault loses or keeps its place in the name table: also affected
    for d in &defs {
        let n = table.node(*d);
        if n.fault == "DUPNAME" && !bad.contains(&n.ft) {
            bad.push(n.ft);
        }
    }
    // The compiler resolves an enumeral (a bare identifier) by looking through ALL enumerated
    // types in scope, so removing an ENUMERATED definition can change how any enumeral value or
    // DEFAULT is linked: such definitions count as depending on the faulted one.
    if bad.iter().any(|d| table.node(*d).k == "ENUMERATED") {
        for n in &table.nodes {
            let enum_value = (n.k == "VALUE" && n.vk == "ENUMERATED") || (n.k == "ENUMERATED" && n.opt == "def");
            let owner = table.def_of(n.idx);
            if enum_value && !bad.contains(&owner) {
                bad.push(owner);
            }
        }
    }
    loop {
        let mut grew = false;
        for n in &table.nodes {
            let uses_bad = (n.k == "REF" || n.k == "VALUE") && n.r > 0 && bad.contains(&n.r);
            let owner = table.def_of(n.idx);
            if uses_bad && !bad.contains(&owner) {
                bad.push(owner);
                grew = true;
            }
        }
        if !grew {
            break;
        }
    }
    bad
}

fn strip_faults(case: &Value) -> Value {
    let mut c = case.clone();
    for n in c["nodes"].as_array_mut().unwrap() {
        n["fault"] = json!("none");
        n["ft"] = json!(0);
    }
    c
}

/// C10: faulted compilation (traced) + fault-free baseline; compare events for the definitions
/// that do not depend on a faulted one
pub fn events_c10(ci: usize, case: &Value) -> Vec<Value> {
    let table = Table::from_json(case);
    let order: Vec<usize> = (1..=table.mods.tagdef.len()).collect();
    let base_table = Table::from_json(&strip_faults(case));
    let mut evs = vec![];
    // the same pipeline runs in front of either backend: one trace per backend
    for backend in ["rasn", "typescript"] {
        let (tr, faulted) = trace_case_with(ci, &table, &order, ci % 2 == 0, "faulted", backend);
        evs.extend(tr);
        let base = compile_hooked_with(&sources_for(&base_table, &order, ci % 2 == 0), backend);
        if faulted.outcome.status == "ok" && base.outcome.status == "ok" {
            let bad = affected(&table);
            for d in table.defs() {
                if d.fault != "none" {
                    continue;
                }
                let name = table.def_name(d.idx);
                let (a, b) = match (&base.ts, &faulted.ts) {
                    (Some(x), Some(y)) => (ts_items_of(x, &name), ts_items_of(y, &name)),
                    _ => (items_of(&base.krate, &name), items_of(&faulted.krate, &name)),
                };
                evs.push(json!({"ev": "compare", "case": ci, "backend": backend, "def": name, "depends_on_fault": bad.contains(&d.idx),
                                "same": a == b, "items_baseline": a.len(), "items_faulted": b.len(),
                                "asn": table.def_text(d.idx)}));
            }
        }
    }
    evs
}

fn closure_of(table: &Table, m: usize) -> Vec<usize> {
    let mut c = vec![m];
    loop {
        let mut grew = false;
        for n in &table.nodes {
            if c.contains(&n.m) && (n.k == "REF" || n.k == "VALUE") && n.r > 0 {
                let tm = table.node(n.r).m;
                if !c.contains(&tm) {
                    c.push(tm);
                    grew = true;
                }
            }
        }
        if !grew {
            break;
        }
    }
    c.sort();
    c
}

fn module_json(k: &rsproj::RCrate, name: &str) -> String {
    k.module(name).map(|m| serde_json::to_string(m).unwrap()).unwrap_or_else(|| "<absent>".into())
}

/// `super::mod2::{A,B}` -> ("mod2", ["A", "B"])
fn parse_use(u: &str) -> Option<(String, Vec<String>)> {
    let rest = u.strip_prefix("super::")?;
    let (module, syms) = rest.split_once("::")?;
    let syms = syms.trim_start_matches('{').trim_end_matches('}');
    let mut v: Vec<String> = syms.split(',').map(|s| s.trim().to_string()).filter(|s| !s.is_empty()).collect();
    v.sort();
    Some((module.to_string(), v))
}

/// C12: the full set traced, then every module again with only its import closure and with the
/// modules handed over in reverse; per-module blocks compared; use lines and qualified references
pub fn events_c12(ci: usize, case: &Value) -> Vec<Value> {
    let table = Table::from_json(case);
    let nm = table.mods.tagdef.len();
    let order: Vec<usize> = (1..=nm).collect();
    let split = ci % 2 == 0;
    let (mut evs, full) = trace_case(ci, &table, &order, split, "full");
    if full.outcome.status != "ok" || !full.outcome.warnings.is_empty() {
        return evs;
    }
    let rev: Vec<usize> = order.iter().rev().copied().collect();
    let reversed = compile_hooked(&sources_for(&table, &rev, split));
    // is definition d an enumeral value, or does it hold an enumeral DEFAULT? (the compiler links a
    // bare enumeral by searching every enumerated type of every module)
    let enum_sensitive = |d: usize| -> bool {
        table.nodes.iter().any(|n| {
            table.def_of(n.idx) == d && ((n.k == "VALUE" && n.vk == "ENUMERATED") || (n.k == "ENUMERATED" && n.opt == "def"))
        })
    };
    let compare = |evs: &mut Vec<Value>, m: usize, other: &Compiled, ctx: String| {
        let name = table.rust_module_name(m);
        let skeleton = |k: &rsproj::RCrate| k.module(&name).map(|md| (md.uses.clone(), md.attrs.clone(), md.items.len()));
        evs.push(json!({"ev": "modcmp", "case": ci, "module": table.module_name(m), "ctx": ctx, "def": "",
                        "enum_sensitive": false, "same_name": false, "other_ok": other.outcome.status == "ok",
                        "same": skeleton(&full.krate) == skeleton(&other.krate)}));
        for d in table.defs().iter().filter(|d| d.m == m) {
            let dn = table.def_name(d.idx);
            evs.push(json!({"ev": "modcmp", "case": ci, "module": table.module_name(m), "ctx": ctx, "def": dn,
                            "enum_sensitive": enum_sensitive(d.idx), "same_name": false, "other_ok": other.outcome.status == "ok",
                            "same": items_of(&full.krate, &dn) == items_of(&other.krate, &dn)}));
        }
    };
    // an unrelated module in the same run: 40 definitions that nothing refers to (named to sort around the others)
    let mut with_pad = sources_for(&table, &order, split);
    let pad_defs: Vec<String> = (0..40).map(|i| match i % 4 {
        0 => format!("Aapad{i}x ::= INTEGER (0..{})", 10 + i),
        1 => format!("Zzpad{i}x ::= SEQUENCE {{ a INTEGER (0..zzlim{i}) DEFAULT 4, b BOOLEAN OPTIONAL }}\nzzlim{i} INTEGER ::= 9"),
        2 => format!("Mmpad{i}x ::= CHOICE {{ a NULL, b IA5String }}"),
        _ => format!("aaval{i}x INTEGER ::= {i}"),
    }).collect();
    with_pad.push(format!("Padmod DEFINITIONS IMPLICIT TAGS ::= BEGIN\n{}\nEND\n", pad_defs.join("\n")));
    let padded = compile_hooked(&if split { with_pad.clone() } else { vec![with_pad.join("\n")] });
    // a module whose bindings are sensitive to the order in which its definitions are linked (a DEFAULT literal of a referenced
    // type whose constraint holds a value reference; the referenced type sorting before and after its user): once with the
    // module set alone, once with the unrelated module as well
    let sens = "Sensmod DEFINITIONS AUTOMATIC TAGS ::= BEGIN\nsenslim INTEGER ::= 9\nAasensw ::= INTEGER (0..senslim)\nZzsensw ::= INTEGER (0..senslim)\nMmsens ::= SEQUENCE { a Aasensw DEFAULT 4, z Zzsensw DEFAULT 4, o Aasensw OPTIONAL }\nEND\n".to_string();
    let mut s1 = sources_for(&table, &order, true);
    s1.push(sens.clone());
    let mut s2 = s1.clone();
    s2.push(with_pad.last().unwrap().clone());
    let (k1, k2) = (compile_hooked(&s1), compile_hooked(&s2));
    for dn in ["Mmsens", "Aasensw", "Zzsensw"] {
        evs.push(json!({"ev": "modcmp", "case": ci, "module": "Sensmod", "ctx": "compiled together with an unrelated module of 40 definitions", "def": dn,
                        "enum_sensitive": false, "same_name": false, "other_ok": k1.outcome.status == "ok" && k2.outcome.status == "ok",
                        "same": items_of(&k1.krate, dn) == items_of(&k2.krate, dn)}));
    }
    // IMPORTS of a value whose governing type is defined in a module the importer does not name for it: the use line of the
    // value's module may carry that type as well (the constant's type has to be in scope), the other clauses exactly their symbols;
    // the clause of the value's module comes first, in the middle or last
    if ci % 4 == 1 {
        let pos = (ci / 4) % 3;
        let mut clauses = vec!["Label FROM Mod-C".to_string(), "Flag FROM Mod-D".to_string()];
        clauses.insert(pos, "default-level FROM Mod-A".to_string());
        let srcs = vec![
            "Mod-A DEFINITIONS AUTOMATIC TAGS ::= BEGIN\nLevel ::= INTEGER (0..7)\ndefault-level Level ::= 5\nEND\n".to_string(),
            format!("Mod-B DEFINITIONS AUTOMATIC TAGS ::= BEGIN\nIMPORTS {};\nItem ::= SEQUENCE {{ label Label, flag Flag OPTIONAL, level INTEGER (0..7) DEFAULT default-level }}\nEND\n", clauses.join(" ")),
            "Mod-C DEFINITIONS AUTOMATIC TAGS ::= BEGIN\nLabel ::= INTEGER (0..9)\nEND\n".to_string(),
            "Mod-D DEFINITIONS AUTOMATIC TAGS ::= BEGIN\nFlag ::= BOOLEAN\nEND\n".to_string(),
        ];
        let c = compile_hooked(&srcs);
        let mut observed: Vec<(String, Vec<String>)> = c.krate.module("mod_b").map(|md| md.uses.iter().filter_map(|u| parse_use(u)).collect()).unwrap_or_default();
        for o in observed.iter_mut() {
            o.1.sort();
            // the governing type of the imported value, from the module that defines it
            if o.0 == "mod_a" {
                o.1.retain(|x| x != "Level");
            }
        }
        observed.sort();
        let expected = vec![("mod_a", vec!["DEFAULT_LEVEL"]), ("mod_c", vec!["Label"]), ("mod_d", vec!["Flag"])];
        evs.push(json!({"ev": "uses", "case": ci, "module": "Mod-B",
                        "expected": expected.iter().map(|(a, b)| json!({"m": a, "syms": b})).collect::<Vec<_>>(),
                        "observed": observed.iter().map(|(a, b)| json!({"m": a, "syms": b})).collect::<Vec<_>>(),
                        "asn": srcs.join("")}));
    }
    // dummy references are local to their template (spec/Scope.tla): a module that instantiates parameterized types, compiled alone
    // and next to an unrelated module that declares a type / a value spelled like the template's dummies; neighbour named to sort
    // before or after, handed over first or last
    if ci % 4 == 2 {
        let v = ci / 4;
        let (sel, first_name, first_order) = (v % 3, (v / 3) % 2 == 0, (v / 6) % 2 == 0);
        let user = "Mod-P DEFINITIONS AUTOMATIC TAGS ::= BEGIN\nAawrap { Payload } ::= SEQUENCE { body Payload, n INTEGER }\nAabound { INTEGER: limit } ::= INTEGER (0..limit)\nFrame ::= Aawrap { BOOLEAN }\nLevel ::= Aabound { 7 }\nEND\n".to_string();
        let mut nb = vec![];
        if sel != 1 {
            nb.push("Payload ::= OCTET STRING");
        }
        if sel != 0 {
            nb.push("limit INTEGER ::= 100");
        }
        nb.push("Other ::= NULL");
        let neigh = format!("{} DEFINITIONS IMPLICIT TAGS ::= BEGIN\n{}\nEND\n", if first_name { "Aa-Neigh" } else { "Zz-Neigh" }, nb.join("\n"));
        let alone = compile_hooked(&[user.clone()]);
        let both = compile_hooked(&if first_order { vec![neigh.clone(), user.clone()] } else { vec![user.clone(), neigh.clone()] });
        for dn in ["Frame", "Level"] {
            evs.push(json!({"ev": "modcmp", "case": ci, "module": "Mod-P", "ctx": "compiled together with an unrelated module that declares names spelled like the dummy references of a parameterized type", "def": dn,
                            "enum_sensitive": false, "same_name": false, "other_ok": alone.outcome.status == "ok" && both.outcome.status == "ok",
                            "same": items_of(&alone.krate, dn) == items_of(&both.krate, dn) && !items_of(&alone.krate, dn).is_empty(),
                            "asn": format!("{user}{neigh}")}));
        }
    }
    // two revisions of one module: the same module reference, different headers, disjoint names (spec/Headers.tla).  The second
    // revision compiled alone and together with the first, in both orders: its bindings must be the same
    if ci % 4 == 0 {
        let tagdefs = ["IMPLICIT TAGS", "EXPLICIT TAGS", "AUTOMATIC TAGS", ""];
        let (t1, t2) = (tagdefs[(ci / 4) % 4], tagdefs[(ci / 16) % 4]);
        let implied2 = (ci / 4) % 2 == 0;
        let r1 = format!("Proto {{ iso(1) identified-organization(3) example(9999) proto(1) revision-1(1) }}\nDEFINITIONS {t1} {} ::= BEGIN\nAlpha ::= SEQUENCE {{ first INTEGER, second BOOLEAN }}\nEND\n",
                         if implied2 { "" } else { "EXTENSIBILITY IMPLIED" });
        let r2 = format!("Proto {{ iso(1) identified-organization(3) example(9999) proto(1) revision-2(2) }}\nDEFINITIONS {t2} {} ::= BEGIN\nBeta ::= SEQUENCE {{ third [0] INTEGER, fourth [1] BOOLEAN }}\nGamma ::= SEQUENCE {{ g INTEGER, h NULL }}\nEND\n",
                         if implied2 { "EXTENSIBILITY IMPLIED" } else { "" });
        let alone = compile_hooked(&[r2.clone()]);
        for (label, srcs) in [("before", vec![r1.clone(), r2.clone()]), ("after", vec![r2.clone(), r1.clone()])] {
            let both = compile_hooked(&srcs);
            for dn in ["Beta", "Gamma"] {
                evs.push(json!({"ev": "modcmp", "case": ci, "module": "Proto", "ctx": format!("compiled together with another module of the same module reference, handed over {label} it"), "def": dn,
                                "enum_sensitive": false, "same_name": true, "other_ok": alone.outcome.status == "ok" && both.outcome.status == "ok",
                                "same": items_of(&alone.krate, dn) == items_of(&both.krate, dn),
                                "asn": format!("{r1}{r2}")}));
            }
        }
    }
    for m in &order {
        let name = table.rust_module_name(*m);
        compare(&mut evs, *m, &reversed, "modules handed over in reverse order".into());
        compare(&mut evs, *m, &padded, "compiled together with an unrelated module of 40 definitions".into());
        let cl = closure_of(&table, *m);
        if cl.len() < nm {
            let sub = compile_hooked(&sources_for(&table, &cl, split));
            compare(&mut evs, *m, &sub, format!("compiled with only the modules it imports from ({} of {nm} modules)", cl.len()));
        }
        // IMPORTS -> use lines
        let mut expected: Vec<(String, Vec<String>)> = vec![];
        for (dm, sym) in table.imports(*m) {
            let rm = table.rust_module_name(dm);
            match expected.iter_mut().find(|(x, _)| *x == rm) {
                Some((_, l)) => l.push(sym),
                None => expected.push((rm, vec![sym])),
            }
        }
        for e in expected.iter_mut() {
            e.1.sort();
        }
        expected.sort();
        let mut observed: Vec<(String, Vec<String>)> = full
            .krate
            .module(&name)
            .map(|md| md.uses.iter().filter_map(|u| parse_use(u)).collect())
            .unwrap_or_default();
        observed.sort();
        evs.push(json!({"ev": "uses", "case": ci, "module": table.module_name(*m),
                        "expected": expected.iter().map(|(a, b)| json!({"m": a, "syms": b})).collect::<Vec<_>>(),
                        "observed": observed.iter().map(|(a, b)| json!({"m": a, "syms": b})).collect::<Vec<_>>()}));
    }
    // module-qualified references resolve to super::<module>::<Type>
    let text = &full.outcome.generated;
    let flat: String = text.chars().filter(|c| !c.is_whitespace()).collect();
    for n in table.nodes.iter().filter(|n| n.k == "REF" && n.qual) {
        let t = table.node(n.r);
        let path = format!("super::{}::{}", table.rust_module_name(t.m), table.def_name(t.idx));
        evs.push(json!({"ev": "qualref", "case": ci, "module": table.module_name(n.m), "path": path, "found": flat.contains(&path)}));
    }
    evs
}

/// C10, exhaustive small inputs: an abstract input of Pipeline.tla (modules, definitions with kind
/// and fault) is made concrete and compiled with the hooks recording
pub fn events_abs(ci: usize, case: &Value) -> Vec<Value> {
    let order: Vec<String> = case["order"].as_array().unwrap().iter().map(|m| m.as_str().unwrap().to_string()).collect();
    let mut srcs = vec![];
    let mut printed: Vec<Vec<(String, String, String)>> = vec![]; // per module: (printed name, kind, injected fault)
    for (i, m) in order.iter().enumerate() {
        let h = &case["headers"][i];
        let tags = match h[0].as_str().unwrap() {
            "Explicit" => "EXPLICIT TAGS ",
            "Automatic" => "AUTOMATIC TAGS ",
            _ => "IMPLICIT TAGS ",
        };
        let ext = if h[1] == "Implied" { "EXTENSIBILITY IMPLIED " } else { "" };
        let mut body = vec![];
        let mut names = vec![];
        for d in case["defs"][i].as_array().unwrap() {
            let n = d["n"].as_str().unwrap();
            let (kind, fault) = (d["kind"].as_str().unwrap(), d["fault"].as_str().unwrap());
            let (name, text) = match (kind, fault) {
                ("type", "none") => (format!("Na{n}"), format!("Na{n} ::= SEQUENCE {{ f BOOLEAN }}")),
                ("type", "validate") => (format!("Na{n}"), format!("Na{n} ::= INTEGER (5..1)")),
                ("type", _) => (format!("Na{n}"), format!("Na{n} ::= REAL")),
                ("value", "none") => (format!("va{n}"), format!("va{n} INTEGER ::= 5")),
                // a value whose governing type the validator rejects / the generator cannot render
                ("value", "validate") => (format!("va{n}"), format!("va{n} INTEGER (5..1) ::= 5")),
                ("value", _) => (format!("va{n}"), format!("va{n} OBJECT IDENTIFIER ::= {{ iso standard 8571 }}")),
                (_, _) => (format!("CL{}", n.to_uppercase()), format!("CL{} ::= CLASS {{ &id INTEGER UNIQUE }}", n.to_uppercase())),
            };
            body.push(text);
            names.push((name, if kind == "silent" { "silent".to_string() } else { kind.to_string() }, fault.to_string()));
        }
        srcs.push(format!("{m} DEFINITIONS {tags}{ext}::= BEGIN\n{}\nEND\n", body.join("\n")));
        printed.push(names);
    }
    let split = ci % 2 == 0;
    let sources = if split { srcs.clone() } else { vec![srcs.join("\n")] };
    let mut all = vec![];
    for backend in ["rasn", "typescript"] {
        all.extend(abs_trace(ci, backend, &order, &printed, &sources, split));
    }
    all
}

fn abs_trace(ci: usize, backend: &str, order: &[String], printed: &[Vec<(String, String, String)>], sources: &[String], split: bool) -> Vec<Value> {
    let c = compile_hooked_with(sources, backend);
    let status = c.outcome.status.clone();
    let mut fault_of = std::collections::BTreeMap::<String, &str>::new();
    for h in &c.hooks {
        match h["hook"].as_str().unwrap_or("") {
            "validate" if h["ok"] == false => {
                fault_of.insert(h["name"].as_str().unwrap_or("").to_string(), "validate");
            }
            "gen" if h["outcome"] == "warning" => {
                fault_of.insert(h["name"].as_str().unwrap_or("").to_string(), "generate");
            }
            _ => (),
        }
    }
    let mut defs = serde_json::Map::new();
    for (i, m) in order.iter().enumerate() {
        let list: Vec<Value> = printed[i]
            .iter()
            .map(|(n, kind, inj)| json!({"n": n, "kind": kind, "fault": fault_of.get(n).copied().unwrap_or("none"), "injected": inj}))
            .collect();
        defs.insert(m.clone(), json!(list));
    }
    let mut evs = vec![json!({"ev": "input", "case": ci, "label": "abstract", "backend": backend, "order": order, "defs": defs, "split": split,
                              "asn": sources.join("\n")})];
    for h in &c.hooks {
        let mut e = h.clone();
        e["ev"] = h["hook"].clone();
        e["case"] = json!(ci);
        evs.push(e);
    }
    let mut present = vec![];
    if status == "ok" {
        for (i, m) in order.iter().enumerate() {
            for (n, kind, _) in &printed[i] {
                if is_present(&c, m, &m.to_lowercase(), n, kind == "value") {
                    present.push(json!([m, n]));
                }
            }
        }
    }
    evs.push(json!({"ev": "return", "case": ci, "ok": status == "ok", "status": status, "nwarnings": c.outcome.warnings.len(),
                    "present": present, "parsed_ok": c.krate.parsed_ok,
                    "detail": format!("{}{}", c.outcome.error, c.outcome.panic_msg)}));
    evs
}

/// vharness pipe --mode c10 --cases <ndjson> --trace <ndjson>
pub fn drive(args: &[String]) -> i32 {
    let cases = util::read_ndjson(util::arg(args, "--cases").expect("--cases"));
    let mode = util::arg(args, "--mode").unwrap_or("c10").to_string();
    let indexed: Vec<(usize, Value)> = cases.into_iter().enumerate().collect();
    let events = util::par_chunks(&indexed, 4, util::threads(), |_, chunk| {
        run::install_panic_hook();
        chunk
            .iter()
            .flat_map(|(i, c)| match mode.as_str() {
                "c10" => events_c10(*i, c),
                "abs" => events_abs(*i, c),
                "c12" => events_c12(*i, c),
                other => panic!("mode {other}"),
            })
            .collect()
    });
    util::write_ndjson(util::arg(args, "--trace").expect("--trace"), &events);
    eprintln!("pipe/{mode}: {} cases, {} events", indexed.len(), events.len());
    0
}
