//! C15 driver: one FROM expression per case on the string type the case names.
use crate::{rsproj, run, util};
use serde_json::{json, Value};

type Iv = (u32, u32); // inclusive code point interval

/// the N = 9 atoms (B c c B c c B c B) of a string type, each a list of code point intervals,
/// in the order X.680 clause 41 / X.691 30.5 give the characters (code point order)
pub fn atoms(ty: &str) -> Vec<Vec<Iv>> {
    let c = |ch: char| vec![(ch as u32, ch as u32)];
    match ty {
        "NumericString" => vec![c(' '), c('0'), c('1'), vec![('2' as u32, '3' as u32)], c('4'), c('5'), vec![('6' as u32, '7' as u32)], c('8'), c('9')],
        "PrintableString" => vec![
            vec![(32, 32), (39, 41), (43, 47)],
            c('0'),
            c('1'),
            vec![('2' as u32, ':' as u32), ('=' as u32, '=' as u32), ('?' as u32, '?' as u32)],
            c('A'),
            c('B'),
            vec![('C' as u32, 'Z' as u32), ('a' as u32, 'y' as u32)],
            c('z'),
            vec![],
        ],
        // "gap" tables: single-character atoms that are neighbours in the type's character table although code points that do
        // not belong to the type lie between them (atom 4 is empty): ( ) | + ,   and   SP 0 | 1 2
        "PrintableString/gap" => vec![vec![(32, 32), (39, 39)], c('('), c(')'), vec![], c('+'), c(','), vec![(45, 58), (61, 61), (63, 63), (65, 90), (97, 121)], c('z'), vec![]],
        "NumericString/gap" => vec![vec![], c(' '), c('0'), vec![], c('1'), c('2'), vec![('3' as u32, '7' as u32)], c('8'), c('9')],
        "VisibleString" => vec![vec![(32, 47)], c('0'), c('1'), vec![('2' as u32, '@' as u32)], c('A'), c('B'), vec![('C' as u32, 'y' as u32)], c('z'), vec![('{' as u32, '~' as u32)]],
        "IA5String" => vec![vec![(0, 47)], c('0'), c('1'), vec![('2' as u32, '@' as u32)], c('A'), c('B'), vec![('C' as u32, 'y' as u32)], c('z'), vec![('{' as u32, 127)]],
        // a multi-byte character as the last single-character atom
        // a multi-byte character as the last single-character atom
        "BMPString" => vec![vec![(0, 47)], c('0'), c('1'), vec![('2' as u32, '@' as u32)], c('A'), c('B'), vec![('C' as u32, 0xE8)], c('é'), vec![(0xEA, 0xD7FF), (0xE000, 0xFFFF)]],
        // variant whose last single-character atom lies beyond the surrogate gap (U+FF10, fullwidth
        // zero); only used for single-operand cases that do not span the block below it: the
        // compiler's alphabet bookkeeping is quadratic in the number of characters of a range
        "BMPString/hi" => vec![vec![(0, 47)], c('0'), c('1'), vec![('2' as u32, '@' as u32)], c('A'), c('B'), vec![('C' as u32, 0xD7FF), (0xE000, 0xFF0F)], c('\u{FF10}'), vec![(0xFF11, 0xFFFF)]],
        "UniversalString" => vec![vec![(0, 47)], c('0'), c('1'), vec![('2' as u32, '@' as u32)], c('A'), c('B'), vec![('C' as u32, 0xE8)], c('é'), vec![(0xEA, 0xD7FF), (0xE000, 0x10FFFF)]],
        // not known-multiplier: same characters as IA5String, no annotation expected at all
        _ => atoms("IA5String"),
    }
}

fn single(ty: &str, atom: u64) -> char {
    char::from_u32(atoms(ty)[atom as usize - 1][0].0).unwrap()
}

/// `k` numbers the case: value references are named after it (alv<k>lo / alv<k>hi)
fn operand(ty: &str, o: &Value, k: usize) -> String {
    let q = |f: &str| format!("\"{}\"", single(ty, o[f].as_u64().unwrap()));
    match o["k"].as_str().unwrap() {
        "str" => format!("\"{}\"", o["chars"].as_array().unwrap().iter().map(|a| single(ty, a.as_u64().unwrap())).collect::<String>()),
        "range" => format!("{}..{}", q("lo"), q("hi")),
        "range_min" => format!("MIN..{}", q("hi")),
        "range_max" => format!("{}..MAX", q("lo")),
        "range_vlo" => format!("alv{k}lo..{}", q("hi")),
        "range_vhi" => format!("{}..alv{k}hi", q("lo")),
        "range_vlo_max" => format!("alv{k}lo..MAX"),
        "range_min_vhi" => format!("MIN..alv{k}hi"),
        _ => format!("Incl{}", ty.replace("/hi", "hi").replace("/gap", "")),
    }
}

/// the value assignments an operand refers to
fn operand_values(ty: &str, base_ty: &str, o: &Value, k: usize) -> String {
    let mut s = String::new();
    let kind = o["k"].as_str().unwrap();
    if kind == "range_vlo" || kind == "range_vlo_max" {
        s.push_str(&format!("alv{k}lo {base_ty} ::= \"{}\"\n", single(ty, o["lo"].as_u64().unwrap())));
    }
    if kind == "range_vhi" || kind == "range_min_vhi" {
        s.push_str(&format!("alv{k}hi {base_ty} ::= \"{}\"\n", single(ty, o["hi"].as_u64().unwrap())));
    }
    s
}

/// name of the atom table of a case
fn table(c: &Value) -> String {
    let ty = c["ty"].as_str().unwrap();
    let os = c["os"].as_array().unwrap();
    let huge_span = |o: &Value| o["k"].as_str().unwrap_or("").starts_with("range") && o["hi"].as_u64().unwrap_or(0) >= 8 && o["lo"] != 8;
    // strings of several characters (the long-strings slice) are drawn from the gap tables
    let long_str = |o: &Value| o["k"] == "str" && o["chars"].as_array().map(|a| a.len() >= 2).unwrap_or(false);
    if (ty == "PrintableString" || ty == "NumericString") && os.iter().any(long_str) {
        return format!("{ty}/gap");
    }
    if ty == "BMPString" && os.len() == 1 && !huge_span(&os[0]) {
        "BMPString/hi".into()
    } else {
        ty.into()
    }
}

fn render(k: usize, c: &Value) -> String {
    let ty = c["ty"].as_str().unwrap();
    let tb = table(c);
    let os = c["os"].as_array().unwrap();
    let ps = c["ps"].as_array().unwrap();
    let mut e = operand(&tb, &os[0], k);
    let values: String = os.iter().map(|o| operand_values(&tb, ty, o, k)).collect();
    for (i, p) in ps.iter().enumerate() {
        let op = match p.as_str().unwrap() {
            "u" => "|",
            "i" => "^",
            _ => "EXCEPT",
        };
        e = format!("{e} {op} {}", operand(&tb, &os[i + 1], k));
    }
    let from = format!("FROM ({e})");
    let cs = match c["sizepos"].as_str().unwrap() {
        "none" => format!("({from})"),
        "before" => format!("(SIZE (1..4) ^ {from})"),
        "after" => format!("({from} ^ SIZE (1..4))"),
        "before_ext" => format!("(SIZE (1..4, ...) ^ {from})"),
        "after_ext" => format!("({from} ^ SIZE (1..4, ...))"),
        _ => format!("({from}) (SIZE (1..4))"),
    };
    if c["pos"] == "component" {
        format!("{values}Al{k} ::= SEQUENCE {{ f {ty} {cs} }}")
    } else {
        format!("{values}Al{k} ::= {ty} {cs}")
    }
}

/// parse one `from(...)` literal: "X" or "A..=B" (either end may be empty)
fn subset_interval(lit: &str, ty: &str) -> Option<Iv> {
    let all = atoms(ty);
    let base_lo = all.iter().flatten().map(|i| i.0).min().unwrap_or(0);
    let base_hi = all.iter().flatten().map(|i| i.1).max().unwrap_or(0);
    let chars: Vec<char> = lit.chars().collect();
    if let Some(p) = lit.find("..=") {
        let a: Vec<char> = lit[..p].chars().collect();
        let b: Vec<char> = lit[p + 3..].chars().collect();
        if a.len() > 1 || b.len() > 1 {
            return None;
        }
        Some((a.first().map(|c| *c as u32).unwrap_or(base_lo), b.first().map(|c| *c as u32).unwrap_or(base_hi)))
    } else if chars.len() == 1 {
        Some((chars[0] as u32, chars[0] as u32))
    } else {
        None
    }
}

fn overlap(a: Iv, b: Iv) -> u64 {
    let lo = a.0.max(b.0);
    let hi = a.1.min(b.1);
    if lo > hi { 0 } else { (hi - lo + 1) as u64 }
}

fn observe(k: usize, c: &Value, text: &str, o: &run::Outcome, krate: &rsproj::RCrate, solo: bool) -> Value {
    let tb = table(c);
    let ty = tb.as_str();
    let mut ev = c.clone();
    ev["ev"] = json!("alpha");
    ev["k"] = json!(k);
    ev["asn"] = json!(text);
    ev["status"] = json!(o.status);
    ev["detail"] = json!("");
    // atoms that hold no character in this type (PrintableString has nothing above 'z'): they are neither allowed nor covered
    ev["empty"] = json!(atoms(ty).iter().enumerate().filter(|(_, a)| a.is_empty()).map(|(i, _)| i + 1).collect::<Vec<_>>());
    ev["has_from"] = json!(false);
    ev["has_size"] = json!(false);
    ev["obs"] = json!([]);
    ev["partial"] = json!(false);
    ev["outside"] = json!(false);
    ev["raw"] = json!("");
    if o.status != "ok" {
        ev["detail"] = json!(format!("{}{}", o.error, o.panic_msg));
        return ev;
    }
    let name = format!("Al{k}");
    if solo && !o.warnings.is_empty() {
        ev["status"] = json!("warn");
        ev["detail"] = json!(o.warnings.join(" | "));
        return ev;
    }
    if let Some(w) = o.warnings.iter().find(|w| w.contains(&name)) {
        ev["status"] = json!("warn");
        ev["detail"] = json!(w);
        return ev;
    }
    let Some(item) = krate.item(&name) else {
        ev["status"] = json!(if o.warnings.is_empty() { "missing" } else { "warn" });
        ev["detail"] = json!(o.warnings.first().cloned().unwrap_or_default());
        return ev;
    };
    let attrs = if c["pos"] == "component" {
        match item.fields.iter().find(|f| f.name == "f") {
            Some(f) => {
                // a hoisted delegate type may carry the annotations instead of the field
                let mut a = f.attrs.clone();
                if !a.has("from") && !a.has("size") {
                    if let Some(it) = krate.item(&f.ty) {
                        a = it.attrs.clone();
                    }
                }
                a
            }
            None => {
                ev["status"] = json!("missing");
                return ev;
            }
        }
    } else {
        item.attrs.clone()
    };
    ev["has_size"] = json!(attrs.has("size"));
    if let Some(rsproj::Meta::List { a: args, .. }) = attrs.find("from") {
        ev["has_from"] = json!(true);
        let lits: Vec<String> = args.iter().filter_map(|m| if let rsproj::Meta::Lit { v } = m { Some(v.clone()) } else { None }).collect();
        ev["raw"] = json!(lits.join(","));
        let mut ivs = vec![];
        let mut bad = false;
        for l in &lits {
            match subset_interval(l, ty) {
                Some(iv) => ivs.push(iv),
                None => bad = true,
            }
        }
        // merge
        ivs.sort();
        let mut merged: Vec<Iv> = vec![];
        for iv in ivs {
            if iv.0 > iv.1 {
                continue;
            }
            match merged.last_mut() {
                Some(l) if iv.0 <= l.1.saturating_add(1) => l.1 = l.1.max(iv.1),
                _ => merged.push(iv),
            }
        }
        let all = atoms(ty);
        let mut obs = vec![];
        let mut partial = bad;
        let mut covered_total = 0u64;
        for (i, atom) in all.iter().enumerate() {
            let size: u64 = atom.iter().map(|iv| (iv.1 - iv.0 + 1) as u64).sum();
            let cov: u64 = atom.iter().map(|a| merged.iter().map(|m| overlap(*a, *m)).sum::<u64>()).sum();
            covered_total += cov;
            if size > 0 && cov == size {
                obs.push(i + 1);
            } else if cov > 0 {
                partial = true;
            }
        }
        let obs_total: u64 = merged.iter().map(|m| (m.1 - m.0 + 1) as u64).sum();
        ev["obs"] = json!(obs);
        ev["partial"] = json!(partial);
        ev["outside"] = json!(obs_total != covered_total);
    }
    ev
}

fn module(body: &str) -> String {
    let mut incl = String::new();
    for ty in ["NumericString", "PrintableString", "VisibleString", "IA5String", "BMPString", "UniversalString", "UTF8String", "TeletexString", "GeneralString", "GraphicString"] {
        incl += &format!("Incl{ty} ::= {ty} (FROM (\"{}{}\"))\n", single(ty, 3), single(ty, 5));
    }
    incl += &format!("InclBMPStringhi ::= BMPString (FROM (\"{}{}\"))\n", single("BMPString/hi", 3), single("BMPString/hi", 5));
    format!("Alpha DEFINITIONS AUTOMATIC TAGS ::= BEGIN\n{incl}{body}\nEND\n")
}

fn run_batch(base: usize, cases: &[Value]) -> Vec<Value> {
    let texts: Vec<String> = cases.iter().enumerate().map(|(i, c)| render(base + i, c)).collect();
    let (o, _) = run::compile_rasn1(&module(&texts.join("\n")));
    if o.status == "ok" {
        // a definition the generator gives up on is dropped with a warning that often does not
        // name it; so: item present -> judged; item absent and the batch has warnings -> "warn"
        let krate = rsproj::project(&o.generated);
        return cases.iter().enumerate().map(|(i, c)| observe(base + i, c, &texts[i], &o, &krate, false)).collect();
    }
    if cases.len() > 2 {
        let mid = cases.len() / 2;
        let mut a = run_batch(base, &cases[..mid]);
        a.extend(run_batch(base + mid, &cases[mid..]));
        return a;
    }
    cases
        .iter()
        .enumerate()
        .map(|(i, c)| {
            let (o, _) = run::compile_rasn1(&module(&texts[i]));
            let krate = rsproj::project(&o.generated);
            observe(base + i, c, &texts[i], &o, &krate, true)
        })
        .collect()
}

/// vharness c15 --cases <ndjson> --trace <ndjson>
pub fn drive(args: &[String]) -> i32 {
    let cases = util::read_ndjson(util::arg(args, "--cases").expect("--cases"));
    let batch: usize = util::arg(args, "--batch").and_then(|s| s.parse().ok()).unwrap_or(128);
    let events = util::par_chunks(&cases, batch, util::threads(), |base, chunk| {
        run::install_panic_hook();
        let t = std::time::Instant::now();
        let r = run_batch(base, chunk);
        if t.elapsed().as_secs() >= 5 && std::env::var("VERIF_DEBUG").is_ok() {
            eprintln!("slow batch at {base}: {:?}", t.elapsed());
        }
        r
    });
    util::write_ndjson(util::arg(args, "--trace").expect("--trace"), &events);
    eprintln!("c15: {} cases, {} events", cases.len(), events.len());
    0
}
