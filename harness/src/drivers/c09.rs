//! C09 driver: notations defined by expansion.  Every case is compiled twice -- as written
//! (sugared) and hand-expanded -- and the bindings of the definitions under study are compared.
use crate::drivers::pipe::items_of;
use crate::{rsproj, run, util};
use serde_json::{json, Value};

fn compile_one(text: &str) -> (run::Outcome, rsproj::RCrate) {
    let (o, _) = run::compile_rasn1(text);
    let k = if o.status == "ok" { rsproj::project(&o.generated) } else { rsproj::RCrate::default() };
    (o, k)
}

fn status_of(o: &run::Outcome) -> String {
    if o.status == "ok" && !o.warnings.is_empty() { "warn".into() } else { o.status.clone() }
}

fn module(body: &str) -> String {
    format!("Sugar DEFINITIONS AUTOMATIC TAGS ::= BEGIN\n{body}\nEND\n")
}

fn field_names(k: &rsproj::RCrate, item: &str) -> Option<Vec<String>> {
    k.item(item).map(|it| it.fields.iter().map(|f| f.attrs.nv("identifier").unwrap_or(f.name.clone())).collect())
}

// ------------------------------------------------------------------ COMPONENTS OF (Linker.tla)

fn def_name(rank: u64) -> String {
    format!("N{}x", (b'a' + (rank as u8) - 1) as char)
}
fn comp_name(pair: &Value) -> String {
    format!("c{}x{}", pair[0], pair[1])
}

pub fn events_compof(ci: usize, c: &Value) -> Vec<Value> {
    let n = c["n"].as_u64().unwrap() as usize;
    let get = |key: &str, d: usize| c[key][d - 1].as_u64().unwrap();
    // own components carry a constraint with a value reference: a copied component must come out
    // with the reference resolved, like in the hand-expanded form (which uses the literal)
    let comps = |d: usize, from: u64, to: u64| -> Vec<String> { (from..=to).map(|i| format!("c{d}x{i} INTEGER (0..lim)")).collect() };
    let mut sugared = vec![];
    let mut expanded = vec![];
    for d in 1..=n {
        let name = def_name(get("rank", d));
        let (own, r, p) = (get("own", d), get("ref", d) as usize, get("pos", d));
        let mut parts = comps(d, 1, p);
        if r != 0 {
            parts.push(format!("COMPONENTS OF {}", def_name(get("rank", r))));
        }
        parts.extend(comps(d, p + 1, own));
        sugared.push(format!("{name} ::= SEQUENCE {{ {} }}", parts.join(", ")));
        let full: Vec<String> = c["expected"][d - 1].as_array().unwrap().iter().map(|x| format!("{} INTEGER (0..9)", comp_name(x))).collect();
        expanded.push(format!("{name} ::= SEQUENCE {{ {} }}", full.join(", ")));
    }
    sugared.push("lim INTEGER ::= 9".into());
    expanded.push("lim INTEGER ::= 9".into());
    let (stext, etext) = (module(&sugared.join("\n")), module(&expanded.join("\n")));
    let (so, sk) = compile_one(&stext);
    let (eo, ek) = compile_one(&etext);
    (1..=n)
        .map(|d| {
            let name = def_name(get("rank", d));
            let names = |v: &Value| -> Vec<String> { v.as_array().unwrap().iter().map(comp_name).collect() };
            json!({"ev": "compof", "case": ci, "def": name, "asn": stext, "expanded_asn": etext,
                   "sugared_status": status_of(&so), "expanded_status": status_of(&eo),
                   "expected": names(&c["expected"][d - 1]), "predicted": names(&c["predicted"][d - 1]),
                   "orderclass": c["orderclass"][d - 1], "positionclass": c["positionclass"][d - 1],
                   "uses_compof": get("ref", d) != 0,
                   "same_items": items_of(&sk, &name) == items_of(&ek, &name),
                   "sugared": field_names(&sk, &name), "expanded": field_names(&ek, &name)})
        })
        .collect()
}


// ------------------------------------------------------------------ COMPONENTS OF, second model (CompOf.tla)

fn leaf_text(c: &Value, literal: bool) -> String {
    let (d, i) = (c["d"].as_u64().unwrap(), c["i"].as_u64().unwrap());
    let lim = if literal { "9" } else { "lim" };
    if i == 0 {
        format!("c{d}x0 BOOLEAN")
    } else if i % 2 == 1 {
        format!("c{d}x{i} INTEGER (0..{lim})")
    } else {
        format!("c{d}x{i} BOOLEAN OPTIONAL")
    }
}

/// a component list of the model's Expand as notation
fn list_text(list: &Value) -> Vec<String> {
    list.as_array()
        .unwrap()
        .iter()
        .map(|c| if c["k"] == "leaf" { leaf_text(c, true) } else { format!("n{} SEQUENCE {{ {} }}", c["d"], list_text(&c["sub"]).join(", ")) })
        .collect()
}

/// the identifiers of a component list, inner lists in brackets: what the trace specification compares
fn list_names(list: &Value) -> Vec<String> {
    list.as_array().unwrap().iter().map(|c| if c["k"] == "leaf" { format!("c{}x{}", c["d"], c["i"]) } else { format!("n{}", c["d"]) }).collect()
}

pub fn events_compof2(ci: usize, c: &Value) -> Vec<Value> {
    let n = 3usize;
    let rank = |d: usize| c["rank"][d - 1].as_u64().unwrap();
    let mut sugared = vec![];
    let mut expanded = vec![];
    for d in 1..=n {
        let name = def_name(rank(d));
        let mut parts: Vec<String> = (1..=c["nown"][d - 1].as_u64().unwrap()).map(|i| leaf_text(&json!({"d": d, "i": i}), false)).collect();
        let t = c["inner"][d - 1].as_u64().unwrap() as usize;
        if t != 0 {
            parts.push(format!("n{d} SEQUENCE {{ c{d}x0 BOOLEAN, COMPONENTS OF {} }}", def_name(rank(t))));
        }
        for t in c["cofs"][d - 1].as_array().unwrap() {
            parts.push(format!("COMPONENTS OF {}", def_name(rank(t.as_u64().unwrap() as usize))));
        }
        let mut full = list_text(&c["expected"][d - 1]);
        if c["ext"][d - 1] == true {
            parts.push("...".into());
            full.push("...".into());
        }
        sugared.push(format!("{name} ::= SEQUENCE {{ {} }}", parts.join(", ")));
        expanded.push(format!("{name} ::= SEQUENCE {{ {} }}", full.join(", ")));
    }
    sugared.push("lim INTEGER ::= 9".into());
    expanded.push("lim INTEGER ::= 9".into());
    let (stext, etext) = (module(&sugared.join("\n")), module(&expanded.join("\n")));
    let (so, sk) = compile_one(&stext);
    let (eo, ek) = compile_one(&etext);
    (1..=n)
        .map(|d| {
            let name = def_name(rank(d));
            let uses = c["inner"][d - 1] != 0 || !c["cofs"][d - 1].as_array().unwrap().is_empty();
            // extension marks of the sugared item: which fields carry extension_addition, and whether the item is non_exhaustive
            let marks: Vec<String> = sk.item(&name).map(|it| it.fields.iter().filter(|f| f.attrs.has("extension_addition")).map(|f| f.attrs.nv("identifier").unwrap_or(f.name.clone())).collect()).unwrap_or_default();
            let ext_item = sk.item(&name).map(|it| it.attrs.non_exhaustive).unwrap_or(false);
            json!({"ev": "compof2", "case": ci, "def": name, "d": d, "asn": stext, "expanded_asn": etext,
                   "sugared_status": status_of(&so), "expanded_status": status_of(&eo),
                   "expected": list_names(&c["expected"][d - 1]), "ext": c["ext"][d - 1],
                   "uses_compof": uses, "clauses": c["cofs"][d - 1].as_array().unwrap().len(),
                   "same_items": items_of(&sk, &name) == items_of(&ek, &name),
                   "additions": marks, "extensible_item": ext_item,
                   "sugared": field_names(&sk, &name), "expanded": field_names(&ek, &name)})
        })
        .collect()
}

// ------------------------------------------------------------------ the other notations

/// (sugared body, expanded body, names of the definitions to compare)
fn render_point(p: &Value) -> (String, String, Vec<String>) {
    let fam = p["fam"].as_str().unwrap();
    let early = p["early"].as_bool().unwrap(); // the referenced definition's name sorts before its user's
    match fam {
        "param" => {
            let kinds: Vec<&str> = p["kinds"].as_array().unwrap().iter().map(|k| k.as_str().unwrap()).collect();
            let ninst = p["ninst"].as_u64().unwrap() as usize;
            let tname = if early { "Aatpl" } else { "Zztpl" };
            let formals: Vec<String> = kinds.iter().enumerate().map(|(i, k)| if *k == "type" { format!("Tp{i}") } else { format!("INTEGER:vp{i}") }).collect();
            let comps = |actual: &dyn Fn(usize) -> String| -> Vec<String> {
                kinds.iter().enumerate().map(|(i, k)| if *k == "type" { format!("m{i} {}", actual(i)) } else { format!("m{i} INTEGER (0..{})", actual(i)) }).collect()
            };
            let formal_body = comps(&|i| if kinds[i] == "type" { format!("Tp{i}") } else { format!("vp{i}") });
            let mut s = vec![format!("{tname} {{{}}} ::= SEQUENCE {{ {} }}", formals.join(", "), formal_body.join(", "))];
            let mut e = vec![];
            let mut names = vec![];
            let types = ["BOOLEAN", "OCTET STRING", "IA5String"];
            let nest = p["nest"].as_str().unwrap_or("none");
            for j in 0..ninst {
                let iname = format!("Mi{j}x");
                let actual = |i: usize| -> String { if kinds[i] == "type" { types[(i + j) % 3].to_string() } else { (7 + 2 * (i + j)).to_string() } };
                if nest != "none" {
                    // the first type parameter is given an instance of the same template (with other actual parameters)
                    let inner = |i: usize| -> String { if kinds[i] == "type" { types[(i + 1) % 3].to_string() } else { (20 + i).to_string() } };
                    let inner_actuals: Vec<String> = (0..kinds.len()).map(&inner).collect();
                    let (sug_inner, exp_inner) = (format!("{tname} {{ {} }}", inner_actuals.join(", ")), format!("SEQUENCE {{ {} }}", comps(&inner).join(", ")));
                    let first = kinds.iter().position(|k| *k == "type").unwrap();
                    let wrap = |x: &str| if nest == "constructed" { format!("SEQUENCE {{ x {x}, y NULL }}") } else { x.to_string() };
                    let sug = |i: usize| -> String { if i == first { wrap(&sug_inner) } else { actual(i) } };
                    let exp = |i: usize| -> String { if i == first { wrap(&exp_inner) } else { actual(i) } };
                    let actuals: Vec<String> = (0..kinds.len()).map(&sug).collect();
                    s.push(format!("{iname} ::= {tname} {{ {} }}", actuals.join(", ")));
                    e.push(format!("{iname} ::= SEQUENCE {{ {} }}", comps(&exp).join(", ")));
                    names.push(iname);
                    continue;
                }
                let actuals: Vec<String> = (0..kinds.len()).map(&actual).collect();
                s.push(format!("{iname} ::= {tname} {{ {} }}", actuals.join(", ")));
                e.push(format!("{iname} ::= SEQUENCE {{ {} }}", comps(&actual).join(", ")));
                names.push(iname);
            }
            (s.join("\n"), e.join("\n"), names)
        }
        "paramarg" => {
            // `early`: the template's name sorts before / after the instance's
            let t = if early { "Aatpl" } else { "Zztpl" };
            let (s, e) = match p["form"].as_str().unwrap() {
                "actual_valref" => (format!("four INTEGER ::= 4\n{t} {{INTEGER:max, Elem}} ::= SEQUENCE (SIZE (1..max)) OF Elem\nMarg ::= {t} {{ four, BOOLEAN }}"),
                                    "four INTEGER ::= 4\nMarg ::= SEQUENCE (SIZE (1..4)) OF BOOLEAN".to_string()),
                "dummy_shadow" => (format!("max INTEGER ::= 10\n{t} {{INTEGER:max}} ::= INTEGER (0..max)\nMarg ::= {t} {{ 4 }}"),
                                   "max INTEGER ::= 10\nMarg ::= INTEGER (0..4)".to_string()),
                "dummy_constrained" => (format!("{t} {{T}} ::= SEQUENCE {{ a T (0..5), b BOOLEAN }}\nMarg ::= {t} {{ INTEGER }}"),
                                        "Marg ::= SEQUENCE { a INTEGER (0..5), b BOOLEAN }".to_string()),
                "forward" => (format!("{t} {{INTEGER:n, T}} ::= SEQUENCE {{ inner Inner {{ n, T }} }}\nInner {{INTEGER:m, U}} ::= SEQUENCE (SIZE (1..m)) OF U\nMarg ::= {t} {{ 3, BOOLEAN }}"),
                              "Marg ::= SEQUENCE { inner SEQUENCE (SIZE (1..3)) OF BOOLEAN }".to_string()),
                _ => (format!("{t} {{INTEGER:max, Elem}} ::= SEQUENCE (SIZE (1..max)) OF Elem\nMarg ::= {t} {{ 4, NULL }}"),
                      "Marg ::= SEQUENCE (SIZE (1..4)) OF NULL".to_string()),
            };
            (s, e, vec!["Marg".into()])
        }
        "select" => {
            let nalts = p["nalts"].as_u64().unwrap() as usize;
            let sel = p["sel"].as_u64().unwrap() as usize;
            let alts = ["INTEGER (0..7)", "BOOLEAN", "IA5String"];
            let cname = if early { "Aacho" } else { "Zzcho" };
            let cho = format!("{cname} ::= CHOICE {{ {} }}", (0..nalts).map(|i| format!("a{i} {}", alts[i])).collect::<Vec<_>>().join(", "));
            (format!("{cho}\nMsel ::= a{} < {cname}", sel - 1), format!("{cho}\nMsel ::= {}", alts[sel - 1]), vec!["Msel".into()])
        }
        "classfield" => {
            let cname = if early { "AACLS" } else { "ZZCLS" };
            let cls = format!("{cname} ::= CLASS {{ &id INTEGER (0..255) UNIQUE, &Type }}");
            let host = p["host"].as_str().unwrap_or("plain");
            if host == "two_classes_seq" || host == "two_classes_set" {
                let k = if host == "two_classes_seq" { "SEQUENCE" } else { "SET" };
                let other = "OTHERCLS ::= CLASS { &id OBJECT IDENTIFIER UNIQUE, &Type }";
                return (format!("{cls}\n{other}\nMfld ::= {k} {{ a {cname}.&id, b OTHERCLS.&id, c {cname}.&id OPTIONAL }}"),
                        format!("{cls}\n{other}\nMfld ::= {k} {{ a INTEGER (0..255), b OBJECT IDENTIFIER, c INTEGER (0..255) OPTIONAL }}"), vec!["Mfld".into()]);
            }
            if host != "plain" {
                // F stands for the field type in the sugared module and for the field's type in the expanded one
                let body = match host {
                    "set" => "Mfld ::= SET { f F, g BOOLEAN DEFAULT FALSE }",
                    "choice" => "Mfld ::= CHOICE { f F, g BOOLEAN }",
                    "seqof" => "Mfld ::= SEQUENCE OF F",
                    "setof" => "Mfld ::= SET OF F",
                    "nested_seq_in_setof" => "Mfld ::= SET OF SEQUENCE { k F, v BOOLEAN }",
                    "seq_with_set_sibling" => "Mfld ::= SEQUENCE { f F, extra SET { a INTEGER, b BOOLEAN OPTIONAL } }",
                    "seq_with_ext_choice_sibling" => "Mfld ::= SEQUENCE { f F, pick CHOICE { x INTEGER, ..., y BOOLEAN, z NULL } }",
                    "choice_with_additions" => "Mfld ::= CHOICE { f F, g BOOLEAN, ..., h NULL, i IA5String }",
                    "seq_with_constrained_siblings" => "Small ::= INTEGER (0..100)\nMfld ::= SEQUENCE { f F, n INTEGER (0..7), r Small (0..5) DEFAULT 3, s IA5String (SIZE (1..4)) OPTIONAL, ..., again Mfld OPTIONAL }",
                    _ => "Mfld ::= CHOICE { f F, group SET { x INTEGER, y BOOLEAN } }",
                };
                let sub = |with: &str| body.replace(" F,", &format!(" {with},")).replace(" F }", &format!(" {with} }}")).replace("OF F", &format!("OF {with}"));
                return (format!("{cls}\n{}", sub(&format!("{cname}.&id"))), format!("{cls}\n{}", sub("INTEGER (0..255)")), vec!["Mfld".into()]);
            }
            if p["ascomp"].as_bool().unwrap() {
                (format!("{cls}\nMfld ::= SEQUENCE {{ f {cname}.&id }}"), format!("{cls}\nMfld ::= SEQUENCE {{ f INTEGER (0..255) }}"), vec!["Mfld".into()])
            } else {
                (format!("{cls}\nMfld ::= {cname}.&id"), format!("{cls}\nMfld ::= INTEGER (0..255)"), vec!["Mfld".into()])
            }
        }
        "valref" => {
            let vname = if early { "aalim" } else { "zzlim" };
            let val = format!("{vname} INTEGER ::= 9");
            let (s, e) = match p["where"].as_str().unwrap() {
                "upper" => (format!("Mvr ::= INTEGER (0..{vname})"), "Mvr ::= INTEGER (0..9)".to_string()),
                // the referenced value is itself given by reference (mmlim sorts between aalim and zzlim)
                "chain" => (format!("mmlim INTEGER ::= {vname}\nMvr ::= INTEGER (0..mmlim)"), "mmlim INTEGER ::= 9\nMvr ::= INTEGER (0..9)".to_string()),
                "chain_size" => (format!("mmlim INTEGER ::= {vname}\nMvr ::= OCTET STRING (SIZE (1..mmlim))"), "mmlim INTEGER ::= 9\nMvr ::= OCTET STRING (SIZE (1..9))".to_string()),
                "lower" => (format!("Mvr ::= INTEGER ({vname}..20)"), "Mvr ::= INTEGER (9..20)".to_string()),
                "single" => (format!("Mvr ::= INTEGER ({vname})"), "Mvr ::= INTEGER (9)".to_string()),
                "size" => (format!("Mvr ::= OCTET STRING (SIZE (1..{vname}))"), "Mvr ::= OCTET STRING (SIZE (1..9))".to_string()),
                "upper_min" => (format!("Mvr ::= INTEGER (MIN..{vname})"), "Mvr ::= INTEGER (MIN..9)".to_string()),
                "lower_max" => (format!("Mvr ::= INTEGER ({vname}..MAX)"), "Mvr ::= INTEGER (9..MAX)".to_string()),
                "size_max" => (format!("Mvr ::= OCTET STRING (SIZE ({vname}..MAX))"), "Mvr ::= OCTET STRING (SIZE (9..MAX))".to_string()),
                "component_max" => (format!("Mvr ::= SEQUENCE {{ f INTEGER ({vname}..MAX) }}"), "Mvr ::= SEQUENCE { f INTEGER (9..MAX) }".to_string()),
                "component" => (format!("Mvr ::= SEQUENCE {{ f INTEGER (0..{vname}) }}"), "Mvr ::= SEQUENCE { f INTEGER (0..9) }".to_string()),
                // a DEFAULT literal of a referenced type whose constraint holds the value reference; here `early` places the
                // referenced type (not the value) before / after its user
                "reftype_default" => {
                    let w = if early { "Aawid" } else { "Zzwid" };
                    (format!("{w} ::= INTEGER (0..{vname})\nMvr ::= SEQUENCE {{ f {w} DEFAULT 4 }}"), format!("{w} ::= INTEGER (0..9)\nMvr ::= SEQUENCE {{ f {w} DEFAULT 4 }}"))
                }
                _ => (format!("Mvr ::= SEQUENCE {{ f INTEGER DEFAULT {vname} }}"), "Mvr ::= SEQUENCE { f INTEGER DEFAULT 9 }".to_string()),
            };
            (format!("{val}\n{s}"), format!("{val}\n{e}"), vec!["Mvr".into()])
        }
        "namednum" => {
            // a named number of the referenced type; a decoy type declares the same identifiers with
            // other values and sorts before / after the referenced type
            let decoy = if early { "Aadecoy" } else { "Zzdecoy" };
            let defs = format!("{decoy} ::= INTEGER {{ low(1), high(3) }}\nLevel ::= INTEGER {{ low(2), high(9) }}");
            let (s, e) = match p["where"].as_str().unwrap() {
                "range" => ("Mnn ::= Level (low..high)", "Mnn ::= Level (2..9)"),
                "single" => ("Mnn ::= Level (high)", "Mnn ::= Level (9)"),
                _ => ("Mnn ::= SEQUENCE { f Level (low..high) }", "Mnn ::= SEQUENCE { f Level (2..9) }"),
            };
            (format!("{defs}\n{s}"), format!("{defs}\n{e}"), vec!["Mnn".into()])
        }
        other => panic!("family {other}"),
    }
}

pub fn events_sugar(ci: usize, p: &Value) -> Vec<Value> {
    let (s, e, names) = render_point(p);
    let (stext, etext) = (module(&s), module(&e));
    let (so, sk) = compile_one(&stext);
    let (eo, ek) = compile_one(&etext);
    names
        .iter()
        .map(|n| {
            let a = items_of(&sk, n);
            let b = items_of(&ek, n);
            let mut ev = p.clone();
            ev["ev"] = json!("sugar");
            ev["case"] = json!(ci);
            ev["def"] = json!(n);
            ev["asn"] = json!(stext);
            ev["expanded_asn"] = json!(etext);
            ev["sugared_status"] = json!(status_of(&so));
            ev["expanded_status"] = json!(status_of(&eo));
            ev["same"] = json!(a == b);
            ev["sugared_items"] = json!(a.len());
            ev["expanded_items"] = json!(b.len());
            ev["sugared_kind"] = json!(sk.item(n).map(|i| i.kind.clone()).unwrap_or_default());
            ev["expanded_kind"] = json!(ek.item(n).map(|i| i.kind.clone()).unwrap_or_default());
            ev
        })
        .collect()
}

/// vharness c09 --cases <ndjson> --trace <ndjson>
pub fn drive(args: &[String]) -> i32 {
    let cases = util::read_ndjson(util::arg(args, "--cases").expect("--cases"));
    let indexed: Vec<(usize, Value)> = cases.into_iter().enumerate().collect();
    let events = util::par_chunks(&indexed, 16, util::threads(), |_, chunk| {
        run::install_panic_hook();
        chunk.iter().flat_map(|(i, c)| if c.get("fam").is_some() { events_sugar(*i, c) } else if c.get("nown").is_some() { events_compof2(*i, c) } else { events_compof(*i, c) }).collect()
    });
    util::write_ndjson(util::arg(args, "--trace").expect("--trace"), &events);
    eprintln!("c09: {} cases, {} events", indexed.len(), events.len());
    0
}
