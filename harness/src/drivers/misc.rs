use crate::{rsproj, run};

/// vharness compile <file.asn>... : print bindings, warnings, error
pub fn compile(args: &[String]) -> i32 {
    let ts = args.iter().any(|a| a == "--ts");
    let srcs: Vec<String> = args
        .iter()
        .filter(|a| !a.starts_with("--"))
        .map(|p| std::fs::read_to_string(p).unwrap())
        .collect();
    let (o, _) = if ts { run::compile_ts(&srcs) } else { run::compile_rasn(&srcs, run::default_config()) };
    println!("STATUS {}", o.status);
    println!("{}", o.generated);
    for w in &o.warnings {
        println!("WARNING {w}");
    }
    if !o.error.is_empty() {
        println!("ERROR {}", o.error);
    }
    if !o.panic_msg.is_empty() {
        println!("PANIC {}", o.panic_msg);
    }
    0
}

/// vharness project <file.asn>... : print the abstract item graph of the bindings
pub fn project(args: &[String]) -> i32 {
    let srcs: Vec<String> = args.iter().map(|p| std::fs::read_to_string(p).unwrap()).collect();
    let (o, _) = run::compile_rasn(&srcs, run::default_config());
    println!("{}", serde_json::to_string_pretty(&rsproj::project(&o.generated)).unwrap());
    0
}
