use crate::{rsproj, run};

/// vharness compile <file.asn>... : print bindings, warnings, error
pub fn compile(args: &[String]) -> i32 {
    let ts = args.iter().any(|a| a == "--ts");
    let srcs: Vec<String> = args
        .iter()
        .filter(|a| !a.starts_with("--"))
        .map(|p| std::fs::read_to_string(p).unwrap())
        .collect();
    let (o, _) = if ts { run::compile_ts(&srcs) } else { run::compile_rasn(&srcs, run::default_config()) };
    println!("STATUS {}", o.status);
    println!("{}", o.generated);
    for w in &o.warnings {
        println!("WARNING {w}");
    }
    if !o.error.is_empty() {
        println!("ERROR {}", o.error);
    }
    if !o.panic_msg.is_empty() {
        println!("PANIC {}", o.panic_msg);
    }
    0
}

/// vharness project <file.asn>... : print the abstract item graph of the bindings
pub fn project(args: &[String]) -> i32 {
    let srcs: Vec<String> = args.iter().map(|p| std::fs::read_to_string(p).unwrap()).collect();
    let (o, _) = run::compile_rasn(&srcs, run::default_config());
    println!("{}", serde_json::to_string_pretty(&rsproj::project(&o.generated)).unwrap());
    0
}

/// vharness genstats --cases <ndjson> [--show n]: compile every generated module set, print a
/// status histogram (how much of the grammar the compiler accepts)
pub fn genstats(args: &[String]) -> i32 {
    use crate::{notation::Table, util};
    let cases = util::read_ndjson(util::arg(args, "--cases").expect("--cases"));
    let show: usize = util::arg(args, "--show").and_then(|s| s.parse().ok()).unwrap_or(0);
    let mut hist = std::collections::BTreeMap::<String, usize>::new();
    let mut msgs = std::collections::BTreeMap::<String, (usize, String)>::new();
    for (i, c) in cases.iter().enumerate() {
        let t = Table::from_json(c);
        let text = t.text();
        if i < show {
            println!("----- case {i}\n{text}");
        }
        let (o, _) = run::compile_rasn1(&text);
        let st = if o.status == "ok" && !o.warnings.is_empty() { "warn".to_string() } else { o.status.clone() };
        *hist.entry(st).or_default() += 1;
        let m = format!("{}{}{}", o.error, o.panic_msg, o.warnings.first().cloned().unwrap_or_default());
        if !m.is_empty() {
            let key: String = m.chars().filter(|c| !c.is_ascii_digit()).take(90).collect();
            let e = msgs.entry(key).or_insert((0, text.clone()));
            e.0 += 1;
        }
    }
    println!("{hist:?}");
    for (k, (n, text)) in msgs {
        println!("{n} x {k}\n   e.g. {}", text.replace('\n', "\n        "));
    }
    0
}

/// vharness ctx <file.asn>: the contextualized syntax error of a file
pub fn ctx(args: &[String]) -> i32 {
    use rasn_compiler::prelude::*;
    let text = std::fs::read_to_string(&args[0]).unwrap();
    match Compiler::<RasnBackend, _>::new().add_asn_literal(text.clone()).compile_to_string() {
        Ok(_) => println!("ok"),
        Err(e) => {
            println!("{e}");
            println!("{}", e.contextualize(&text));
        }
    }
    0
}
