//! C03 driver: one tag point (or one automatic-tagging point) per case.
use crate::{rsproj, run, util};
use serde_json::{json, Value};

/// referenced types are declared once per module, under module-specific names (the compiler
/// keeps one definition per bare name across all modules)
fn kind_text(kind: &str, md: &str) -> String {
    let m = &md[..2].to_lowercase();
    match kind {
        "primitive" => "INTEGER".into(),
        "refseq" => format!("RefSeq{m}"),
        "refchoice" => format!("RefCho{m}"),
        "inlinechoice" => "CHOICE { x INTEGER, y BOOLEAN }".into(),
        "open" => "ANY".into(),
        other => panic!("kind {other}"),
    }
}

fn tag_text(cls: &str, n: u64, kw: &str) -> String {
    let c = match cls {
        "context" => "",
        "application" => "APPLICATION ",
        "private" => "PRIVATE ",
        "universal" => "UNIVERSAL ",
        other => panic!("class {other}"),
    };
    let k = if kw == "none" { String::new() } else { format!(" {kw}") };
    format!("[{c}{n}]{k}")
}

pub fn tag_number(k: usize) -> u64 {
    40 + (k as u64 % 50)
}

fn render(k: usize, c: &Value) -> String {
    if c["t"] == "auto" {
        let pat = c["pat"].as_str().unwrap();
        let cont = c["cont"].as_str().unwrap();
        let t = |i: usize| -> &str {
            let tagged = match pat {
                "none" => false,
                "first" => i == 0,
                "last" => i == 2,
                _ => true,
            };
            if tagged { ["[1] ", "[2] ", "[3] "][i] } else { "" }
        };
        let body = match pat {
            // an extension marker, an addition and a version group after two root components
            "none_ext" => format!("{cont} {{ a INTEGER, b BOOLEAN, ..., c NULL, [[ d IA5String, e BOOLEAN ]] }}"),
            "addition" => format!("{cont} {{ a INTEGER, b BOOLEAN, ..., c [3] NULL, [[ d IA5String, e BOOLEAN ]] }}"),
            "group_part" => format!("{cont} {{ a INTEGER, b BOOLEAN, ..., c NULL, [[ d [4] IA5String, e BOOLEAN ]] }}"),
            "group" => format!("{cont} {{ a INTEGER, b BOOLEAN, ..., c NULL, [[ d [4] IA5String, e [5] BOOLEAN ]] }}"),
            _ => format!("{cont} {{ a {}INTEGER, b {}BOOLEAN, c {}NULL }}", t(0), t(1), t(2)),
        };
        if c["nested"].as_bool().unwrap() {
            format!("Au{k} ::= SEQUENCE {{ o {body} }}")
        } else {
            format!("Au{k} ::= {body}")
        }
    } else {
        let tag = tag_text(c["cls"].as_str().unwrap(), tag_number(k), c["kw"].as_str().unwrap());
        let x = kind_text(c["kind"].as_str().unwrap(), c["md"].as_str().unwrap());
        match c["pos"].as_str().unwrap() {
            "assignment" => format!("Tg{k} ::= {tag} {x}"),
            "component" => format!("Tg{k} ::= SEQUENCE {{ f {tag} {x}, g NULL }}"),
            "alternative" => format!("Tg{k} ::= CHOICE {{ f {tag} {x}, g NULL }}"),
            "nested" => format!("Tg{k} ::= SEQUENCE {{ o SEQUENCE {{ f {tag} {x}, g NULL }} }}"),
            "element" => format!("Tg{k} ::= SEQUENCE OF {tag} {x}"),
            other => panic!("position {other}"),
        }
    }
}

fn strip(t: &str) -> String {
    let mut s = t.to_string();
    for w in ["Option<", "Box<", "SequenceOf<", "SetOf<"] {
        if let Some(inner) = s.strip_prefix(w).and_then(|x| x.strip_suffix('>')) {
            s = strip(inner);
        }
    }
    s
}

fn tag_json(a: &rsproj::Attrs) -> Value {
    match a.tag() {
        Some((explicit, cls, num)) => json!({"present": true, "explicit": explicit, "cls": cls, "num": num.parse::<i64>().unwrap_or(-1)}),
        None => json!({"present": false, "explicit": false, "cls": "", "num": -1}),
    }
}

fn observe(k: usize, c: &Value, text: &str, o: &run::Outcome, krate: &rsproj::RCrate) -> Value {
    let auto = c["t"] == "auto";
    let name = if auto { format!("Au{k}") } else { format!("Tg{k}") };
    let mut ev = c.clone();
    ev["ev"] = json!(if auto { "auto" } else { "tag" });
    ev["k"] = json!(k);
    ev["num"] = json!(tag_number(k));
    ev["asn"] = json!(text);
    ev["status"] = json!(o.status);
    ev["detail"] = json!("");
    ev["obs"] = json!({"present": false, "explicit": false, "cls": "", "num": -1});
    ev["obs_automatic"] = json!(false);
    if o.status != "ok" {
        ev["detail"] = json!(format!("{}{}", o.error, o.panic_msg));
        return ev;
    }
    if let Some(w) = o.warnings.iter().find(|w| w.contains(&name)) {
        ev["status"] = json!("warn");
        ev["detail"] = json!(w);
        return ev;
    }
    let Some(item) = krate.item(&name) else {
        ev["status"] = json!("missing");
        return ev;
    };
    let inner_of = |it: &rsproj::RItem, field: &str| -> Option<rsproj::RItem> {
        it.fields.iter().find(|f| f.name == field).and_then(|f| krate.item(&strip(&f.ty)).cloned())
    };
    if auto {
        let it = if c["nested"].as_bool().unwrap() { inner_of(item, "o") } else { Some(item.clone()) };
        match it {
            Some(it) => ev["obs_automatic"] = json!(it.attrs.has("automatic_tags")),
            None => ev["status"] = json!("missing"),
        }
        return ev;
    }
    let obs = match c["pos"].as_str().unwrap() {
        "assignment" => Some(tag_json(&item.attrs)),
        "component" => item.fields.iter().find(|f| f.name == "f").map(|f| tag_json(&f.attrs)),
        "alternative" => item.variants.iter().find(|v| v.name == "f").map(|v| tag_json(&v.attrs)),
        "nested" => inner_of(item, "o").and_then(|it| it.fields.iter().find(|f| f.name == "f").map(|f| tag_json(&f.attrs))),
        "element" => {
            // the element tag can only live on a generated element item (or, if a backend chose
            // to, on the delegate field itself)
            let on_field = item.fields.first().map(|f| tag_json(&f.attrs));
            let elem = item.fields.first().and_then(|f| krate.item(&strip(&f.ty)).cloned());
            match (on_field, elem) {
                (Some(t), _) if t["present"] == true => Some(t),
                (_, Some(e)) if e.name.starts_with("Anonymous") => Some(tag_json(&e.attrs)),
                (t, _) => t,
            }
        }
        _ => None,
    };
    match obs {
        Some(t) => ev["obs"] = t,
        None => ev["status"] = json!("missing"),
    }
    ev
}

fn module(md: &str, flip: bool, body: &str) -> String {
    // the two words of the clause are separate lexical items: on odd batches they are written on two lines
    let clause = match md {
        "EXPLICIT" | "IMPLICIT" | "AUTOMATIC" => format!("{md}{}TAGS ", if flip { "\n      " } else { " " }),
        _ => String::new(),
    };
    // module names: their alphabetical order (= generation order) is reversed on odd batches
    let idx = ["EXPLICIT", "IMPLICIT", "AUTOMATIC", "NONE"].iter().position(|m| *m == md).unwrap();
    let letter = if flip { ["D", "C", "B", "A"][idx] } else { ["A", "B", "C", "D"][idx] };
    let m = &md[..2].to_lowercase();
    format!(
        "Tags{letter}x DEFINITIONS {clause}::= BEGIN\nRefSeq{m} ::= SEQUENCE {{ x INTEGER }}\nRefCho{m} ::= CHOICE {{ x INTEGER, y BOOLEAN }}\n{body}\nEND\n"
    )
}

fn clause(md: &str) -> &'static str {
    match md {
        "EXPLICIT" => "EXPLICIT TAGS ",
        "IMPLICIT" => "IMPLICIT TAGS ",
        "AUTOMATIC" => "AUTOMATIC TAGS ",
        _ => "",
    }
}

/// a cross-module point: the tag is written in module Xa (default md) and reaches module Xb (default md2) through
/// COMPONENTS OF an imported type or through an instance of an imported parameterized type
fn run_cross(k: usize, c: &Value) -> Value {
    let (md, md2, kw) = (c["md"].as_str().unwrap(), c["md2"].as_str().unwrap(), c["kw"].as_str().unwrap());
    let tag = tag_text("context", tag_number(k), kw);
    let param = c["via"] == "param";
    let x = if c["kind"] == "refseq" { format!("RefSeq{k}") } else { "INTEGER".to_string() };
    let a = format!("Xa{k}x DEFINITIONS {}::= BEGIN\nRefSeq{k} ::= SEQUENCE {{ x INTEGER }}\nBase{k} ::= SEQUENCE {{ f {tag} {x}, g NULL }}\nWrap{k} {{T}} ::= SEQUENCE {{ f {tag} T, g NULL }}\nEND\n", clause(md));
    let user = if param { format!("Tg{k} ::= Wrap{k} {{ {x} }}") } else { format!("Tg{k} ::= SEQUENCE {{ h BOOLEAN, COMPONENTS OF Base{k} }}") };
    let b = format!("Xb{k}x DEFINITIONS {}::= BEGIN\nIMPORTS Base{k}, Wrap{k}{{}}, RefSeq{k} FROM Xa{k}x;\n{user}\nEND\n", clause(md2));
    let (o, _) = run::compile_rasn(&[a.clone(), b.clone()], run::default_config());
    let mut ev = c.clone();
    ev["ev"] = json!("tag");
    ev["k"] = json!(k);
    ev["num"] = json!(tag_number(k));
    ev["asn"] = json!(format!("{a}{b}"));
    ev["status"] = json!(o.status);
    ev["detail"] = json!("");
    ev["obs"] = json!({"present": false, "explicit": false, "cls": "", "num": -1});
    ev["obs_automatic"] = json!(false);
    if o.status != "ok" {
        ev["detail"] = json!(format!("{}{}", o.error, o.panic_msg));
        return ev;
    }
    if let Some(w) = o.warnings.iter().find(|w| w.contains(&format!("Tg{k}")) || w.contains(&format!("Base{k}")) || w.contains(&format!("Wrap{k}"))) {
        ev["status"] = json!("warn");
        ev["detail"] = json!(w);
        return ev;
    }
    let krate = rsproj::project(&o.generated);
    match krate.item(&format!("Tg{k}")).and_then(|it| it.fields.iter().find(|f| f.name == "f").map(|f| tag_json(&f.attrs))) {
        Some(t) => ev["obs"] = t,
        None => ev["status"] = json!("missing"),
    }
    ev
}

fn run_batch(base: usize, cases: &[Value], force_flip: Option<bool>) -> Vec<Value> {
    if cases.iter().any(|c| c["t"] == "xtag") {
        // cross-module points are compiled on their own; the others of the batch as usual
        return cases.iter().enumerate().flat_map(|(i, c)| {
            if c["t"] == "xtag" { vec![run_cross(base + i, c)] } else { run_batch(base + i, std::slice::from_ref(c), force_flip) }
        }).collect();
    }
    let texts: Vec<String> = cases.iter().enumerate().map(|(i, c)| render(base + i, c)).collect();
    let flip = force_flip.unwrap_or((base / cases.len().max(1)) % 2 == 1);
    let mut srcs = vec![];
    for md in ["EXPLICIT", "IMPLICIT", "AUTOMATIC", "NONE"] {
        let body: Vec<String> = cases.iter().zip(&texts).filter(|(c, _)| c["md"] == md).map(|(_, t)| t.clone()).collect();
        if !body.is_empty() {
            srcs.push(module(md, flip, &body.join("\n")));
        }
    }
    // RefSeq / RefCho exist once per module: the bindings live in different Rust modules, the
    // projection looks items up by their (unique) case name
    let (o, _) = run::compile_rasn(&srcs, run::default_config());
    if o.clean() {
        let krate = rsproj::project(&o.generated);
        return cases.iter().enumerate().map(|(i, c)| observe(base + i, c, &texts[i], &o, &krate)).collect();
    }
    if cases.len() > 4 {
        let mid = cases.len() / 2;
        let mut a = run_batch(base, &cases[..mid], force_flip);
        a.extend(run_batch(base + mid, &cases[mid..], force_flip));
        return a;
    }
    cases
        .iter()
        .enumerate()
        .map(|(i, c)| {
            let (o, _) = run::compile_rasn(&[module(c["md"].as_str().unwrap(), false, &texts[i])], run::default_config());
            let krate = rsproj::project(&o.generated);
            observe(base + i, c, &texts[i], &o, &krate)
        })
        .collect()
}

/// vharness c03 --cases <ndjson> --trace <ndjson>
pub fn drive(args: &[String]) -> i32 {
    let cases = util::read_ndjson(util::arg(args, "--cases").expect("--cases"));
    let batch: usize = util::arg(args, "--batch").and_then(|s| s.parse().ok()).unwrap_or(96);
    let force_flip = util::arg(args, "--flip").map(|f| f == "1");
    let events = util::par_chunks(&cases, batch, util::threads(), |base, chunk| {
        run::install_panic_hook();
        run_batch(base, chunk, force_flip)
    });
    util::write_ndjson(util::arg(args, "--trace").expect("--trace"), &events);
    eprintln!("c03: {} cases, {} events", cases.len(), events.len());
    0
}

// ------------------------------------------------------------------------------ DER probe

/// vharness c03der --cases <ndjson> --stride <n> --crate <dir> --plan <json>
/// One file per tag point: its bindings and a function that builds a value of the type and encodes it with
/// rasn's DER codec.  Building and running the probe is the Python side's business.
pub fn der_gen(args: &[String]) -> i32 {
    let cases = util::read_ndjson(util::arg(args, "--cases").expect("--cases"));
    let stride: usize = util::arg(args, "--stride").and_then(|s| s.parse().ok()).unwrap_or(1);
    let dir = util::arg(args, "--crate").expect("--crate").to_string();
    std::fs::create_dir_all(format!("{dir}/src")).unwrap();
    let idx: Vec<usize> = (0..cases.len()).filter(|k| cases[*k]["t"] == "tag" && k % stride == 0).collect();
    let plan: Vec<Value> = util::par_chunks(&idx, 16, util::threads(), |_, chunk| {
        run::install_panic_hook();
        chunk.iter().map(|&k| {
            let c = &cases[k];
            let text = module(c["md"].as_str().unwrap(), false, &render(k, c));
            let (o, _) = run::compile_rasn(&[text.clone()], run::default_config());
            let mut e = c.clone();
            e["ev"] = json!("der");
            e["k"] = json!(k);
            e["num"] = json!(tag_number(k));
            e["asn"] = json!(text);
            e["status"] = json!(if o.status == "ok" && !o.warnings.is_empty() { "warn".to_string() } else { o.status.clone() });
            e["file"] = json!("");
            e["expr"] = json!("");
            if o.clean() {
                let krate = rsproj::project(&o.generated);
                let name = format!("Tg{k}");
                let module_name = krate.modules.iter().find(|m| !m.name.is_empty()).map(|m| m.name.clone()).unwrap_or_default();
                if let Some(expr) = crate::rsvalue::build(&krate, &name, 0) {
                    let file = format!("c_{k}.rs");
                    let body = format!("{}\npub fn run() -> Result<Vec<u8>, String> {{\n    use self::{module_name}::*;\n    use rasn::prelude::*;\n    extern crate alloc;\n    let v: {name} = {expr};\n    rasn::der::encode(&v).map_err(|e| e.to_string())\n}}\n",
                                       crate::drivers::c01::one_item_per_line(&o.generated));
                    std::fs::write(format!("{dir}/src/{file}"), body).unwrap();
                    e["file"] = json!(file);
                    e["expr"] = json!(expr);
                } else {
                    e["status"] = json!("novalue");
                }
            }
            e
        }).collect()
    });
    std::fs::write(util::arg(args, "--plan").expect("--plan"), serde_json::to_string(&plan).unwrap()).unwrap();
    eprintln!("c03der: {} tag points, {} probe files", plan.len(), plan.iter().filter(|e| e["file"] != "").count());
    0
}
