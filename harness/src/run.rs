//! Driving the real compiler: one compilation = one `Outcome`. Panics are data.
use rasn_compiler::prelude::ir::*;
use rasn_compiler::prelude::*;
use serde::Serialize;
use std::cell::RefCell;
use std::panic::{catch_unwind, AssertUnwindSafe};

#[derive(Debug, Clone, Serialize, Default)]
pub struct Outcome {
    /// "ok" | "err" | "panic"
    pub status: String,
    pub generated: String,
    pub warnings: Vec<String>,
    pub error: String,
    pub panic_msg: String,
}

impl Outcome {
    pub fn ok(&self) -> bool {
        self.status == "ok"
    }
    pub fn clean(&self) -> bool {
        self.status == "ok" && self.warnings.is_empty()
    }
}

thread_local! {
    pub static IR_SINK: RefCell<Vec<ToplevelDefinition>> = RefCell::new(vec![]);
    static PANIC_MSG: RefCell<String> = RefCell::new(String::new());
}

pub fn install_panic_hook() {
    std::panic::set_hook(Box::new(|info| {
        let loc = info
            .location()
            .map(|l| format!("{}:{}", l.file(), l.line()))
            .unwrap_or_default();
        let msg = if let Some(s) = info.payload().downcast_ref::<&str>() {
            s.to_string()
        } else if let Some(s) = info.payload().downcast_ref::<String>() {
            s.clone()
        } else {
            "<non-string panic>".into()
        };
        PANIC_MSG.with(|p| *p.borrow_mut() = format!("{loc}: {msg}"));
    }));
}

/// A backend that records the linked IR it is handed and delegates to the real rasn backend.
#[derive(Default)]
pub struct Tap {
    inner: RasnBackend,
}

impl Backend for Tap {
    type Config = RasnConfig;
    const FILE_EXTENSION: &'static str = ".rs";
    fn generate_module(
        &mut self,
        tlds: Vec<ToplevelDefinition>,
    ) -> Result<GeneratedModule, GeneratorError> {
        IR_SINK.with(|k| k.borrow_mut().extend(tlds.iter().cloned()));
        self.inner.generate_module(tlds)
    }
    fn generate(&self, tld: ToplevelDefinition) -> Result<String, GeneratorError> {
        self.inner.generate(tld)
    }
    fn config(&self) -> &Self::Config {
        self.inner.config()
    }
    fn from_config(config: Self::Config) -> Self {
        Tap { inner: RasnBackend::from_config(config) }
    }
    fn new(config: Self::Config, t: TaggingEnvironment, e: ExtensibilityEnvironment) -> Self {
        Tap { inner: RasnBackend::new(config, t, e) }
    }
}

/// A backend that records the linked IR and delegates to the real TypeScript backend.
#[derive(Default)]
pub struct TsTap {
    inner: TypescriptBackend,
}

impl Backend for TsTap {
    type Config = TsConfig;
    const FILE_EXTENSION: &'static str = ".ts";
    fn generate_module(
        &mut self,
        tlds: Vec<ToplevelDefinition>,
    ) -> Result<GeneratedModule, GeneratorError> {
        IR_SINK.with(|k| k.borrow_mut().extend(tlds.iter().cloned()));
        self.inner.generate_module(tlds)
    }
    fn generate(&self, tld: ToplevelDefinition) -> Result<String, GeneratorError> {
        self.inner.generate(tld)
    }
    fn config(&self) -> &Self::Config {
        self.inner.config()
    }
    fn from_config(config: Self::Config) -> Self {
        TsTap { inner: TypescriptBackend::from_config(config) }
    }
    fn new(config: Self::Config, t: TaggingEnvironment, e: ExtensibilityEnvironment) -> Self {
        TsTap { inner: TypescriptBackend::new(config, t, e) }
    }
}

fn finish(r: std::thread::Result<Result<CompileResult, CompilerError>>) -> Outcome {
    match r {
        Ok(Ok(res)) => Outcome {
            status: "ok".into(),
            generated: res.generated,
            warnings: res.warnings.iter().map(|w| w.to_string()).collect(),
            ..Default::default()
        },
        Ok(Err(e)) => Outcome { status: "err".into(), error: e.to_string(), ..Default::default() },
        Err(_) => Outcome {
            status: "panic".into(),
            panic_msg: PANIC_MSG.with(|p| p.borrow().clone()),
            ..Default::default()
        },
    }
}

pub fn default_config() -> RasnConfig {
    RasnConfig::default()
}

/// Compile literal sources with the rasn backend; also returns the linked IR.
pub fn compile_rasn(sources: &[String], config: RasnConfig) -> (Outcome, Vec<ToplevelDefinition>) {
    IR_SINK.with(|k| k.borrow_mut().clear());
    let r = catch_unwind(AssertUnwindSafe(|| {
        let mut c = Compiler::<Tap, _>::new_with_config(config).add_asn_literal(sources[0].clone());
        for s in &sources[1..] {
            c = c.add_asn_literal(s.clone());
        }
        c.compile_to_string()
    }));
    let ir = IR_SINK.with(|k| std::mem::take(&mut *k.borrow_mut()));
    (finish(r), ir)
}

/// Compile with the compiler's own backend type, not through the tapping wrapper: a wrapper forwards the trait methods it
/// knows, so a method the compiler adds to the Backend trait (with a default body) would silently take the default here
pub fn compile_rasn_plain(sources: &[String], config: RasnConfig) -> Outcome {
    let r = catch_unwind(AssertUnwindSafe(|| {
        let mut c = Compiler::<RasnBackend, _>::new_with_config(config).add_asn_literal(sources[0].clone());
        for s in &sources[1..] {
            c = c.add_asn_literal(s.clone());
        }
        c.compile_to_string()
    }));
    finish(r)
}

pub fn compile_rasn1(source: &str) -> (Outcome, Vec<ToplevelDefinition>) {
    compile_rasn(&[source.to_string()], RasnConfig::default())
}

pub fn compile_ts(sources: &[String]) -> (Outcome, Vec<ToplevelDefinition>) {
    IR_SINK.with(|k| k.borrow_mut().clear());
    let r = catch_unwind(AssertUnwindSafe(|| {
        let mut c = Compiler::<TsTap, _>::new().add_asn_literal(sources[0].clone());
        for s in &sources[1..] {
            c = c.add_asn_literal(s.clone());
        }
        c.compile_to_string()
    }));
    let ir = IR_SINK.with(|k| std::mem::take(&mut *k.borrow_mut()));
    (finish(r), ir)
}

/// run `f` on a thread with a large stack (deep recursion in the lexer on nested input)
pub fn with_big_stack<T: Send + 'static>(f: impl FnOnce() -> T + Send + 'static) -> T {
    std::thread::Builder::new()
        .stack_size(256 * 1024 * 1024)
        .spawn(move || {
            install_panic_hook();
            f()
        })
        .unwrap()
        .join()
        .unwrap()
}
