//! Structural projection of generated TypeScript declarations (text) to an abstract shape.
use serde::Serialize;

#[derive(Debug, Clone, Serialize, PartialEq)]
#[serde(tag = "k")]
pub enum TsType {
    Prim { v: String },
    Ref { v: String },
    Lit { v: String },
    Obj { members: Vec<TsMember>, index: bool },
    Arr { of: Box<TsType> },
    Union { of: Vec<TsType> },
    Unknown { v: String },
}

#[derive(Debug, Clone, Serialize, PartialEq)]
pub struct TsMember {
    pub name: String,
    pub opt: bool,
    pub ty: TsType,
}

#[derive(Debug, Clone, Serialize)]
pub struct TsDecl {
    pub name: String,
    /// "type" | "enum" | "const" | other
    pub kind: String,
    pub ty: Option<TsType>,
    /// enum members: (name, string value)
    pub members: Vec<(String, String)>,
}

#[derive(Debug, Clone, Serialize, Default)]
pub struct TsNamespace {
    pub name: String,
    /// (local name, module, remote name)
    pub imports: Vec<(String, String, String)>,
    pub decls: Vec<TsDecl>,
}

#[derive(Debug, Clone, Serialize, Default)]
pub struct TsFile {
    pub balanced: bool,
    pub parse_error: String,
    pub namespaces: Vec<TsNamespace>,
}

#[derive(Debug, Clone, PartialEq)]
enum T {
    Id(String),
    Str(String),
    P(char),
}

fn lex(s: &str) -> Vec<T> {
    let c: Vec<char> = s.chars().collect();
    let mut i = 0;
    let mut out = vec![];
    while i < c.len() {
        let ch = c[i];
        if ch.is_whitespace() {
            i += 1;
        } else if ch == '/' && i + 1 < c.len() && c[i + 1] == '/' {
            while i < c.len() && c[i] != '\n' {
                i += 1;
            }
        } else if ch == '/' && i + 1 < c.len() && c[i + 1] == '*' {
            i += 2;
            while i + 1 < c.len() && !(c[i] == '*' && c[i + 1] == '/') {
                i += 1;
            }
            i += 2;
        } else if ch == '"' || ch == '\'' {
            let q = ch;
            let mut v = String::new();
            i += 1;
            while i < c.len() && c[i] != q {
                if c[i] == '\\' && i + 1 < c.len() {
                    i += 1;
                }
                v.push(c[i]);
                i += 1;
            }
            i += 1;
            out.push(T::Str(v));
        } else if ch.is_alphanumeric() || ch == '_' || ch == '$' || (ch == '-' && i + 1 < c.len() && c[i + 1].is_ascii_digit()) {
            let mut v = String::new();
            v.push(ch);
            i += 1;
            while i < c.len() && (c[i].is_alphanumeric() || c[i] == '_' || c[i] == '$') {
                v.push(c[i]);
                i += 1;
            }
            out.push(T::Id(v));
        } else {
            out.push(T::P(ch));
            i += 1;
        }
    }
    out
}

struct P<'a> {
    t: &'a [T],
    i: usize,
}

impl<'a> P<'a> {
    fn peek(&self) -> Option<&T> {
        self.t.get(self.i)
    }
    fn next(&mut self) -> Option<T> {
        let x = self.t.get(self.i).cloned();
        self.i += 1;
        x
    }
    fn eat(&mut self, c: char) -> bool {
        if self.peek() == Some(&T::P(c)) {
            self.i += 1;
            true
        } else {
            false
        }
    }
    fn is_id(&self, s: &str) -> bool {
        matches!(self.peek(), Some(T::Id(x)) if x == s)
    }

    // union := postfix ('|' postfix)*
    fn ty(&mut self) -> TsType {
        self.eat('|');
        let first = self.postfix();
        let mut alts = vec![first];
        while self.eat('|') {
            alts.push(self.postfix());
        }
        if alts.len() == 1 { alts.pop().unwrap() } else { TsType::Union { of: alts } }
    }
    // postfix := primary ('[' ']')*
    fn postfix(&mut self) -> TsType {
        let mut t = self.primary();
        while self.peek() == Some(&T::P('[')) && self.t.get(self.i + 1) == Some(&T::P(']')) {
            self.i += 2;
            t = TsType::Arr { of: Box::new(t) };
        }
        t
    }
    fn primary(&mut self) -> TsType {
        match self.next() {
            Some(T::P('(')) => {
                let t = self.ty();
                self.eat(')');
                t
            }
            Some(T::P('{')) => {
                let mut members = vec![];
                let mut index = false;
                loop {
                    match self.peek() {
                        None => break,
                        Some(T::P('}')) => {
                            self.i += 1;
                            break;
                        }
                        Some(T::P(',')) | Some(T::P(';')) => {
                            self.i += 1;
                        }
                        Some(T::P('[')) => {
                            // index signature [key: string]: any
                            while !matches!(self.peek(), Some(T::P(']')) | None) {
                                self.i += 1;
                            }
                            self.eat(']');
                            self.eat(':');
                            let _ = self.ty();
                            index = true;
                        }
                        Some(T::Id(_)) | Some(T::Str(_)) => {
                            let name = match self.next() {
                                Some(T::Id(n)) | Some(T::Str(n)) => n,
                                _ => String::new(),
                            };
                            let opt = self.eat('?');
                            self.eat(':');
                            let ty = self.ty();
                            members.push(TsMember { name, opt, ty });
                        }
                        Some(_) => {
                            self.i += 1;
                        }
                    }
                }
                TsType::Obj { members, index }
            }
            Some(T::Str(s)) => TsType::Lit { v: s },
            Some(T::Id(id)) => {
                // qualified names a.b
                let mut name = id;
                while self.peek() == Some(&T::P('.')) {
                    self.i += 1;
                    if let Some(T::Id(n)) = self.next() {
                        name = format!("{name}.{n}");
                    }
                }
                match name.as_str() {
                    "number" | "string" | "boolean" | "null" | "any" | "undefined" | "unknown" | "bigint" | "never" | "void" | "object" => TsType::Prim { v: name },
                    _ => TsType::Ref { v: name },
                }
            }
            other => TsType::Unknown { v: format!("{other:?}") },
        }
    }
}

pub fn project(text: &str) -> TsFile {
    let mut file = TsFile { balanced: true, ..Default::default() };
    // delimiter balance on the raw token stream
    let toks = lex(text);
    let mut stack = vec![];
    for t in &toks {
        if let T::P(c) = t {
            match c {
                '{' | '[' | '(' => stack.push(*c),
                '}' | ']' | ')' => {
                    let want = match c {
                        '}' => '{',
                        ']' => '[',
                        _ => '(',
                    };
                    if stack.pop() != Some(want) {
                        file.balanced = false;
                    }
                }
                _ => (),
            }
        }
    }
    if !stack.is_empty() {
        file.balanced = false;
    }
    let mut p = P { t: &toks, i: 0 };
    while p.peek().is_some() {
        if p.is_id("export") && matches!(p.t.get(p.i + 1), Some(T::Id(x)) if x == "namespace") {
            p.i += 2;
            let name = match p.next() {
                Some(T::Id(n)) => n,
                _ => String::new(),
            };
            p.eat('{');
            let mut ns = TsNamespace { name, ..Default::default() };
            loop {
                match p.peek() {
                    None => break,
                    Some(T::P('}')) => {
                        p.i += 1;
                        break;
                    }
                    Some(T::Id(x)) if x == "import" => {
                        p.i += 1;
                        let local = match p.next() {
                            Some(T::Id(n)) => n,
                            _ => String::new(),
                        };
                        p.eat('=');
                        let mut path = vec![];
                        while let Some(T::Id(n)) = p.peek().cloned() {
                            p.i += 1;
                            path.push(n);
                            if !p.eat('.') {
                                break;
                            }
                        }
                        p.eat(';');
                        let remote = path.last().cloned().unwrap_or_default();
                        let module = path.first().cloned().unwrap_or_default();
                        ns.imports.push((local, module, remote));
                    }
                    Some(T::Id(x)) if x == "export" => {
                        p.i += 1;
                        match p.next() {
                            Some(T::Id(k)) if k == "type" => {
                                let name = match p.next() {
                                    Some(T::Id(n)) => n,
                                    _ => String::new(),
                                };
                                p.eat('=');
                                let ty = p.ty();
                                p.eat(';');
                                ns.decls.push(TsDecl { name, kind: "type".into(), ty: Some(ty), members: vec![] });
                            }
                            Some(T::Id(k)) if k == "enum" => {
                                let name = match p.next() {
                                    Some(T::Id(n)) => n,
                                    _ => String::new(),
                                };
                                p.eat('{');
                                let mut members = vec![];
                                loop {
                                    match p.next() {
                                        None | Some(T::P('}')) => break,
                                        Some(T::Id(m)) | Some(T::Str(m)) => {
                                            let mut val = String::new();
                                            if p.eat('=') {
                                                match p.next() {
                                                    Some(T::Str(v)) => val = v,
                                                    Some(T::Id(v)) => val = format!("#{v}"),
                                                    _ => (),
                                                }
                                            }
                                            members.push((m, val));
                                        }
                                        _ => (),
                                    }
                                }
                                p.eat(';');
                                ns.decls.push(TsDecl { name, kind: "enum".into(), ty: None, members });
                            }
                            Some(T::Id(k)) => {
                                // export const ... : skip to the terminating ';' at depth 0
                                let name = match p.peek() {
                                    Some(T::Id(n)) => n.clone(),
                                    _ => String::new(),
                                };
                                let mut depth = 0i32;
                                while let Some(t) = p.next() {
                                    match t {
                                        T::P('{') | T::P('[') | T::P('(') => depth += 1,
                                        T::P('}') | T::P(']') | T::P(')') => depth -= 1,
                                        T::P(';') if depth <= 0 => break,
                                        _ => (),
                                    }
                                    if depth < 0 {
                                        p.i -= 1;
                                        break;
                                    }
                                }
                                ns.decls.push(TsDecl { name, kind: k, ty: None, members: vec![] });
                            }
                            _ => (),
                        }
                    }
                    Some(_) => {
                        p.i += 1;
                    }
                }
            }
            file.namespaces.push(ns);
        } else {
            p.i += 1;
        }
    }
    file
}
