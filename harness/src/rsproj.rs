//! Projection of generated Rust bindings (text) to an abstract item graph.
//! Deliberately dumb: it records what is there, it does not judge.
use serde::Serialize;
use syn::{punctuated::Punctuated, Expr, Fields, Item, Lit, Meta as SynMeta, Token};

#[derive(Debug, Clone, Serialize, PartialEq)]
#[serde(tag = "m")]
pub enum Meta {
    /// bare word: `delegate`, `context`
    Path { k: String },
    /// literal: `"0..=5"`, `1`
    Lit { v: String },
    /// `identifier = "x"`
    NV { k: String, v: String },
    /// `tag(explicit(context, 1))`
    List { k: String, a: Vec<Meta> },
}

impl Meta {
    pub fn key(&self) -> &str {
        match self {
            Meta::Path { k } | Meta::NV { k, .. } | Meta::List { k, .. } => k,
            Meta::Lit { .. } => "",
        }
    }
}

#[derive(Debug, Clone, Serialize, Default)]
pub struct Attrs {
    pub rasn: Vec<Meta>,
    pub derives: Vec<String>,
    pub non_exhaustive: bool,
    pub docs: Vec<String>,
    /// every other attribute, as normalised token text
    pub other: Vec<String>,
}

impl Attrs {
    pub fn find(&self, key: &str) -> Option<&Meta> {
        self.rasn.iter().find(|m| m.key() == key)
    }
    pub fn has(&self, key: &str) -> bool {
        self.find(key).is_some()
    }
    pub fn nv(&self, key: &str) -> Option<String> {
        match self.find(key) {
            Some(Meta::NV { v, .. }) => Some(v.clone()),
            _ => None,
        }
    }
    /// first literal argument of `key("...")`
    pub fn list_lit(&self, key: &str) -> Option<String> {
        match self.find(key) {
            Some(Meta::List { a, .. }) => a.iter().find_map(|m| match m {
                Meta::Lit { v } => Some(v.clone()),
                _ => None,
            }),
            _ => None,
        }
    }
    pub fn list_has(&self, key: &str, word: &str) -> bool {
        match self.find(key) {
            Some(Meta::List { a, .. }) => a.iter().any(|m| m.key() == word),
            _ => false,
        }
    }
    /// (explicit?, class, number) of a `tag(...)` annotation
    pub fn tag(&self) -> Option<(bool, String, String)> {
        fn cls_num(a: &[Meta]) -> Option<(String, String)> {
            let mut words = a.iter();
            let c = match words.next()? {
                Meta::Path { k } => k.clone(),
                Meta::Lit { v } => return Some(("context".into(), v.clone())),
                _ => return None,
            };
            let n = match words.next() {
                Some(Meta::Lit { v }) => v.clone(),
                _ => return None,
            };
            Some((c, n))
        }
        match self.find("tag") {
            Some(Meta::List { a, .. }) => match a.first() {
                Some(Meta::List { k, a: inner }) if k == "explicit" => {
                    cls_num(inner).map(|(c, n)| (true, c, n))
                }
                _ => cls_num(a).map(|(c, n)| (false, c, n)),
            },
            _ => None,
        }
    }
}

#[derive(Debug, Clone, Serialize)]
pub struct Field {
    pub name: String,
    pub ty: String,
    pub attrs: Attrs,
}

#[derive(Debug, Clone, Serialize)]
pub struct Variant {
    pub name: String,
    pub disc: Option<String>,
    pub ty: Option<String>,
    pub attrs: Attrs,
}

#[derive(Debug, Clone, Serialize, Default)]
pub struct RItem {
    /// struct | tuple_struct | unit_struct | enum | static | const | fn | impl | use | macro | other
    pub kind: String,
    pub name: String,
    pub attrs: Attrs,
    pub fields: Vec<Field>,
    pub variants: Vec<Variant>,
    /// type of static/const, return type of fn, self type of impl
    pub ty: String,
    /// initialiser / body tokens (normalised); trait path for impl
    pub expr: String,
    pub vis_pub: bool,
    /// names of fns inside an impl
    pub fns: Vec<String>,
    /// normalised tokens of the items inside an impl
    pub body: String,
}

#[derive(Debug, Clone, Serialize, Default)]
pub struct RModule {
    pub name: String,
    pub uses: Vec<String>,
    pub items: Vec<RItem>,
    pub attrs: Vec<String>,
}

#[derive(Debug, Clone, Serialize, Default)]
pub struct RCrate {
    pub parsed_ok: bool,
    pub parse_error: String,
    pub modules: Vec<RModule>,
    /// items outside any module
    pub loose: Vec<RItem>,
}

pub fn norm_tokens(ts: impl quote::ToTokens) -> String {
    let s = ts.to_token_stream().to_string();
    norm_str(&s)
}

/// remove all whitespace that is not needed to separate two identifier-like characters
pub fn norm_str(s: &str) -> String {
    let mut out = String::with_capacity(s.len());
    let chars: Vec<char> = s.chars().collect();
    let isid = |c: char| c.is_alphanumeric() || c == '_' || c == '"' || c == '\'';
    let mut i = 0;
    let mut in_str = false;
    while i < chars.len() {
        let c = chars[i];
        if in_str {
            out.push(c);
            if c == '\\' && i + 1 < chars.len() {
                out.push(chars[i + 1]);
                i += 1;
            } else if c == '"' {
                in_str = false;
            }
        } else if c == '"' {
            in_str = true;
            out.push(c);
        } else if c.is_whitespace() {
            let prev = out.chars().last();
            let mut j = i;
            while j < chars.len() && chars[j].is_whitespace() {
                j += 1;
            }
            let next = chars.get(j).copied();
            if let (Some(p), Some(n)) = (prev, next) {
                if isid(p) && isid(n) {
                    out.push(' ');
                }
            }
            i = j;
            continue;
        } else {
            out.push(c);
        }
        i += 1;
    }
    out
}

fn lit_to_string(l: &Lit) -> String {
    match l {
        Lit::Str(s) => s.value(),
        Lit::Int(i) => i.base10_digits().to_string() + i.suffix(),
        Lit::Bool(b) => b.value.to_string(),
        Lit::Char(c) => c.value().to_string(),
        other => norm_tokens(other),
    }
}

fn expr_to_meta(e: &Expr) -> Meta {
    match e {
        Expr::Lit(l) => Meta::Lit { v: lit_to_string(&l.lit) },
        Expr::Unary(u) => Meta::Lit { v: norm_tokens(u) },
        Expr::Path(p) => Meta::Path { k: norm_tokens(p) },
        other => Meta::Lit { v: norm_tokens(other) },
    }
}

fn parse_meta_list(tokens: proc_macro2::TokenStream) -> Vec<Meta> {
    // items are either Meta or literal expressions
    struct Items(Vec<Meta>);
    impl syn::parse::Parse for Items {
        fn parse(input: syn::parse::ParseStream) -> syn::Result<Self> {
            let mut v = vec![];
            while !input.is_empty() {
                if input.peek(Lit) || input.peek(Token![-]) {
                    let e: Expr = input.parse()?;
                    v.push(expr_to_meta(&e));
                } else {
                    let m: SynMeta = input.parse()?;
                    v.push(conv_meta(&m));
                }
                if input.is_empty() {
                    break;
                }
                let _: Token![,] = input.parse()?;
            }
            Ok(Items(v))
        }
    }
    match syn::parse2::<Items>(tokens.clone()) {
        Ok(i) => i.0,
        Err(_) => vec![Meta::Lit { v: norm_tokens(tokens) }],
    }
}

fn conv_meta(m: &SynMeta) -> Meta {
    match m {
        SynMeta::Path(p) => Meta::Path { k: norm_tokens(p) },
        SynMeta::NameValue(nv) => Meta::NV {
            k: norm_tokens(&nv.path),
            v: match &nv.value {
                Expr::Lit(l) => lit_to_string(&l.lit),
                other => norm_tokens(other),
            },
        },
        SynMeta::List(l) => Meta::List {
            k: norm_tokens(&l.path),
            a: parse_meta_list(l.tokens.clone()),
        },
    }
}

pub fn conv_attrs(attrs: &[syn::Attribute]) -> Attrs {
    let mut out = Attrs::default();
    for a in attrs {
        let path = norm_tokens(a.path());
        match path.as_str() {
            "rasn" => {
                if let SynMeta::List(l) = &a.meta {
                    out.rasn.extend(parse_meta_list(l.tokens.clone()));
                }
            }
            "derive" => {
                if let Ok(list) =
                    a.parse_args_with(Punctuated::<syn::Path, Token![,]>::parse_terminated)
                {
                    out.derives.extend(list.iter().map(norm_tokens));
                }
            }
            "non_exhaustive" => out.non_exhaustive = true,
            "doc" => {
                if let SynMeta::NameValue(nv) = &a.meta {
                    if let Expr::Lit(l) = &nv.value {
                        out.docs.push(lit_to_string(&l.lit));
                    }
                }
            }
            _ => out.other.push(norm_tokens(a)),
        }
    }
    out
}

fn conv_fields(f: &Fields) -> Vec<Field> {
    match f {
        Fields::Named(n) => n
            .named
            .iter()
            .map(|f| Field {
                name: f.ident.as_ref().map(|i| i.to_string()).unwrap_or_default(),
                ty: norm_tokens(&f.ty),
                attrs: conv_attrs(&f.attrs),
            })
            .collect(),
        Fields::Unnamed(u) => u
            .unnamed
            .iter()
            .enumerate()
            .map(|(i, f)| Field {
                name: i.to_string(),
                ty: norm_tokens(&f.ty),
                attrs: conv_attrs(&f.attrs),
            })
            .collect(),
        Fields::Unit => vec![],
    }
}

fn conv_item(item: &Item, module: &mut RModule, loose: &mut Vec<RItem>, top: bool, krate: &mut RCrate) {
    let mut push = |it: RItem, module: &mut RModule| {
        if top {
            loose.push(it)
        } else {
            module.items.push(it)
        }
    };
    match item {
        Item::Mod(m) => {
            let mut rm = RModule {
                name: m.ident.to_string(),
                attrs: m.attrs.iter().map(norm_tokens).collect(),
                ..Default::default()
            };
            if let Some((_, items)) = &m.content {
                let mut dummy = vec![];
                for it in items {
                    conv_item(it, &mut rm, &mut dummy, false, krate);
                }
            }
            krate.modules.push(rm);
        }
        Item::Use(u) => module.uses.push(norm_tokens(&u.tree)),
        Item::ExternCrate(e) => module.uses.push(format!("extern crate {}", e.ident)),
        Item::Struct(s) => {
            let kind = match &s.fields {
                Fields::Named(_) => "struct",
                Fields::Unnamed(_) => "tuple_struct",
                Fields::Unit => "unit_struct",
            };
            push(
                RItem {
                    kind: kind.into(),
                    name: s.ident.to_string(),
                    attrs: conv_attrs(&s.attrs),
                    fields: conv_fields(&s.fields),
                    vis_pub: matches!(s.vis, syn::Visibility::Public(_)),
                    ..Default::default()
                },
                module,
            );
        }
        Item::Enum(e) => {
            push(
                RItem {
                    kind: "enum".into(),
                    name: e.ident.to_string(),
                    attrs: conv_attrs(&e.attrs),
                    variants: e
                        .variants
                        .iter()
                        .map(|v| Variant {
                            name: v.ident.to_string(),
                            disc: v.discriminant.as_ref().map(|(_, e)| norm_tokens(e)),
                            ty: match &v.fields {
                                Fields::Unnamed(u) => Some(
                                    u.unnamed.iter().map(|f| norm_tokens(&f.ty)).collect::<Vec<_>>().join(","),
                                ),
                                Fields::Named(n) => Some(norm_tokens(n)),
                                Fields::Unit => None,
                            },
                            attrs: conv_attrs(&v.attrs),
                        })
                        .collect(),
                    vis_pub: matches!(e.vis, syn::Visibility::Public(_)),
                    ..Default::default()
                },
                module,
            );
        }
        Item::Static(s) => push(
            RItem {
                kind: "static".into(),
                name: s.ident.to_string(),
                attrs: conv_attrs(&s.attrs),
                ty: norm_tokens(&s.ty),
                expr: norm_tokens(&s.expr),
                vis_pub: matches!(s.vis, syn::Visibility::Public(_)),
                ..Default::default()
            },
            module,
        ),
        Item::Const(c) => push(
            RItem {
                kind: "const".into(),
                name: c.ident.to_string(),
                attrs: conv_attrs(&c.attrs),
                ty: norm_tokens(&c.ty),
                expr: norm_tokens(&c.expr),
                vis_pub: matches!(c.vis, syn::Visibility::Public(_)),
                ..Default::default()
            },
            module,
        ),
        Item::Fn(f) => push(
            RItem {
                kind: "fn".into(),
                name: f.sig.ident.to_string(),
                attrs: conv_attrs(&f.attrs),
                ty: match &f.sig.output {
                    syn::ReturnType::Default => "()".into(),
                    syn::ReturnType::Type(_, t) => norm_tokens(t),
                },
                expr: norm_tokens(&f.block),
                vis_pub: matches!(f.vis, syn::Visibility::Public(_)),
                ..Default::default()
            },
            module,
        ),
        Item::Impl(i) => push(
            RItem {
                kind: "impl".into(),
                name: norm_tokens(&i.self_ty),
                attrs: conv_attrs(&i.attrs),
                ty: norm_tokens(&i.self_ty),
                expr: i.trait_.as_ref().map(|(_, p, _)| norm_tokens(p)).unwrap_or_default(),
                fns: i
                    .items
                    .iter()
                    .filter_map(|it| match it {
                        syn::ImplItem::Fn(f) => Some(f.sig.ident.to_string()),
                        _ => None,
                    })
                    .collect(),
                body: i.items.iter().map(norm_tokens).collect::<Vec<_>>().join(" "),
                ..Default::default()
            },
            module,
        ),
        Item::Type(t) => push(
            RItem {
                kind: "type".into(),
                name: t.ident.to_string(),
                attrs: conv_attrs(&t.attrs),
                ty: norm_tokens(&t.ty),
                vis_pub: matches!(t.vis, syn::Visibility::Public(_)),
                ..Default::default()
            },
            module,
        ),
        Item::Macro(m) => push(
            RItem {
                kind: "macro".into(),
                name: norm_tokens(&m.mac.path),
                expr: norm_str(&m.mac.tokens.to_string()),
                ..Default::default()
            },
            module,
        ),
        other => push(
            RItem { kind: "other".into(), expr: norm_tokens(other), ..Default::default() },
            module,
        ),
    }
}

pub fn project(generated: &str) -> RCrate {
    let mut krate = RCrate::default();
    match syn::parse_file(generated) {
        Ok(file) => {
            krate.parsed_ok = true;
            let mut dummy = RModule::default();
            let mut loose = vec![];
            for it in &file.items {
                conv_item(it, &mut dummy, &mut loose, true, &mut krate);
            }
            krate.loose = loose;
            if !dummy.uses.is_empty() {
                krate.modules.insert(0, RModule { name: String::new(), uses: dummy.uses, ..Default::default() });
            }
        }
        Err(e) => {
            krate.parse_error = e.to_string();
        }
    }
    krate
}

impl RCrate {
    pub fn module(&self, name: &str) -> Option<&RModule> {
        self.modules.iter().find(|m| m.name == name)
    }
    pub fn item(&self, name: &str) -> Option<&RItem> {
        self.modules
            .iter()
            .flat_map(|m| m.items.iter())
            .chain(self.loose.iter())
            .find(|i| i.name == name && i.kind != "impl")
    }
    pub fn all_items(&self) -> impl Iterator<Item = &RItem> {
        self.modules.iter().flat_map(|m| m.items.iter()).chain(self.loose.iter())
    }
}

impl RModule {
    pub fn item(&self, name: &str) -> Option<&RItem> {
        self.items.iter().find(|i| i.name == name && i.kind != "impl")
    }
}
